use swimos_model::Value;
use swimos_recon::parser::parse_recognize;
use swimos_recon::{compare_recon_values, recon_hash};

#[test]
fn compare_agrees_with_parsed_equality() {
    let pairs = [
        ("{{1,1}}", "{1,{1}}"), ("{{,1}}", "{,{1}}"), ("{{a,b}}", "{a,{b}}"), ("@a({,,},)", "@a(,{,},)"), ("{{:{}}}", "{:{{}}}"), ("{@a1{{}}}", "{{@a1}}"),
        ("{{1,2}}", "{1,{2}}"), ("{{1,2},3}", "{1,{2,3}}"), ("@a({1,1})", "@a(1,{1})"), ("{a:{1,1}}", "{a:1,{1}}"),
    ];
    let mut bad = vec![];
    for (a, b) in pairs {
        let va = parse_recognize::<Value>(a, false).unwrap();
        let vb = parse_recognize::<Value>(b, false).unwrap();
        let cmp = compare_recon_values(a, b);
        let hh = |t: &str| { use std::hash::Hasher; let mut h = std::collections::hash_map::DefaultHasher::new(); recon_hash(t, &mut h); h.finish() };
        let h = hh(a) == hh(b);
        println!("{:12} {:12} parsed-equal={} compare={} hash-equal={}", a, b, va == vb, cmp, h);
        if cmp != (va == vb) { bad.push((a, b)); }
    }
    assert!(bad.is_empty(), "compare disagrees with parsed equality on {:?}", bad);
}
