use swimos_form::Form;
use swimos_model::Value;
use swimos_recon::parser::parse_recognize;

#[derive(Form, Debug, PartialEq, Clone)]
struct Simple { first: i32 }
#[derive(Form, Debug, PartialEq, Clone)]
struct Tup(i32);
#[derive(Form, Debug, PartialEq, Clone)]
struct Unit;

fn both<T: Form + std::fmt::Debug + PartialEq>(text: &str) -> (bool, bool) {
    let direct = parse_recognize::<T>(text, false).is_ok();
    let via = parse_recognize::<Value>(text, false).ok().map(|v| T::try_from_value(&v).is_ok()).unwrap_or(false);
    (direct, via)
}

#[test]
fn tag_attribute_with_empty_items() {
    let mut ok = true;
    for t in ["@Simple{first:1}", "@Simple(){first:1}", "@Simple(,){first:1}", "@Simple(,,){first:1}"] {
        let (d, v) = both::<Simple>(t); println!("Simple {:?}: direct {} via {}", t, d, v); ok &= d == v;
    }
    for t in ["@Tup{1}", "@Tup(,){1}", "@Tup(,,){1}"] {
        let (d, v) = both::<Tup>(t); println!("Tup {:?}: direct {} via {}", t, d, v); ok &= d == v;
    }
    for t in ["@Unit", "@Unit(,)", "@Unit(,,)"] {
        let (d, v) = both::<Unit>(t); println!("Unit {:?}: direct {} via {}", t, d, v); ok &= d == v;
    }
    assert!(ok);
}
