// F56: the hand-written Duration / RetryStrategy recognizers accepted any number of empty items in their tag
// attribute when reading Recon directly, while reading the same text through the model rejects it.
use std::time::Duration;

use swimos_form::read::RecognizerReadable;
use swimos_form::Form;
use swimos_model::Value;
use swimos_recon::parser::parse_recognize;
use swimos_utilities::future::RetryStrategy;

fn both_paths<T: RecognizerReadable + Form + std::fmt::Debug + PartialEq>(text: &str) -> (Option<T>, Option<T>) {
    let direct = parse_recognize::<T>(text, false).ok();
    let via_model = parse_recognize::<Value>(text, false)
        .ok()
        .and_then(|v| T::try_from_value(&v).ok());
    (direct, via_model)
}

#[test]
fn duration_tag_with_empty_items_reads_the_same_on_both_paths() {
    for text in [
        "@duration { secs: 1, nanos: 2 }",
        "@duration() { secs: 1, nanos: 2 }",
        "@duration(,) { secs: 1, nanos: 2 }",
        "@duration(,,) { secs: 1, nanos: 2 }",
        "@duration(,,,) { secs: 1, nanos: 2 }",
    ] {
        let (direct, via_model) = both_paths::<Duration>(text);
        assert_eq!(direct, via_model, "reading paths disagree on {}", text);
    }
}

#[test]
fn retry_strategy_tag_with_empty_items_reads_the_same_on_both_paths() {
    for text in ["@none", "@none()", "@none(,)", "@none(,,)", "@immediate(,,) { retries: 3 }"] {
        let (direct, via_model) = both_paths::<RetryStrategy>(text);
        assert_eq!(direct, via_model, "reading paths disagree on {}", text);
    }
}
