// Triage harness for F64 (kept for the record; not run by any registered check). Placed in api/formats/swimos_recon/tests/ of a scratch copy:
// before the fix (cbd3717) all three printers write `@Outer @inner(@Inner( { 1, 2 }) { x: 5 }` - a second, never closed `(` - and
// parse_recognize::<Outer> answers UnexpectedKind { actual: Record, expected: EndOfAttribute }; after it the value is read back.
use swimos_form::Form;
use swimos_recon::parser::parse_recognize;
use swimos_recon::{print_recon, print_recon_compact, print_recon_pretty};

#[derive(Debug, PartialEq, Eq, Clone, Form)]
struct Inner {
    #[form(body)]
    items: Vec<i32>,
}

#[derive(Debug, PartialEq, Eq, Clone, Form)]
struct Outer {
    #[form(attr)]
    inner: Inner,
    x: i32,
}

#[test]
fn body_collection_in_attribute() {
    let v = Outer { inner: Inner { items: vec![1, 2] }, x: 5 };
    for s in [format!("{}", print_recon(&v)), format!("{}", print_recon_compact(&v)), format!("{}", print_recon_pretty(&v))] {
        assert_eq!(parse_recognize::<Outer>(s.as_str(), false).ok(), Some(v.clone()), "{}", s);
    }
}
