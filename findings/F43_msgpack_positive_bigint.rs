use bytes::{BufMut, BytesMut};
use swimos_form::write::StructuralWritable;
use swimos_model::{BigInt, BigUint, Value};
use swimos_msgpack::{read_from_msg_pack, MsgPackInterpreter};

fn rt(v: &Value) -> Result<Value, String> {
    let mut buf = BytesMut::new();
    let mut w = (&mut buf).writer();
    v.write_with(MsgPackInterpreter::new(&mut w)).map_err(|e| format!("{}", e))?;
    let mut b = buf.split().freeze();
    read_from_msg_pack::<Value, _>(&mut b).map_err(|e| format!("{}", e))
}

#[test]
fn triage() {
    for v in [
        Value::BigInt(BigInt::from(5)),
        Value::BigInt(BigInt::from(-5)),
        Value::BigInt(BigInt::from(0)),
        Value::BigInt(BigInt::from(u64::MAX) * 4),
        Value::BigUint(BigUint::from(5u32)),
        Value::BigUint(BigUint::from(u64::MAX) * 4u32),
        Value::UInt64Value(u64::MAX),
        Value::UInt32Value(u32::MAX),
        Value::Int32Value(-1),
        Value::Float64Value(1.5),
        Value::Int64Value(i64::MIN),
    ] {
        println!("{:?} -> {:?}", v, rt(&v));
    }
}
