use swimos_model::{Attr, Item, Value};
use swimos_recon::parser::parse_recognize;
use swimos_recon::{print_recon, print_recon_compact, print_recon_pretty};

fn check(v: &Value) -> bool {
    let mut ok = true;
    for (nm, s) in [
        ("std", format!("{}", print_recon(v))),
        ("compact", format!("{}", print_recon_compact(v))),
        ("pretty", format!("{}", print_recon_pretty(v))),
    ] {
        let back = parse_recognize::<Value>(s.as_str(), false);
        let good = matches!(&back, Ok(b) if b == v);
        println!("{:8} {:?} -> {:?} {}", nm, s, back.as_ref().map(|b| format!("{:?}", b)).unwrap_or_else(|e| format!("ERR {}", e)), if good { "OK" } else { "MISMATCH" });
        ok &= good;
    }
    ok
}

#[test]
fn attr_values() {
    let b_attr = Attr::of("b");
    // @a(@b {k:1})
    let v1 = Value::Record(vec![Attr::of(("a", Value::Record(vec![b_attr.clone()], vec![Item::slot("k", 1)])))], vec![]);
    // @a(@b {{1}})
    let v2 = Value::Record(vec![Attr::of(("a", Value::Record(vec![b_attr.clone()], vec![Item::ValueItem(Value::Record(vec![], vec![Item::of(1)]))])))], vec![]);
    // parser-producible?
    println!("{:?}", parse_recognize::<Value>("@a(@b {k:1})", false));
    println!("{:?}", parse_recognize::<Value>("@a(@b {{1}})", false));
    let r1 = check(&v1);
    let r2 = check(&v2);
    assert!(r1 && r2);
}
