// F62 demonstration (C16): place as api/formats/swimos_msgpack/tests/f62_bigint_body.rs
//   cargo test --offline -p swimos_msgpack --test f62_bigint_body
// Before the fix `bigint_body_round_trips` and `biguint_body_round_trips` fail with "Unexpected message pack marker: FixExt.."/InvalidMarker: the writer
// puts the extension where the body starts, read_record_body had no case for extension markers (the bin markers were F48).
use bytes::{BufMut, BytesMut};
use num_bigint::{BigInt, BigUint};
use swimos_form::write::StructuralWritable;
use swimos_form::Form;
use swimos_msgpack::{read_from_msg_pack, MsgPackInterpreter};

#[derive(Form, Debug, PartialEq, Clone)]
struct WithBigIntBody {
    #[form(header)]
    name: String,
    #[form(body)]
    content: BigInt,
}

#[derive(Form, Debug, PartialEq, Clone)]
struct WithBigUintBody {
    #[form(header)]
    name: String,
    #[form(body)]
    content: BigUint,
}

fn rt<T: Form + std::fmt::Debug>(v: &T) -> Result<T, String> {
    let mut buf = BytesMut::new();
    let mut w = (&mut buf).writer();
    v.write_with(MsgPackInterpreter::new(&mut w)).map_err(|e| format!("{}", e))?;
    let mut b = buf.split().freeze();
    read_from_msg_pack::<T, _>(&mut b).map_err(|e| format!("{}", e))
}

#[test]
fn bigint_body_round_trips() {
    for n in [BigInt::from(-7), BigInt::from(0), BigInt::from(u64::MAX) * BigInt::from(u64::MAX)] {
        let v = WithBigIntBody { name: "n".to_string(), content: n };
        assert_eq!(rt(&v), Ok(v));
    }
}

#[test]
fn biguint_body_round_trips() {
    for n in [BigUint::from(0u32), BigUint::from(u64::MAX) * BigUint::from(u64::MAX)] {
        let v = WithBigUintBody { name: "n".to_string(), content: n };
        assert_eq!(rt(&v), Ok(v));
    }
}
