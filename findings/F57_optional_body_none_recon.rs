// F57: typed -> model -> typed fails for a `#[form(body)]` field holding an absent value.
use swimos_form::Form;
use swimos_model::Value;
use swimos_recon::parser::parse_recognize;
use swimos_recon::print_recon_compact;

#[derive(Form, Debug, PartialEq, Clone)]
struct O {
    #[form(body)]
    v: Option<i32>,
}

#[derive(Form, Debug, PartialEq, Clone)]
struct W {
    #[form(header)]
    n: i32,
    #[form(body)]
    v: Value,
}

#[test]
fn delegate_body_none_round_trips_through_the_model() {
    for o in [O { v: Some(5) }, O { v: None }] {
        let model = o.as_value();
        let text = format!("{}", print_recon_compact(&o));
        let model_from_text = parse_recognize::<Value>(text.as_str(), false).unwrap();
        assert_eq!(O::try_from_value(&model_from_text).ok(), Some(o.clone()), "text path {}", text);
        assert_eq!(
            O::try_from_value(&model).ok(),
            Some(o.clone()),
            "typed -> model -> typed for {:?} (model {:?}, text {})",
            o,
            model,
            text
        );
    }
}

#[test]
fn delegate_body_extant_value_round_trips_through_the_model() {
    let w = W { n: 1, v: Value::Extant };
    let model = w.as_value();
    let text = format!("{}", print_recon_compact(&w));
    let model_from_text = parse_recognize::<Value>(text.as_str(), false).unwrap();
    assert_eq!(W::try_from_value(&model_from_text).ok(), Some(w.clone()), "text path {}", text);
    assert_eq!(W::try_from_value(&model).ok(), Some(w.clone()), "typed -> model -> typed (model {:?}, text {})", model, text);
}
