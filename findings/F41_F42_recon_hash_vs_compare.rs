use std::collections::hash_map::DefaultHasher;
use std::hash::Hasher;
use swimos_recon::{compare_recon_values, recon_hash};

fn h(s: &str) -> u64 {
    let mut hasher = DefaultHasher::new();
    recon_hash(s, &mut hasher);
    hasher.finish()
}

fn check(a: &str, b: &str) {
    let eq = compare_recon_values(a, b);
    let va = swimos_recon::parser::parse_recognize::<swimos_model::Value>(a, false);
    let vb = swimos_recon::parser::parse_recognize::<swimos_model::Value>(b, false);
    let veq = match (&va, &vb) { (Ok(x), Ok(y)) => Some(x == y), _ => None };
    println!("{:?} vs {:?}: compare={} parsed_eq={:?} hash_eq={}", a, b, eq, veq, h(a) == h(b));
}

#[test]
fn triage() {
    check("0.0", "-0.0");
    check("@a(\"x,y\")", "@a(\"x\\u002cy\")");
    check("@a(\"x,y\")", "@a({\"x,y\"})");
    check("@a(\"x)y\")", "@a(\"x\\u0029y\")");
    check("@a(\"x:y\")", "@a(\"x\\u003ay\")");
    check("@a(1)", "@a({1})");
    check("@a(1,2)", "@a({1,2})");
    check("{a:1}", "{ a : 1 }");
    check("1", "1.0");
    check("@a(%AAAA)", "@a(%AAAA )");
    check("@a(\"(\")", "@a(\"\\u0028\")");
}

#[test]
fn more() {
    check("@a(\"x}y\", {1})", "@a(\"x\\u007dy\", {1})");
    check("@a({\"x)y\"})", "@a({\"x\\u0029y\"})");
    check("@a(\"x\\\"y,z\")", "@a(\"x\\\"y\\u002cz\")");
    check("@a(\"x;y\") 4", "@a(\"x\\u003by\") 4");
    check("@a(b:\"x\")", "@a( b : \"x\" )");
    check("@a(\"\")", "@a( \"\" )");
    check("@a(\"", "@a(\"");
}
