use std::collections::hash_map::DefaultHasher;
use std::hash::Hasher;
use swimos_recon::{compare_recon_values, recon_hash};
use swimos_recon::parser::parse_recognize;
use swimos_model::Value;

fn h(s: &str) -> u64 { let mut hh = DefaultHasher::new(); recon_hash(s, &mut hh); hh.finish() }
fn check(a: &str, b: &str) -> bool {
    let eq = compare_recon_values(a, b);
    let va = parse_recognize::<Value>(a, false);
    let vb = parse_recognize::<Value>(b, false);
    let veq = match (&va, &vb) { (Ok(x), Ok(y)) => Some(x == y), _ => None };
    let heq = h(a) == h(b);
    println!("{:?} vs {:?}: compare={} parsed_eq={:?} hash_eq={}", a, b, eq, veq, heq);
    !(eq && !heq) && veq.map(|v| v == eq).unwrap_or(true)
}
#[test]
fn newline() {
    let mut ok = true;
    ok &= check("@a(1\n2)", "@a(1,2)");
    ok &= check("@a(1\n2)", "@a({1,2})");
    ok &= check("@a(1\n)", "@a(1)");
    ok &= check("@a(\n1)", "@a(1)");
    ok &= check("@a(\n1\n)", "@a(1)");
    ok &= check("@a(x\ny)", "@a(x;y)");
    ok &= check("@a(\"s\"\n2)", "@a(\"s\",2)");
    ok &= check("@a({1}\n2)", "@a({1},2)");
    ok &= check("@a(@b\n2)", "@a(@b,2)");
    ok &= check("@a(1\n\n2)", "@a(1,2)");
    ok &= check("@a(1 \n 2)", "@a(1,2)");
    ok &= check("@a(1\r\n2)", "@a(1,2)");
    assert!(ok);
}

#[test]
fn printers_agree() {
    use swimos_model::{Attr, Item};
    use swimos_recon::{print_recon, print_recon_compact, print_recon_pretty};
    let vals = vec![
        Value::Record(vec![Attr::of(("a", Value::Record(vec![], vec![Item::of(1), Item::of(2)])))], vec![]),
        Value::Record(vec![Attr::of(("a", Value::Record(vec![], vec![Item::slot("k", 1), Item::slot("j", 2)])))], vec![Item::of(3)]),
        Value::Record(vec![Attr::of(("a", Value::Record(vec![Attr::of("b")], vec![Item::of(1), Item::of(2)])))], vec![]),
        Value::Record(vec![Attr::of(("a", Value::Record(vec![], vec![Item::of(Value::Record(vec![], vec![Item::of(1), Item::of(2)])), Item::of("x,y")])))], vec![]),
        Value::Record(vec![Attr::of(("a", 1))], vec![Item::slot("k", Value::Record(vec![Attr::of(("c", Value::Record(vec![], vec![Item::of(1), Item::of(2), Item::of(3)])))], vec![]))]),
    ];
    let mut ok = true;
    for v in &vals {
        let forms = [format!("{}", print_recon(v)), format!("{}", print_recon_compact(v)), format!("{}", print_recon_pretty(v))];
        for i in 0..3 { for j in (i+1)..3 { ok &= check(&forms[i], &forms[j]); } }
    }
    assert!(ok);
}
