use bytes::{BufMut, BytesMut};
use swimos_form::write::StructuralWritable;
use swimos_form::Form;
use swimos_model::Value;
use swimos_msgpack::{read_from_msg_pack, MsgPackInterpreter};

#[derive(Form, Debug, PartialEq, Clone)]
struct Tup(Option<i32>, i32);

#[derive(Form, Debug, PartialEq, Clone)]
struct Named { a: Option<i32>, b: i32 }

fn rt<T: Form + std::fmt::Debug>(v: &T) -> Result<T, String> {
    let mut buf = BytesMut::new();
    let mut w = (&mut buf).writer();
    v.write_with(MsgPackInterpreter::new(&mut w)).map_err(|e| format!("write: {}", e))?;
    let mut b = buf.split().freeze();
    read_from_msg_pack::<T, _>(&mut b).map_err(|e| format!("read: {}", e))
}

#[test]
fn tuple_struct_with_none() {
    for v in [Tup(None, 2), Tup(Some(1), 2)] {
        assert_eq!(rt(&v), Ok(v.clone()));
        let m: Value = v.as_value();
        assert_eq!(Tup::try_from_value(&m).map_err(|e| format!("{}", e)), Ok(v));
    }
}

#[test]
fn named_struct_with_none() {
    for v in [Named { a: None, b: 2 }, Named { a: Some(1), b: 2 }] {
        assert_eq!(rt(&v), Ok(v.clone()));
    }
}
