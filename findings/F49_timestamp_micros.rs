use chrono::{TimeZone, Utc};
use swimos_form::Form;
use swimos_model::{Timestamp, Value};

fn rt(micros: i64) -> Result<i64, String> {
    let secs = micros.div_euclid(1_000_000);
    let nanos = (micros.rem_euclid(1_000_000) * 1_000) as u32;
    let ts = Timestamp::from(Utc.timestamp_opt(secs, nanos).unwrap());
    let v: Value = ts.as_value();
    Timestamp::try_from_value(&v).map(|t| t.as_ref().timestamp_micros()).map_err(|e| format!("{}", e))
}

#[test]
fn timestamps_survive_the_model() {
    for m in [0i64, 1_000_000, 1_700_000_000_435_000, 1_700_000_000_000_001, 999_999, -1, -1_500_000, -1_000_000] {
        assert_eq!(rt(m), Ok(m), "timestamp of {} microseconds", m);
    }
}
