// Triage harness for F63 (kept for the record; not run by any registered check). Placed in runtime/swimos_messages/tests/ of a scratch copy:
// before the fix (ddb1452) the first and fourth input panic inside nom::Finish::finish, after it every input is an ordinary error.
use swimos_messages::warp::peel_envelope_header_str;
#[test]
fn a_empty_node() {
    for s in ["@event(node:,lane:x)", "@event(node:\"abc,lane:x)", "@event(node:\"abc", "@event(node: ,lane:x) 1", "@event(node:a,lane:\"b) 2", "@command(node:\"\\", "@event(node:\"a\",lane:\"b\\\")"] {
        let r = std::panic::catch_unwind(|| peel_envelope_header_str(s).map(|_| ()).map_err(|e| e.to_string()));
        println!("{:?} -> {:?}", s, r.map_err(|_| "PANIC"));
    }
}
