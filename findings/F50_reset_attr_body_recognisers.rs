use std::collections::HashMap;
use swimos_form::Form;
use swimos_model::Value;
use swimos_recon::parser::parse_recognize;

#[derive(Form, Debug, PartialEq, Clone)]
struct WithVecAttr {
    #[form(attr)]
    v: Vec<i32>,
    x: i32,
}

#[derive(Form, Debug, PartialEq, Clone)]
struct Inner {
    a: i32,
    b: i32,
}

#[derive(Form, Debug, PartialEq, Clone)]
struct WithStructAttr {
    #[form(attr)]
    inner: Inner,
    x: i32,
}

fn both<T: Form + std::fmt::Debug + PartialEq>(text: &str) -> (Result<T, String>, Result<T, String>) {
    let direct = parse_recognize::<T>(text, false).map_err(|e| format!("{}", e));
    let via = parse_recognize::<Value>(text, false).map_err(|e| format!("{}", e)).and_then(|v| T::try_from_value(&v).map_err(|e| format!("{}", e)));
    (direct, via)
}

#[test]
fn second_element_with_vec_attr() {
    let (direct, via) = both::<Vec<WithVecAttr>>("{@WithVecAttr@v(1,2){x:1},@WithVecAttr@v(3,4){x:2}}");
    assert_eq!(direct, via);
    assert!(direct.is_ok());
}

#[test]
fn map_recogniser_reused_after_failure() {
    // the value recogniser of a Vec is reset between elements; a map that failed half way must not leak entries
    let (direct, via) = both::<Vec<HashMap<String, i32>>>("{{a:1,b:2},{c:3}}");
    assert_eq!(direct, via);
    assert_eq!(direct.map(|v| v.iter().map(|m| m.len()).collect::<Vec<_>>()), Ok(vec![2, 1]));
}
