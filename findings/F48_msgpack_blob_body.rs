use bytes::{BufMut, BytesMut};
use swimos_form::write::StructuralWritable;
use swimos_form::Form;
use swimos_model::Blob;
use swimos_msgpack::{read_from_msg_pack, MsgPackInterpreter};

#[derive(Form, Debug, PartialEq, Clone)]
struct WithBlobBody {
    #[form(header)]
    name: String,
    #[form(body)]
    content: Blob,
}

#[derive(Form, Debug, PartialEq, Clone)]
struct WithIntBody {
    #[form(header)]
    name: String,
    #[form(body)]
    content: i32,
}

fn rt<T: Form + std::fmt::Debug>(v: &T) -> Result<T, String> {
    let mut buf = BytesMut::new();
    let mut w = (&mut buf).writer();
    v.write_with(MsgPackInterpreter::new(&mut w)).map_err(|e| format!("{}", e))?;
    let mut b = buf.split().freeze();
    read_from_msg_pack::<T, _>(&mut b).map_err(|e| format!("{}", e))
}

#[test]
fn int_body_round_trips() {
    let v = WithIntBody { name: "n".to_string(), content: 7 };
    assert_eq!(rt(&v), Ok(v));
}

#[test]
fn blob_body_round_trips() {
    let v = WithBlobBody { name: "n".to_string(), content: Blob::from_vec(vec![1, 2, 3]) };
    assert_eq!(rt(&v), Ok(v));
}
