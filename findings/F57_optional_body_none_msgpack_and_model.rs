use bytes::{BufMut, BytesMut};
use std::fmt::Debug;
use swimos_form::Form;
use swimos_msgpack::{read_from_msg_pack, MsgPackInterpreter, MsgPackReadError};

fn round_trip<T: Form + PartialEq + Debug>(value: &T) {
    // typed -> model -> typed
    let model = value.as_value();
    assert_eq!(T::try_from_value(&model).as_ref().ok(), Some(value), "typed -> model -> typed (model {:?})", model);
    // MessagePack
    let mut buffer = BytesMut::new();
    let mut writer = (&mut buffer).writer();
    value
        .write_with(MsgPackInterpreter::new(&mut writer))
        .expect("Write failure");
    let mut bytes = buffer.split().freeze();
    let restored: Result<T, MsgPackReadError> = read_from_msg_pack(&mut bytes);
    assert_eq!(restored.as_ref(), Ok(value), "MessagePack");
}

#[derive(Form, Debug, PartialEq, Clone)]
struct Body {
    #[form(body)]
    v: Option<i32>,
}
#[derive(Form, Debug, PartialEq, Clone)]
struct BodyWithSlotHeader {
    #[form(header)]
    n: i32,
    #[form(body)]
    v: Option<String>,
}
#[derive(Form, Debug, PartialEq, Clone)]
struct AttrF {
    #[form(attr)]
    a: Option<i32>,
    b: i32,
}
#[derive(Form, Debug, PartialEq, Clone)]
struct HeaderBody {
    #[form(header_body)]
    h: Option<i32>,
    b: i32,
}
#[derive(Form, Debug, PartialEq, Clone)]
struct Header {
    #[form(header)]
    h: Option<i32>,
    b: i32,
}
#[derive(Form, Debug, PartialEq, Clone)]
struct Slot {
    s: Option<i32>,
    b: i32,
}
#[derive(Form, Debug, PartialEq, Clone)]
struct Tuple(Option<i32>, i32);

#[test] fn body_some() { round_trip(&Body { v: Some(5) }); }
#[test] fn body_none() { round_trip(&Body { v: None }); }
#[test] fn body_with_header_none() { round_trip(&BodyWithSlotHeader { n: 1, v: None }); }
#[test] fn attr_none() { round_trip(&AttrF { a: None, b: 2 }); }
#[test] fn attr_some() { round_trip(&AttrF { a: Some(1), b: 2 }); }
#[test] fn header_body_none() { round_trip(&HeaderBody { h: None, b: 2 }); }
#[test] fn header_none() { round_trip(&Header { h: None, b: 2 }); }
#[test] fn slot_none() { round_trip(&Slot { s: None, b: 2 }); }
#[test] fn tuple_none() { round_trip(&Tuple(None, 2)); }
