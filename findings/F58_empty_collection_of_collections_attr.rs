// F58: `#[form(attr)] a: Vec<Vec<i32>>` with `a = vec![]` was read back as `vec![vec![]]`, from the printed
// Recon text and from the model value alike. Place in api/formats/swimos_recon/tests/ and run
//   cargo test --offline -p swimos_recon --test F58_empty_collection_of_collections_attr
use swimos_form::Form;
use swimos_recon::parser::parse_recognize;
use swimos_recon::print_recon_compact;

#[derive(Form, Debug, PartialEq, Clone)]
struct S {
    #[form(attr)]
    a: Vec<Vec<i32>>,
}

#[test]
fn nested_vec_attr_round_trips() {
    for s in [
        S { a: vec![] },
        S { a: vec![vec![]] },
        S { a: vec![vec![1, 2]] },
        S { a: vec![vec![1, 2], vec![3]] },
        S { a: vec![vec![1]] },
        S { a: vec![vec![], vec![]] },
    ] {
        let text = format!("{}", print_recon_compact(&s));
        let model = s.as_value();
        assert_eq!(parse_recognize::<S>(text.as_str(), false).ok(), Some(s.clone()), "typed -> text -> typed via {}", text);
        assert_eq!(S::try_from_value(&model).ok(), Some(s.clone()), "typed -> model -> typed via {:?}", model);
    }
}
