// F61 demonstration (C02 / C04 / C14): appended to runtime/swimos_runtime/src/agent/task/remotes/uplink/tests.rs
//   cargo test --offline -p swimos_runtime --lib remotes::uplink::tests::bad_map_event_does_not_lose_the_writer
// Before the fix: the second push returns Ok(None) - the remote's sender was taken out of `Uplinks.writer` by the rejected event and dropped, so
// every later event for this remote is queued for ever (handle_event logs "Discarding invalid map lane event" and carries on).
#[test]
fn bad_map_event_does_not_lose_the_writer() {
    let lane_names = lane_names();
    let (mut uplinks, _reader, ..) = make_uplinks();

    let result = uplinks.push(
        0,
        UplinkResponse::Map(MapOperation::Remove {
            key: BytesMut::from(BAD_UTF8),
        }),
        &lane_names,
    );
    assert!(result.is_err());

    // The remote is idle and still attached: the next event must be written at once.
    let next = uplinks
        .push(1, UplinkResponse::Value(Bytes::from_static(BODY1)), &lane_names)
        .expect("Action was invalid.");
    assert!(
        next.is_some(),
        "the writer of the remote was dropped with the rejected map event: nothing will ever be written to this remote again"
    );
}
