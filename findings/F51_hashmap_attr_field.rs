use std::collections::HashMap;
use swimos_form::Form;
use swimos_model::Value;
use swimos_recon::parser::parse_recognize;
use swimos_recon::print_recon_compact;

#[derive(Form, Debug, PartialEq, Clone)]
struct WithMapAttr {
    #[form(attr)]
    m: HashMap<String, i32>,
    x: i32,
}

#[derive(Form, Debug, PartialEq, Clone)]
struct WithVecAttr {
    #[form(attr)]
    v: Vec<i32>,
    x: i32,
}

#[test]
fn map_attr_through_the_model() {
    for n in 0..4 {
        let m: HashMap<String, i32> = (0..n).map(|i| (format!("k{}", i), i)).collect();
        let t = WithMapAttr { m, x: 1 };
        let v: Value = t.as_value();
        let text = format!("{}", print_recon_compact(&t));
        let back = WithMapAttr::try_from_value(&v).map_err(|e| format!("{}", e));
        let direct = parse_recognize::<WithMapAttr>(text.as_str(), false).map_err(|e| format!("{}", e));
        println!("{} entries: text {:?} direct {:?} via model {:?}", n, text, direct.is_ok(), back.is_ok());
        assert_eq!(back, Ok(t.clone()), "{} entries through the model", n);
        assert_eq!(direct, Ok(t), "{} entries direct", n);
    }
}

#[test]
fn vec_attr_through_the_model() {
    for n in 0..4 {
        let t = WithVecAttr { v: (0..n).collect(), x: 1 };
        let v: Value = t.as_value();
        assert_eq!(WithVecAttr::try_from_value(&v).map_err(|e| format!("{}", e)), Ok(t.clone()));
    }
}
