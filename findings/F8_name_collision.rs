use bytes::BytesMut;
use swimos_api::persistence::{NodePersistence, PlanePersistence, ServerPersistence};
use swimos_rocks_store::{default_db_opts, open_rocks_store};

#[test]
fn f8_items_of_different_agents_do_not_share_storage() {
    let store = open_rocks_store(None, default_db_opts()).expect("open");
    let plane = store.open_plane("plane").expect("plane");
    let mut a = futures::executor::block_on(plane.node_store("/a")).expect("node /a");
    let b = futures::executor::block_on(plane.node_store("/a/b")).expect("node /a/b");

    let id_a = a.id_for("b/c").expect("id");
    let id_b = b.id_for("c").expect("id");
    a.put_value(id_a, b"written by /a item b/c").expect("put");

    let mut buffer = BytesMut::new();
    let seen = b.get_value(id_b, &mut buffer).expect("get");
    assert_eq!(seen, None, "agent /a/b item c sees {:?}", buffer);
}
