#!/usr/bin/env python3
"""Create a mutant patch from a string replacement, without touching /repo.
  selftest/mk.py <name> <property[,property]> <expect> <repo-relative-file> <old> <new> [<file> <old> <new> ...]
"""
import difflib
import os
import sys

name, props, expect = sys.argv[1:4]
rest = sys.argv[4:]
out = []
for p in props.split(","):
    out.append("# property: %s\n" % p)
for e in expect.split("|"):
    out.append("# expect: %s\n" % e)
files = {}
BASE = os.environ.get("MK_BASE")  # a scratch copy with a behaviour-preserving refactoring applied: the mutant is refactoring + break
if BASE:
    import re as _re
    for ln in open(os.environ["MK_BASE_PATCH"]):
        m_ = _re.match(r"^\+\+\+ b/(\S+)", ln)
        if m_:
            files[m_.group(1)] = open(os.path.join(BASE, m_.group(1))).read()
for i in range(0, len(rest), 3):
    f, old, new = rest[i:i + 3]
    if f not in files:
        files[f] = open(os.path.join(BASE or "/repo", f)).read()
    if files[f].count(old) != 1:
        sys.exit("mk: %r occurs %d times in %s" % (old[:60], files[f].count(old), f))
    files[f] = files[f].replace(old, new)
for f, dst in files.items():
    src = open(os.path.join("/repo", f)).read()
    out.extend(difflib.unified_diff(src.splitlines(True), dst.splitlines(True), "a/" + f, "b/" + f))
path = os.path.join(os.path.dirname(os.path.abspath(__file__)), "mutants", name + ".diff")
open(path, "w").write("".join(out))
print(path)
