#!/usr/bin/env python3
"""Mutant self-test: apply each patch in selftest/mutants to a scratch copy of /repo (outside
/repo and /verif), run the property's check against the copy and assert that the expected rule
instance is reported (and, for `expect: silent` patches, that nothing is).

  selftest/run.py [name-substring ...]     run matching mutants (default: all)

Patch header lines (before the diff):
  # property: C12
  # expect: C12/C12.R1/read            substring of a violation key that must be reported
  # expect: silent                      behaviour-preserving refactor: no violation allowed
"""
import json
import os
import shutil
import subprocess
import sys
import tempfile

VERIF = os.path.dirname(os.path.dirname(os.path.abspath(__file__)))
REPO = "/repo"
SCRATCH_ROOT = os.environ.get("SWIMVERIFY_SCRATCH", "/var/tmp/swimverify")


def sync_scratch():
    # one scratch copy per process: two runs must never share (and overwrite) a tree while facts are being extracted from it
    dst = os.path.join(SCRATCH_ROOT, "repo-%d" % os.getpid())
    os.makedirs(dst, exist_ok=True)
    subprocess.check_call(["rsync", "-a", "--delete", "--exclude", "/target", "--exclude", "/.git", REPO + "/", dst + "/"])
    return dst


def parse(path):
    props, expects = [], []
    for l in open(path):
        if l.startswith("# property:"):
            props.append(l.split(":", 1)[1].strip())
        elif l.startswith("# expect:"):
            expects.append(l.split(":", 1)[1].strip())
        elif l.startswith("diff ") or l.startswith("--- "):
            break
    return props, expects


def run_one(path, scratch, tier="quick", only_prop=None, expects=None, baseline=()):
    props, expects0 = parse(path)
    if expects is None:
        expects = expects0
    if only_prop is not None:
        props = [only_prop]
        # a patch that several packs must catch lists one expectation per pack: keep those of the pack being replayed
        mine = [e for e in expects if e == "silent" or e.startswith(only_prop + ".")]
        if mine:
            expects = mine
    r = subprocess.run(["git", "apply", "--unsafe-paths", "--directory", scratch, path], cwd="/", capture_output=True, text=True)
    if r.returncode != 0:
        r = subprocess.run(["patch", "-p1", "-s", "-d", scratch, "-i", path], capture_output=True, text=True)
        if r.returncode != 0:
            # `patch` may have applied some hunks: put the scratch copy back before the next patch is tried
            subprocess.run(["rsync", "-a", "--delete", "--exclude", "/target", "--exclude", "/.git", REPO + "/", scratch + "/"])
            return "skipped", "patch does not apply: " + (r.stderr or r.stdout)[-300:]
    try:
        evd = tempfile.mkdtemp(prefix="ev", dir=SCRATCH_ROOT)
        env = dict(os.environ, SWIMVERIFY_REPO=scratch, SWIMVERIFY_EVIDENCE_DIR=evd, SWIMVERIFY_NO_REPLAY="1")
        results = []
        oks = []
        for prop in props:
            p = subprocess.run([os.path.join(VERIF, "swimverify"), "check", prop, "--tier", tier, "-v"], env=env, capture_output=True, text=True, cwd=VERIF)
            viol = [l.strip() for l in p.stdout.splitlines() if l.strip().startswith("[violation]")]
            # reports that the unmodified tree already has (known findings, or a defect under investigation) are not the mutant's
            viol = [v for v in viol if v.split()[1] not in baseline]
            oks.extend(l.strip() for l in p.stdout.splitlines() if l.strip().startswith("[ok]"))
            results.append((prop, p.returncode, viol, p.stdout[-1500:] + p.stderr[-1500:]))
        shutil.rmtree(evd, ignore_errors=True)
        allviol = [v for _, _, vs, _ in results for v in vs]
        if any(rc not in (0, 1) for _, rc, _, _ in results):
            return "broken", results[0][3]
        # `expect: ok:<instance>`: a repaired twin - nothing may be reported and the named instance must be evaluated and hold (not merely be suppressed as known)
        want_ok = [e[3:] for e in expects if e.startswith("ok:")]
        if want_ok:
            miss = [w for w in want_ok if not any(w in o for o in oks)]
            if allviol or miss:
                return "FALSE-ALARM", "\n".join(allviol[:5]) + (" not evaluated as holding: %s" % miss if miss else "")
            return "ok", "silent and %s hold(s)" % want_ok
        if expects == ["silent"]:
            return ("ok", "silent as expected") if not allviol else ("FALSE-ALARM", "\n".join(allviol[:5]))
        missing = [e for e in expects if not any(e in v for v in allviol)]
        if missing:
            return "MISSED", "expected %s; reported: %s" % (missing, allviol[:6] or "nothing")
        return "ok", "detected: " + "; ".join(v[:160] for v in allviol[:3])
    finally:
        subprocess.run(["rsync", "-a", "--delete", "--exclude", "/target", "--exclude", "/.git", REPO + "/", scratch + "/"])


def main():
    sel = [a for a in sys.argv[1:] if not a.startswith("--")]
    tier = "thorough" if "--thorough" in sys.argv else "quick"
    mdir = os.path.join(VERIF, "selftest", "mutants")
    files = sorted(f for f in os.listdir(mdir) if f.endswith(".diff"))
    if sel:
        files = [f for f in files if any(s in f for s in sel)]
    scratch = sync_scratch()
    summary = {"applied": 0, "detected": 0, "skipped": 0, "failed": []}
    for f in files:
        st, msg = run_one(os.path.join(mdir, f), scratch, tier)
        print("%-12s %s  %s" % (st, f, msg[:300]))
        if st == "skipped":
            summary["skipped"] += 1
        else:
            summary["applied"] += 1
            if st == "ok":
                summary["detected"] += 1
            else:
                summary["failed"].append(f)
    if "--keep" not in sys.argv:
        shutil.rmtree(scratch, ignore_errors=True)
    print(json.dumps(summary))
    return 0 if not summary["failed"] else 1


if __name__ == "__main__":
    sys.exit(main())
