"""Fact extraction: run the swimlint driver over /repo's current working tree.

Freshness: cargo replays cached output and skips RUSTC_WORKSPACE_WRAPPER for fresh units, so a
warm target directory yields no facts. We key facts by a digest of the sources; on a miss we
delete the workspace members' fingerprints (third-party deps stay warm) and re-run the driver.
"""
import hashlib
import json
import os
import shutil
import subprocess
import sys
import time

VERIF = os.path.dirname(os.path.dirname(os.path.abspath(__file__)))
REPO = os.environ.get("SWIMVERIFY_REPO", "/repo")
CACHE = os.environ.get("SWIMVERIFY_CACHE", os.path.join(VERIF, ".cache"))
DRIVER = os.path.join(VERIF, "engine", "swimlint", "target", "release", "swimlint")

# configuration name -> (cargo args, crates expected)
ANCHOR_CRATES = [
    "swimos_byte_channel", "swimos_model", "swimos_recon", "swimos_form", "swimos_msgpack",
    "swimos_agent_protocol", "swimos_api", "swimos_messages", "swimos_encoding",
    "swimos_multi_reader", "swimos_route", "swimos_runtime", "swimos_agent", "swimos_remote",
    "swimos_downlink", "swimos_rocks_store", "swimos_server_app", "swimos_introspection",
    "swimos_client_api", "swimos_meta", "swimos_utilities", "swimos_trigger", "swimos_future",
]

CONFIGS = {
    "default": {
        "args": ["-p", "swimos_runtime", "-p", "swimos_agent", "-p", "swimos_remote",
                 "-p", "swimos_downlink", "-p", "swimos_rocks_store", "-p", "swimos_server_app",
                 "-p", "swimos_introspection", "-p", "swimos_msgpack", "-p", "swimos_route",
                 "-p", "swimos_multi_reader", "-p", "swimos_byte_channel", "-p", "swimos_encoding"],
        "expect": ["swimos_byte_channel", "swimos_model", "swimos_recon", "swimos_form",
                   "swimos_msgpack", "swimos_agent_protocol", "swimos_api", "swimos_messages",
                   "swimos_encoding", "swimos_multi_reader", "swimos_route", "swimos_runtime",
                   "swimos_agent", "swimos_remote", "swimos_downlink", "swimos_rocks_store",
                   "swimos_server_app", "swimos_introspection"],
    },
    "nocoop": {
        "args": ["-p", "swimos_byte_channel", "--no-default-features"],
        "expect": ["swimos_byte_channel"],
        "only": ["swimos_byte_channel"],
    },
}


def sysroot():
    return subprocess.check_output(["rustc", "+nightly", "--print", "sysroot"], text=True).strip()


def source_digest(repo=None):
    repo = repo or REPO
    h = hashlib.sha256()
    files = []
    for root, dirs, fs in os.walk(repo):
        dirs[:] = [d for d in dirs if d not in ("target", ".git", "node_modules")]
        for f in fs:
            if f.endswith(".rs") or f in ("Cargo.toml", "Cargo.lock", "build.rs"):
                files.append(os.path.join(root, f))
    files.sort()
    for f in files:
        h.update(os.path.relpath(f, repo).encode())
        h.update(b"\0")
        try:
            with open(f, "rb") as fh:
                h.update(hashlib.sha256(fh.read()).digest())
        except OSError:
            h.update(b"?")
    # the driver itself is part of the key
    try:
        with open(DRIVER, "rb") as fh:
            h.update(hashlib.sha256(fh.read()).digest())
    except OSError:
        h.update(b"nodriver")
    return h.hexdigest()[:24]


def facts_dir(config="default", repo=None, digest=None):
    digest = digest or source_digest(repo)
    return os.path.join(CACHE, "facts", digest, config)


def _complete(d, expect):
    man = os.path.join(d, "MANIFEST.json")
    if not os.path.isfile(man):
        return False
    for c in expect:
        if not os.path.isfile(os.path.join(d, c + ".index.json")):
            return False
        if not os.path.isfile(os.path.join(d, c + ".bodies.jsonl")):
            return False
    return True


def _workspace_members(repo):
    out = subprocess.check_output(
        ["cargo", "+nightly", "metadata", "--offline", "--no-deps", "--format-version", "1"],
        cwd=repo, text=True, env=dict(os.environ, CARGO_NET_OFFLINE="true"))
    md = json.loads(out)
    return sorted({p["name"].replace("-", "_") for p in md["packages"]})


def _clear_member_fingerprints(target, members):
    fp = os.path.join(target, "debug", ".fingerprint")
    if not os.path.isdir(fp):
        return
    names = set(members) | {m.replace("_", "-") for m in members}
    for e in os.listdir(fp):
        base = e.rsplit("-", 1)[0]
        if base in names:
            shutil.rmtree(os.path.join(fp, e), ignore_errors=True)


def ensure_driver():
    if os.path.isfile(DRIVER):
        src = os.path.join(VERIF, "engine", "swimlint", "src")
        newest = max(os.path.getmtime(os.path.join(src, f)) for f in os.listdir(src))
        if os.path.getmtime(DRIVER) >= newest:
            return
    env = dict(os.environ, CARGO_NET_OFFLINE="true")
    subprocess.check_call(["cargo", "+nightly", "build", "--release", "--offline"],
                          cwd=os.path.join(VERIF, "engine", "swimlint"), env=env)


def extract(config="default", repo=None, target=None, quiet=False):
    """Return the directory holding the facts of `config` for the current tree of `repo`."""
    repo = repo or REPO
    cfg = CONFIGS[config]
    ensure_driver()
    digest = source_digest(repo)
    out = facts_dir(config, repo, digest)
    if _complete(out, cfg["expect"]):
        try:
            os.utime(os.path.dirname(out))
        except OSError:
            pass
        return out
    lock = os.path.join(CACHE, "extract.lock")
    os.makedirs(CACHE, exist_ok=True)
    import fcntl
    with open(lock, "w") as lk:
        fcntl.flock(lk, fcntl.LOCK_EX)
        if _complete(out, cfg["expect"]):
            return out
        t0 = time.time()
        if os.path.isdir(out):
            shutil.rmtree(out)
        os.makedirs(out)
        target = target or os.path.join(CACHE, "target-" + config)
        members = _workspace_members(repo)
        _clear_member_fingerprints(target, members)
        env = dict(os.environ)
        env.update({
            "LD_LIBRARY_PATH": sysroot() + "/lib",
            "RUSTFLAGS": "-Zmir-opt-level=0 -Awarnings",
            "RUSTC_WORKSPACE_WRAPPER": DRIVER,
            "CARGO_TARGET_DIR": target,
            "SWIMLINT_OUT": out,
            "ROCKSDB_LIB_DIR": "/nonexistent",
            "CARGO_NET_OFFLINE": "true",
            "CARGO_INCREMENTAL": "0",
        })
        if "only" in cfg:
            env["SWIMLINT_CRATES"] = ",".join(cfg["only"])
        cmd = ["cargo", "+nightly", "check", "--offline"] + cfg["args"]
        p = subprocess.run(cmd, cwd=repo, env=env, stdout=subprocess.PIPE, stderr=subprocess.STDOUT, text=True)
        if p.returncode != 0:
            sys.stderr.write(p.stdout[-6000:])
            sys.stderr.write("swimverify: fact extraction failed (cargo check exit %d): the tree does not build\n" % p.returncode)
            raise SystemExit(2)
        if source_digest(repo) != digest:
            # the tree was modified while it was being compiled: the facts belong to no definite tree
            shutil.rmtree(out, ignore_errors=True)
            sys.stderr.write("swimverify: %s changed while its facts were being extracted; nothing was cached, run again\n" % repo)
            raise SystemExit(2)
        missing = [c for c in cfg["expect"] if not os.path.isfile(os.path.join(out, c + ".index.json"))]
        if missing:
            sys.stderr.write(p.stdout[-3000:])
            raise SystemExit("swimverify: BROKEN: no facts produced for %s (driver skipped?)" % missing)
        with open(os.path.join(out, "MANIFEST.json"), "w") as f:
            json.dump({"digest": digest, "config": config, "crates": sorted(
                x[:-len(".index.json")] for x in os.listdir(out) if x.endswith(".index.json")),
                "wall_s": round(time.time() - t0, 1)}, f)
        if not quiet:
            sys.stderr.write("swimverify: extracted facts [%s] in %.1fs -> %s\n" % (config, time.time() - t0, out))
        _gc_facts(keep=digest)
    return out


def _gc_facts(keep, max_keep=40):
    root = os.path.join(CACHE, "facts")
    ds = [d for d in os.listdir(root) if os.path.isdir(os.path.join(root, d)) and d != keep and d != "test"]
    ds.sort(key=lambda d: os.path.getmtime(os.path.join(root, d)))
    for d in ds[:-max_keep] if len(ds) > max_keep else []:
        shutil.rmtree(os.path.join(root, d), ignore_errors=True)


if __name__ == "__main__":
    cfg = sys.argv[1] if len(sys.argv) > 1 else "default"
    print(extract(cfg))
