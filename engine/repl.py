"""Helper for interactive exploration: from repl import *; ag = crate('swimos_agent')"""
import sys, os
sys.path.insert(0, os.path.dirname(os.path.abspath(__file__)))
from mirlib import *
from mirlib import _suffix_match
import extract as _ex
_F = {}
def crate(name, config="default"):
    if config not in _F:
        _F[config] = Facts(_ex.facts_dir(config))
    return _F[config].crate(name)
