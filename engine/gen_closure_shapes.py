#!/usr/bin/env python3
"""Freeze a shape for every closure the facts cover: engine/closure_shapes.json maps crate -> closure defpath -> shape (arity and the names it calls).

Closures are named by their position in the enclosing function (`{closure#0}`, `{closure#1}`, ..). When one is added or removed, the names of the
others shift, so the name alone cannot say whether `{closure#0}` of the tree under analysis is the closure the rule packs were written against or a
local helper introduced since (`let mut link_lost = || {..}; .. link_lost()`). The shape says it: a closure whose shape differs from the frozen
one under the same name is read like any helper written after the freeze - where it is called directly, its body is part of the caller.

Regenerate together with known_fns.json:   python3 engine/gen_closure_shapes.py
"""
import json
import os
import sys

sys.path.insert(0, os.path.dirname(os.path.abspath(__file__)))
import extract
from mirlib import Facts, closure_shape

OUT = os.path.join(os.path.dirname(os.path.abspath(__file__)), "closure_shapes.json")


def main():
    facts = Facts(extract.extract("default", quiet=True))
    out = {}
    n = 0
    for cn in sorted(facts.crates()):
        cr = facts.crate(cn)
        ent = {}
        for b in cr.index:
            d = b["def"]
            if "{closure" in d and "promoted" not in d:
                ent[d] = closure_shape(cr._raw(d))
                n += 1
        if ent:
            out[cn] = ent
    with open(OUT, "w") as f:
        json.dump(out, f, indent=0, sort_keys=True)
        f.write("\n")
    print("closure_shapes: %d closures" % n)


if __name__ == "__main__":
    main()
