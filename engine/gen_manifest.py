#!/usr/bin/env python3
"""Regenerates /verif/MANIFEST.json from the rule packs present and the tables below."""
import importlib
import json
import os
import sys

VERIF = os.path.dirname(os.path.dirname(os.path.abspath(__file__)))
sys.path.insert(0, os.path.join(VERIF, "engine"))

BASELINE_CMD = ("cd /repo && cargo nextest run --workspace --no-fail-fast --test-threads 8 --offline "
                "|| cargo test --workspace --no-fail-fast --offline")

NOT_APPLICABLE = {}

PENDING_REASON = "rule pack not yet armed in this revision of /verif (static analysis planned, see DESIGN.md section 4); not claimed until it runs"

ALL = ["C%02d" % i for i in range(1, 21)]


def main():
    checks = []
    claimed = []
    for pid in ALL:
        path = os.path.join(VERIF, "engine", "rules", pid + ".py")
        if not os.path.isfile(path) or pid in NOT_APPLICABLE:
            continue
        mod = importlib.import_module("rules." + pid)
        meta = getattr(mod, "META", {})
        claimed.append(pid)
        checks.append({
            "property_id": pid,
            "quick_cmd": "./swimverify check %s --tier quick" % pid,
            "thorough_cmd": "./swimverify check %s --tier thorough" % pid,
            "evidence_file": "/verif/evidence/%s.json" % pid,
            "replay_cmd_template": "./swimverify explain {path}",
            "engine": "swimlint+mirlib",
            "level_claimed": {
                "category": "other",
                "text": meta.get("level_text", meta.get("explanation", "")),
                "design_ref": "DESIGN.md section 4 (" + pid + ") as amended by section 9.4; rule list in RULES.md",
            },
            "level_note": "Trusted base: rustc's MIR construction and callee resolution on the nightly toolchain; unwind edges are ignored; "
                          "allow-list reasons are correct. Decides the structural clauses named in the text, not the behavioural quantifier: "
                          + meta.get("does_not_decide", ""),
            "technique": meta.get("technique", "static analysis: custom MIR rules (dominance / must-pass-through / who-may-call / table agreement) over rustc's type-checked program"),
        })
    na = []
    for pid in ALL:
        if pid in NOT_APPLICABLE:
            na.append({"property_id": pid, "reason": NOT_APPLICABLE[pid]})
        elif pid not in claimed:
            na.append({"property_id": pid, "reason": PENDING_REASON})
    man = {
        "version": 1,
        "setup_cmd": "./swimverify setup",
        "hooks": {
            "guard": "swimos_swim_rust_verif",
            "enable": "none needed: the rustc_private driver reads private items directly; no instrumentation commit exists in /repo",
            "baseline_off_cmd": BASELINE_CMD,
            "source_commits": [],
            "add_only": True,
        },
        "engines": [{
            "name": "swimlint+mirlib",
            "path": "/verif/engine",
            "serves_properties": claimed,
            "kind_free_text": "rustc_private driver dumping pre-borrowck MIR with resolved callees as JSON facts; Python rule packs (CFG, dominators, "
                              "post-dominators, control dependence, backward slices, decision tables) decide per-property structural rules",
        }],
        "checks": checks,
        "not_applicable": na,
        "notes": "All checks are static: they re-extract MIR facts from /repo's current working tree (cached by source digest) and never run swim-rust code. "
                 "known_findings.json lists triaged genuine defects (reported as KNOWN-FINDING lines, exit 0).",
    }
    with open(os.path.join(VERIF, "MANIFEST.json"), "w") as f:
        json.dump(man, f, indent=1)
    print("MANIFEST.json: %d checks, %d not_applicable" % (len(checks), len(na)))


if __name__ == "__main__":
    main()
