"""mirlib: analyses over the MIR facts emitted by swimlint (Python 3 stdlib only).

Vocabulary
  place    = [local, [proj...]]      proj: "*" | ["f", idx, field, adt, (variant)] | ["d", Variant, idx] | ...
  operand  = ["c"|"m", place] | ["k", const]
  position = (block index, statement index)   statement index == len(stmts) means the terminator
"""
import json
import os
import re
from collections import defaultdict, deque


class AnchorMissing(Exception):
    """An anchor (function, type, construct) the rule guards cannot be found any more."""


# ------------------------------------------------------------------------------------------
# loading


class Facts:
    def __init__(self, directory):
        self.dir = directory
        self._crates = {}

    def crate(self, name):
        if name not in self._crates:
            p = os.path.join(self.dir, name + ".index.json")
            if not os.path.isfile(p):
                raise AnchorMissing("no facts for crate %s in %s" % (name, self.dir))
            self._crates[name] = Crate(self, name)
        return self._crates[name]

    def crates(self):
        return sorted(f[:-len(".index.json")] for f in os.listdir(self.dir) if f.endswith(".index.json"))


_KNOWN_FNS = None


def _known_fns():
    """Functions that existed when the rule packs were written (engine/known_fns.json, frozen by engine/gen_param_table.py). A crate-local function that
    is NOT in this list is a helper introduced later: it is analysed as part of its callers (inlined), so that extracting a block into a private
    function - which changes no behaviour - does not hide that block from the rules written against the calling function."""
    global _KNOWN_FNS
    if _KNOWN_FNS is None:
        p = os.path.join(os.path.dirname(os.path.dirname(os.path.abspath(__file__))), "known_fns.json")
        try:
            with open(p) as f:
                _KNOWN_FNS = {k: set(v) for k, v in json.load(f).items()}
        except OSError:
            _KNOWN_FNS = {}
        if os.environ.get("SWIMVERIFY_NO_INLINE") == "1":
            _KNOWN_FNS = {}
    return _KNOWN_FNS


def _rm_proj(x, lo):
    if isinstance(x, list) and x and x[0] in ("i",) and len(x) > 1 and isinstance(x[1], int):
        return [x[0], x[1] + lo] + x[2:]
    return x


def _rm_place(pl, lo):
    return [pl[0] + lo, [_rm_proj(x, lo) for x in pl[1]]]


_RM_CTX = {"owner": None}


def _rm_op(op, lo):
    if isinstance(op, list) and op and op[0] in ("m", "c"):
        return [op[0], _rm_place(op[1], lo)]
    if isinstance(op, list) and len(op) == 2 and op[0] == "k" and isinstance(op[1], dict) and "promoted" in op[1] and "promoted_of" not in op[1] and _RM_CTX["owner"]:
        # a promoted constant of the spliced function: remember whose it is
        return ["k", dict(op[1], promoted_of=_RM_CTX["owner"])]
    return op


def _rm_rvalue(rv, lo):
    k = rv[0]
    if k == "use":
        return ["use", _rm_op(rv[1], lo)]
    if k == "ref":
        return ["ref", rv[1], _rm_place(rv[2], lo)] + rv[3:]
    if k == "agg":
        return ["agg", rv[1], [_rm_op(o, lo) for o in rv[2]]] + rv[3:]
    if k == "cast":
        return ["cast", rv[1], _rm_op(rv[2], lo)] + rv[3:]
    if k == "disc":
        return ["disc", _rm_place(rv[1], lo)] + rv[2:]
    if k == "bin":
        return ["bin", rv[1], _rm_op(rv[2], lo), _rm_op(rv[3], lo)] + rv[4:]
    if k == "un":
        return ["un", rv[1], _rm_op(rv[2], lo)] + rv[3:]
    out = []
    for x in rv:
        out.append(_rm_op(x, lo) if isinstance(x, list) and x and x[0] in ("m", "c") else x)
    return out


def _rm_block(bl, lo, bo, ret_to):
    """copy of a callee block with locals shifted by lo and block indexes by bo; `ret` becomes a jump to ret_to"""
    nb = {k: v for k, v in bl.items() if k not in ("s", "t")}
    nb["s"] = [[st[0], _rm_place(st[1], lo), _rm_rvalue(st[2], lo)] + st[3:] if st[0] == "A" else st for st in bl["s"]]
    t = dict(bl["t"])
    k = t["k"]
    for key in ("t", "u", "drop"):
        if isinstance(t.get(key), int):
            t[key] = t[key] + bo
    if k == "call":
        t["args"] = [_rm_op(a, lo) for a in t.get("args", [])]
        if t.get("dest") is not None:
            t["dest"] = _rm_place(t["dest"], lo)
        if t.get("func") is not None and isinstance(t["func"], list):
            t["func"] = _rm_op(t["func"], lo)
    elif k == "switch":
        t["discr"] = _rm_op(t["discr"], lo)
        t["arms"] = [[a[0], a[1] + bo] for a in t["arms"]]
        if isinstance(t.get("otherwise"), int):
            t["otherwise"] = t["otherwise"] + bo
    elif k == "drop":
        t["place"] = _rm_place(t["place"], lo)
    elif k == "assert":
        t["cond"] = _rm_op(t["cond"], lo)
    elif k == "yield":
        # (an inlined coroutine body is read as if it never suspended)
        t = {"line": t.get("line"), "k": "goto", "t": t["t"]}
    elif k == "ret":
        t = {"line": t.get("line"), "k": "goto", "t": ret_to} if ret_to is not None else {"line": t.get("line"), "k": "unreachable"}
    nb["t"] = t
    return nb


def _awaited_new_coroutine(crate, known, blocks, op):
    """The poll receiver `op` of a `.await`: follow it back (Pin::new_unchecked(&mut into_future(x))) to a coroutine aggregate of an async helper that
    was introduced after the freeze. Returns (coroutine defpath, local holding the aggregate) or None."""
    if not (isinstance(op, list) and op and op[0] in ("m", "c")) or op[1][1]:
        return None
    loc = op[1][0]
    for _ in range(10):
        found = None
        for bl in blocks:
            if bl.get("cleanup"):
                continue
            for st in bl["s"]:
                if st[0] == "A" and st[1] == [loc, []]:
                    found = ("A", st[2])
            t = bl["t"]
            if t.get("k") == "call" and t.get("dest") == [loc, []]:
                found = ("C", t)
        if found is None:
            return None
        if found[0] == "A":
            rv = found[1]
            if rv[0] == "agg" and isinstance(rv[1], dict) and rv[1].get("coroutine"):
                d = rv[1]["coroutine"]
                m = re.match(r"^(.*)::\{closure#0\}$", d)
                if m and m.group(1) in crate.by_def and m.group(1) not in known and d in crate.by_def:
                    return d, loc
                return None
            if rv[0] == "use" and rv[1][0] in ("m", "c") and not rv[1][1][1]:
                loc = rv[1][1][0]
                continue
            if rv[0] == "ref" and not [x for x in rv[2][1] if x != "*"]:
                loc = rv[2][0]
                continue
            return None
        t = found[1]
        nm = (t.get("callee") or {}).get("name")
        if nm in ("new_unchecked", "into_future", "as_mut", "get_mut", "new") and t.get("args"):
            a = t["args"][0]
            if a[0] in ("m", "c") and not a[1][1]:
                loc = a[1][0]
                continue
        return None
    return None


def _callback_origin(blocks, op, hops=6):
    """what a called value is, when the blocks at hand say so: ("closure", def) for a closure built in them, ("fn", callee) for a function named in
    them; followed through single plain copies"""
    while hops > 0:
        hops -= 1
        if isinstance(op, list) and len(op) == 2 and op[0] == "k" and isinstance(op[1], dict) and isinstance(op[1].get("fn"), dict):
            return ("fn", op[1]["fn"])
        if not (isinstance(op, list) and op and op[0] in ("m", "c")) or op[1][1]:
            return None
        loc = op[1][0]
        defs = [st for bl in blocks for st in bl.get("s", ()) if st[0] == "A" and st[1][0] == loc and not st[1][1]]
        if len(defs) != 1:
            return None
        rv = defs[0][2]
        if rv[0] == "agg" and isinstance(rv[1], dict) and rv[1].get("closure"):
            return ("closure", rv[1]["closure"])
        if rv[0] == "use":
            op = rv[1]
            continue
        if rv[0] == "ref" and not rv[2][1]:
            op = ["c", rv[2]]
            continue
        return None
    return None


def closure_shape(raw):
    """arity and the names a closure calls, as recorded by engine/gen_closure_shapes.py"""
    names = []
    for bl in raw["blocks"]:
        t = bl.get("t") or {}
        if t.get("k") == "call" and not bl.get("cleanup"):
            cal = t.get("callee")
            names.append((cal.get("name") or "?") if isinstance(cal, dict) else "?")
    return "%d|%s" % (raw.get("argc", 0), ",".join(sorted(names)))


_CLOSURE_SHAPES = None


def _closure_is_frozen(crate, d):
    """Closures are numbered in source order: when a function has gained or lost one since the freeze, `{closure#0}` of today need not be the
    `{closure#0}` of the frozen list. A closure is the frozen one of that name only if it still has the frozen shape; otherwise it is read like a helper
    written after the freeze: called directly where it is defined (`let mut link_lost = || ..; link_lost()`), its body is part of the function."""
    global _CLOSURE_SHAPES
    if _CLOSURE_SHAPES is None:
        p = os.path.join(os.path.dirname(os.path.dirname(os.path.abspath(__file__))), "closure_shapes.json")
        try:
            _CLOSURE_SHAPES = json.load(open(p))
        except Exception:
            _CLOSURE_SHAPES = {}
    want = (_CLOSURE_SHAPES.get(crate.name) or {}).get(d)
    if want is None:
        return True   # no shape on record: the name decides, as before
    cache = crate.__dict__.setdefault("_shape_cache", {})
    if d not in cache:
        try:
            cache[d] = closure_shape(crate._raw(d)) == want
        except Exception:
            cache[d] = True
    return cache[d]


def inline_new_helpers(crate, raw, defpath, depth=3):
    """Splice the bodies of crate-local functions that are not in the frozen function list into `raw` (the MIR facts of a known function)."""
    known = _known_fns().get(crate.name)
    # (a closure written after the freeze inside a known function is part of that function)
    if not known or (defpath not in known and defpath.split("::{closure")[0] not in known) or depth <= 0:
        return raw, []
    inlined = []
    out = None
    i = 0
    budget = 40
    while True:
        blocks = (out or raw)["blocks"]
        if i >= len(blocks):
            break
        t = blocks[i]["t"]
        cal = t.get("callee") if t.get("k") == "call" else None
        d = cal.get("def") if isinstance(cal, dict) else None
        # a callback that arrived as a parameter of a spliced helper (`with_uplink(.., |uplink| ..)`, `with_uplink(.., mark_synced)`): once the helper
        # is part of its caller the value called is in sight - a closure built here, or a function named here - and the call can be resolved
        forced = False   # (closures are numbered in source order: one written before the freeze and one written after can bear the same name)
        if out is not None and isinstance(cal, dict) and not cal.get("resolved") and cal.get("name") in ("call", "call_mut", "call_once") and len(t.get("args", [])) == 2 \
                and budget > 0 and not blocks[i].get("cleanup"):
            org = _callback_origin(blocks, t["args"][0])
            if org is not None and org[0] == "closure" and org[1] in crate.by_def:
                cal = dict(cal, **{"def": org[1], "via": {"name": cal.get("name")}, "resolved": True, "local": True})
                d = org[1]
                forced = True
            elif org is not None and org[0] == "fn" and isinstance(org[1], dict) and org[1].get("def") in crate.by_def:
                tup = t["args"][1]
                tp = tup[1] if isinstance(tup, list) and tup and tup[0] in ("m", "c") else None
                try:
                    n_args = crate._raw(org[1]["def"])["argc"]
                except Exception:
                    n_args = None
                if tp is not None and n_args is not None:
                    nt = dict(t)
                    nt["callee"] = dict(org[1])
                    nt["args"] = [["m", [tp[0], list(tp[1]) + [["f", k, str(k)]]]] for k in range(n_args)]
                    nb = dict(blocks[i])
                    nb["t"] = nt
                    blocks[i] = nb
                    t = nt
                    cal = nt["callee"]
                    d = cal.get("def")
        if d and d in crate.by_def and d not in known and d != defpath and "{closure" not in d and budget > 0 and inlined.count(d) < 8 and not blocks[i].get("cleanup"):
            try:
                craw = crate._raw(d)
            except Exception:
                craw = None
            if craw is not None and len(craw["blocks"]) <= 400 and len(t.get("args", [])) == craw["argc"]:
                if out is None:
                    out = {"def": raw.get("def"), "argc": raw["argc"], "locals": list(raw["locals"]), "vars": [list(v) if isinstance(v, list) else v for v in raw["vars"]], "blocks": [dict(b) for b in raw["blocks"]]}
                    blocks = out["blocks"]
                budget -= 1
                lo = len(out["locals"])
                out["locals"].extend(craw["locals"])
                for nm, pl in craw["vars"]:
                    out["vars"].append([nm + "'" if False else nm, _rm_place(pl, lo)])
                bo = len(blocks) + 2
                line = t.get("line")
                dest = t.get("dest")
                ret_blk = len(blocks) + 1
                entry_blk = len(blocks)
                # entry: bind the parameters
                blocks.append({"s": [["A", [lo + k + 1, []], ["use", a], line] for k, a in enumerate(t.get("args", []))], "t": {"line": line, "k": "goto", "t": bo}})
                # return: hand the result to the call's destination and continue where the call continued
                cont = t.get("t")
                blocks.append({"s": ([["A", dest, ["use", ["m", [lo, []]]], line]] if dest is not None else []),
                               "t": ({"line": line, "k": "goto", "t": cont} if isinstance(cont, int) else {"line": line, "k": "unreachable"})})
                _RM_CTX["owner"] = d
                for bl in craw["blocks"]:
                    blocks.append(_rm_block(bl, lo, bo, ret_blk))
                _RM_CTX["owner"] = None
                nb = dict(blocks[i])
                nb["t"] = {"line": line, "k": "goto", "t": entry_blk}
                blocks[i] = nb
                inlined.append(d)
        elif d and "{closure" in d and d in crate.by_def and (d not in known or forced or not _closure_is_frozen(crate, d)) and d != defpath and (cal.get("via") or {}).get("name") in ("call", "call_mut", "call_once") \
                and budget > 0 and len(t.get("args", [])) == 2 and inlined.count(d) < 8 and not blocks[i].get("cleanup") and not (crate.by_def[d].get("coroutine") or crate.by_def[d].get("kind") == "SyntheticCoroutineBody"):
            # a local closure written after the freeze and called directly (`let is_unanimous = |ordering| ..; if is_unanimous(Relaxed) ..`): its body
            # runs here; the arguments arrive as one tuple
            try:
                craw = crate._raw(d)
            except Exception:
                craw = None
            tup = t["args"][1]
            tp = tup[1] if isinstance(tup, list) and tup and tup[0] in ("m", "c") else None
            if craw is not None and len(craw["blocks"]) <= 300 and (tp is not None or craw["argc"] == 1):
                if out is None:
                    out = {"def": raw.get("def"), "argc": raw["argc"], "locals": list(raw["locals"]), "vars": [list(v) if isinstance(v, list) else v for v in raw["vars"]], "blocks": [dict(b) for b in raw["blocks"]]}
                    blocks = out["blocks"]
                budget -= 1
                lo = len(out["locals"])
                out["locals"].extend(craw["locals"])
                for nm, pl in craw["vars"]:
                    out["vars"].append([nm, _rm_place(pl, lo)])
                bo = len(blocks) + 2
                line = t.get("line")
                dest = t.get("dest")
                entry_blk, ret_blk = len(blocks), len(blocks) + 1
                binds = [["A", [lo + 1, []], ["use", t["args"][0]], line]]
                for k in range(craw["argc"] - 1):
                    binds.append(["A", [lo + 2 + k, []], ["use", ["m", [tp[0], list(tp[1]) + [["f", k, str(k)]]]]], line])
                blocks.append({"s": binds, "t": {"line": line, "k": "goto", "t": bo}})
                cont = t.get("t")
                blocks.append({"s": ([["A", dest, ["use", ["m", [lo, []]]], line]] if dest is not None else []),
                               "t": ({"line": line, "k": "goto", "t": cont} if isinstance(cont, int) else {"line": line, "k": "unreachable"})})
                _RM_CTX["owner"] = d
                for bl in craw["blocks"]:
                    blocks.append(_rm_block(bl, lo, bo, ret_blk))
                _RM_CTX["owner"] = None
                nb = dict(blocks[i])
                nb["t"] = {"line": line, "k": "goto", "t": entry_blk}
                blocks[i] = nb
                inlined.append(d)
        elif isinstance(cal, dict) and (cal.get("name") == "poll" or (cal.get("via") or {}).get("name") == "poll") and budget > 0 and len(t.get("args", [])) == 2 \
                and not blocks[i].get("cleanup"):
            # `helper(..).await` where helper is an async fn extracted after the freeze: the body of its future runs here
            hit = _awaited_new_coroutine(crate, known, blocks, t["args"][0])
            if hit is None and d and re.match(r"^(.*)::\{closure#0\}$", d) and d in crate.by_def and d[:-len("::{closure#0}")] in crate.by_def and d[:-len("::{closure#0}")] not in known:
                hit = (d, None)
            if hit is not None and out is None:
                out = {"def": raw.get("def"), "argc": raw["argc"], "locals": list(raw["locals"]), "vars": [list(v) if isinstance(v, list) else v for v in raw["vars"]], "blocks": [dict(b) for b in raw["blocks"]]}
                blocks = out["blocks"]
            if hit is not None and inlined.count(hit[0]) < 4:
                try:
                    craw = crate._raw(hit[0])
                except Exception:
                    craw = None
                if craw is not None and len(craw["blocks"]) <= 600 and craw["argc"] == 2:
                    budget -= 1
                    lo = len(out["locals"])
                    out["locals"].extend(craw["locals"])
                    for nm_, pl_ in craw["vars"]:
                        out["vars"].append([nm_, _rm_place(pl_, lo)])
                    bo = len(blocks) + 2
                    line = t.get("line")
                    dest = t.get("dest")
                    entry_blk, ret_blk = len(blocks), len(blocks) + 1
                    self_op = ["c", [hit[1], []]] if hit[1] is not None else t["args"][0]
                    blocks.append({"s": [["A", [lo + 1, []], ["use", self_op], line], ["A", [lo + 2, []], ["use", t["args"][1]], line]], "t": {"line": line, "k": "goto", "t": bo}})
                    cont = t.get("t")
                    ready = ["agg", {"adt": "core::task::poll::Poll", "variant": "Ready", "vidx": 0, "fields": ["0"]}, [["m", [lo, []]]]]
                    blocks.append({"s": ([["A", dest, ready, line]] if dest is not None else []),
                                   "t": ({"line": line, "k": "goto", "t": cont} if isinstance(cont, int) else {"line": line, "k": "unreachable"})})
                    _RM_CTX["owner"] = hit[0]
                    for bl in craw["blocks"]:
                        blocks.append(_rm_block(bl, lo, bo, ret_blk))
                    _RM_CTX["owner"] = None
                    nb = dict(blocks[i])
                    nb["t"] = {"line": line, "k": "goto", "t": entry_blk}
                    blocks[i] = nb
                    inlined.append(hit[0])
        i += 1
    return (out or raw), inlined



class Crate:
    def __init__(self, facts, name):
        self.facts = facts
        self.name = name
        with open(os.path.join(facts.dir, name + ".index.json")) as f:
            d = json.load(f)
        self.index = d["bodies"]
        self.adts = {a["path"]: a for a in d["adts"]}
        self.impls = d["impls"]
        self.consts = {c["path"]: c for c in d["consts"]}
        self.by_def = {}
        for b in self.index:
            self.by_def.setdefault(b["def"], b)
        self._bodies = {}
        self._fh = None
        self._callers = None

    # -- lookup --------------------------------------------------------------------------
    def entries(self, name=None, self_adt=None, trait=None, suffix=None, contains=None, kind=None,
                owner=None, regex=None, include_promoted=False):
        out = []
        for b in self.index:
            if "promoted" in b and not include_promoted:
                continue
            if name is not None and b.get("name") != name:
                continue
            if self_adt is not None and not _suffix_match(b.get("self_adt"), self_adt):
                continue
            if trait is not None and not _suffix_match(b.get("trait"), trait):
                continue
            if suffix is not None and not _suffix_match(b["def"], suffix):
                continue
            if contains is not None and contains not in b["def"]:
                continue
            if regex is not None and not re.search(regex, b["def"]):
                continue
            if kind is not None and b["kind"] != kind:
                continue
            if owner is not None and not _suffix_match(b.get("owner", {}).get("def"), owner):
                continue
            out.append(b)
        return out

    def body(self, entry_or_def):
        d = entry_or_def if isinstance(entry_or_def, str) else entry_or_def["def"]
        if d not in self._bodies:
            e = self.by_def.get(d)
            if e is None:
                raise AnchorMissing("no body %s in crate %s" % (d, self.name))
            raw = self._raw(d)
            raw2, inl = inline_new_helpers(self, raw, d)
            self._bodies[d] = Body(self, e, raw2)
            self._bodies[d].inlined_helpers = inl
            self._bodies[d].n_own_blocks = len(raw["blocks"])
        return self._bodies[d]

    def _raw(self, d):
        e = self.by_def.get(d)
        if e is None:
            raise AnchorMissing("no body %s in crate %s" % (d, self.name))
        if self._fh is None:
            self._fh = open(os.path.join(self.facts.dir, self.name + ".bodies.jsonl"), "rb")
        self._fh.seek(e["off"])
        return json.loads(self._fh.read(e["len"]))

    def transparent_helpers(self):
        """crate-local functions introduced after the freeze that are called from a known function: they are analysed inside their callers"""
        if getattr(self, "_transparent", None) is None:
            known = _known_fns().get(self.name)
            self._transparent = set()
            if known:
                new = {b["def"] for b in self.index if "promoted" not in b and b["def"] not in known and "{closure" not in b["def"]}
                if new:
                    called = set()
                    for b in self.index:
                        if "promoted" in b:
                            continue
                        for c in b.get("callees", []) or []:
                            cd = c if isinstance(c, str) else (c.get("def") if isinstance(c, dict) else None)
                            if cd in new and b["def"] != cd:
                                called.add(cd)
                    self._transparent = called
        return self._transparent

    def fn(self, **kw):
        """The unique body matching the criteria, else AnchorMissing."""
        es = self.entries(**kw)
        if len(es) != 1:
            raise AnchorMissing("expected exactly one function for %s in %s, found %d%s" % (
                kw, self.name, len(es), (": " + ", ".join(e["def"] for e in es[:5])) if es else ""))
        return self.body(es[0])

    def fns(self, **kw):
        return [self.body(e) for e in self.entries(**kw)]

    def closures_of(self, owner_def, recursive=True):
        """Closure / coroutine bodies lexically inside the given function."""
        out = []
        for b in self.index:
            if "promoted" in b:
                continue
            if b["kind"] in ("Closure", "SyntheticCoroutineBody") and b["def"].startswith(owner_def + "::{"):
                out.append(self.body(b))
        # closures (and the bodies of async helpers) that came to live in a helper extracted after the freeze still belong to this function
        if recursive and owner_def in self.by_def and self.transparent_helpers():
            try:
                seen = set()
                work = [owner_def] + [x.defpath for x in out]
                while work:
                    d = work.pop()
                    if d in seen:
                        continue
                    seen.add(d)
                    for h in getattr(self.body(d), "inlined_helpers", []) or []:
                        for b in self.index:
                            if "promoted" not in b and b["kind"] in ("Closure", "SyntheticCoroutineBody") and b["def"].startswith(h + "::{") and b["def"] not in seen:
                                bb = self.body(b)
                                if bb not in out:
                                    out.append(bb)
                                work.append(b["def"])
            except Exception:
                pass
        return out

    def adt(self, suffix):
        ms = [a for p, a in self.adts.items() if _suffix_match(p, suffix)]
        if len(ms) != 1:
            raise AnchorMissing("expected exactly one ADT %s in %s, found %d" % (suffix, self.name, len(ms)))
        return ms[0]

    def const(self, suffix):
        ms = [c for p, c in self.consts.items() if _suffix_match(p, suffix)]
        if len(ms) != 1:
            raise AnchorMissing("expected exactly one const %s in %s, found %d" % (suffix, self.name, len(ms)))
        return ms[0]

    def implements(self, adt_suffix, trait_suffix):
        for i in self.impls:
            if _suffix_match(i.get("self_adt"), adt_suffix) and _suffix_match(i.get("trait"), trait_suffix):
                return i
        return None

    # -- call graph -----------------------------------------------------------------------
    def callers_of(self, pred):
        """Index entries of bodies with a callee def satisfying pred(def string) (cheap, index only)."""
        out = []
        for b in self.index:
            if "promoted" in b:
                continue
            if any(pred(c) for c in b.get("callees", ())):
                out.append(b)
        return out

    def all_bodies(self):
        skip = self.transparent_helpers()
        for b in self.index:
            if "promoted" in b:
                continue
            if skip and (b["def"] in skip or any(b["def"].startswith(h + "::{closure") for h in skip)):
                continue
            yield self.body(b)


def _suffix_match(full, suffix):
    if full is None:
        return False
    if full == suffix:
        return True
    return full.endswith("::" + suffix)


# ------------------------------------------------------------------------------------------
# places / operands


def place_local(p):
    return p[0]


def place_fields(p):
    """Field names along the place (ignores derefs, downcasts, indexing)."""
    return [x[2] for x in p[1] if isinstance(x, list) and x[0] == "f"]


def place_field_elems(p):
    return [x for x in p[1] if isinstance(x, list) and x[0] == "f"]


def place_variants(p):
    return [x[1] for x in p[1] if isinstance(x, list) and x[0] == "d"]


def is_bare(p):
    return not p[1]


def op_place(op):
    return op[1] if op[0] in ("c", "m") else None


def op_const(op):
    return op[1] if op[0] == "k" else None


def const_value(k):
    """Python value of a constant operand description (int, bool, str, bytes) or None."""
    if k is None:
        return None
    if "b" in k:
        return k["b"]
    if "str" in k:
        return k["str"]
    if "bytes" in k:
        return bytes(k["bytes"])
    if "ch" in k:
        return k["ch"]
    if "v" in k:
        v = k["v"]
        return int(v) if isinstance(v, str) else v
    return None


def _locals_read(rv):
    """locals an rvalue reads (operands and places, any projection)"""
    out = []
    def op(o):
        if isinstance(o, list) and o and o[0] in ("c", "m") and isinstance(o[1], list):
            out.append(o[1][0])
    k = rv[0]
    if k == "use":
        op(rv[1])
    elif k in ("ref", "rawptr"):
        pl = rv[2] if k == "ref" else rv[1]
        if isinstance(pl, list) and pl and isinstance(pl[0], int):
            out.append(pl[0])
    elif k == "cast":
        op(rv[2])
    elif k == "bin":
        op(rv[2]); op(rv[3])
    elif k == "un":
        op(rv[2])
    elif k == "agg":
        for o in rv[2]:
            op(o)
    elif k == "disc":
        if isinstance(rv[1], list) and rv[1] and isinstance(rv[1][0], int):
            out.append(rv[1][0])
    elif k == "repeat":
        op(rv[1])
    else:
        for o in rv[1:]:
            op(o)
    return out


class Path:
    """Resolved access path: root local + sequence of path elements ('f', adt, field)/('d', variant)/('*')."""
    __slots__ = ("root", "elems", "via_call")

    def __init__(self, root, elems, via_call=None):
        self.root = root
        self.elems = tuple(elems)
        self.via_call = via_call

    @property
    def fields(self):
        return tuple(e[2] for e in self.elems if e[0] == "f")

    @property
    def field_pairs(self):
        return tuple((e[1], e[2]) for e in self.elems if e[0] == "f")

    @property
    def variants(self):
        return tuple(e[1] for e in self.elems if e[0] == "d")

    def has_field(self, adt_suffix, field):
        return any(e[0] == "f" and e[2] == field and _suffix_match(e[1], adt_suffix) for e in self.elems)

    def __repr__(self):
        return "Path(_%d%s)" % (self.root, "".join("." + (e[2] if e[0] == "f" else "<" + e[1] + ">") for e in self.elems if e[0] in "fd"))


# ------------------------------------------------------------------------------------------
# bodies


class Call:
    __slots__ = ("body", "block", "callee", "args", "dest", "target", "unwind", "line", "exp", "callee_op")

    def __init__(self, body, block, t):
        self.body = body
        self.block = block
        self.callee = t.get("callee") or {}
        self.callee_op = t.get("callee_op")
        self.args = t["args"]
        self.dest = t["dest"]
        self.target = t["t"]
        self.unwind = t["u"]
        self.line = t["line"]
        self.exp = t.get("exp", False)

    @property
    def name(self):
        return self.callee.get("name")

    @property
    def defpath(self):
        return self.callee.get("def", "")

    @property
    def self_adt(self):
        return self.callee.get("self_adt") or self.callee.get("arg0_adt")

    @property
    def trait(self):
        return self.callee.get("trait") or self.callee.get("via", {}).get("trait")

    @property
    def via_name(self):
        return self.callee.get("via", {}).get("name", self.callee.get("name"))

    def is_method(self, adt_suffix, name):
        return self.name == name and _suffix_match(self.self_adt, adt_suffix)

    def is_trait_method(self, trait_suffix, name):
        return self.via_name == name and _suffix_match(self.trait, trait_suffix)

    def is_fn(self, suffix):
        return _suffix_match(self.defpath, suffix)

    def arg_path(self, i):
        if i >= len(self.args):
            return None
        p = op_place(self.args[i])
        if p is None:
            return None
        return self.body.resolve(p)

    def loc(self):
        return "%s:%d" % (self.body.file, self.line)

    def __repr__(self):
        return "Call(bb%d %s @%d)" % (self.block, self.defpath, self.line)


TRANSPARENT = {
    "deref", "deref_mut", "as_ref", "as_mut", "borrow", "borrow_mut", "clone", "into", "from",
    "as_str", "as_slice", "as_bytes", "to_owned", "to_string", "get_mut", "as_deref", "as_deref_mut",
    "into_inner", "unwrap", "expect", "copied", "cloned", "new_unchecked", "get_unchecked_mut",
    "as_pin_mut", "project", "get_ref", "into_future", "as_mut_slice", "to_vec", "branch",
    "from_residual", "from_output", "unwrap_or_default",
}


_PARAM_TABLE = None
_POS = re.compile(r"(\{(?:closure|async block|async fn body|async closure)@[^:}]+):\d+:\d+: \d+:\d+")


def norm_ty(t):
    """type strings name closures by source position; positions move with every edit above them and are not part of a parameter's identity"""
    return _POS.sub(r"\1", t) if "@" in t else t


def _param_table():
    global _PARAM_TABLE
    if _PARAM_TABLE is None:
        p = os.path.join(os.path.dirname(os.path.dirname(os.path.abspath(__file__))), "param_table.json")
        try:
            with open(p) as f:
                _PARAM_TABLE = json.load(f)
        except OSError:
            _PARAM_TABLE = {}
        if os.environ.get("SWIMVERIFY_NO_PARAM_TABLE") == "1":
            _PARAM_TABLE = {}
    return _PARAM_TABLE


class Body:
    def __init__(self, crate, meta, raw):
        self.crate = crate
        self.meta = meta
        self.raw = raw
        self.defpath = meta["def"]
        self.file = meta["file"]
        self.blocks = raw["blocks"]
        self.n = len(self.blocks)
        self.argc = raw["argc"]
        self.locals = raw["locals"]
        self.vars = self._canonical_params(raw)
        # locals the source binds with `let` / a pattern / a parameter (as opposed to compiler temporaries); kept when the names are withheld
        self.user_locals = {p[0] for n, p in raw["vars"] if not p[1]}
        if os.environ.get("SWIMVERIFY_ALPHA", "0") == "1":
            # self-test: forget the names of let-bound locals (alpha-renaming must not change any verdict); parameters keep theirs
            self.vars = [(n, p) for n, p in raw["vars"] if (not p[1] and 1 <= p[0] <= raw["argc"]) or p[1]]
        elif os.environ.get("SWIMVERIFY_ALPHA", "0") == "2":
            # self-test: forget every name the debug information gives (locals, parameters, captured variables); only the frozen parameter roles remain
            keep = self._frozen
            self.vars = [(n, p) for n, p in self.vars if n == "self" or (p[0], json.dumps(p[1])) in keep]
        self._calls = None
        self._defs = None
        self._mutb = None
        self._succ = None
        self._pred = None
        self._dom = None
        self._pdom = None
        self._cdep = None
        self._reach_cache = {}

    def _canonical_params(self, raw):
        """Parameter names come from the frozen table (engine/param_table.json) when the parameter at that position still has the recorded type: a rule
        that speaks of `senders` means `parameter 1 of send_current`, whatever the source calls it today. For the body of an `async fn` (closure#0 of the
        function) captured variable i is parameter i+1 of the function. Where arity or type changed the debug name is kept."""
        self._frozen = set()
        tab = _param_table().get(self.crate.name, {})
        dp = self.defpath
        out = list(raw["vars"])
        ent = tab.get(dp)
        if ent is not None and len(ent) == raw["argc"]:
            for i, (nm, ty) in enumerate(ent, start=1):
                if nm is None or norm_ty(raw["locals"][i]) != norm_ty(ty):
                    continue
                out = [(n, p) for n, p in out if not (p[0] == i and not p[1])] + [(nm, [i, []])]
                self._frozen.add((i, "[]"))
        if dp.endswith("::{closure#0}") and dp[:-len("::{closure#0}")] in tab and raw["argc"] == 2 and "async fn body" in raw["locals"][1]:
            parent = dp[:-len("::{closure#0}")]
            pent = tab[parent]
            try:
                pb = self.crate.body(parent)
                ptys = [pb.raw["locals"][i] for i in range(1, pb.raw["argc"] + 1)]
            except Exception:
                ptys = None
            if ptys is not None and len(ptys) == len(pent):
                new = []
                for n, p in out:
                    if p[0] == 1 and len(p[1]) == 1 and p[1][0][0] == "f" and p[1][0][1] < len(pent):
                        k = p[1][0][1]
                        if pent[k][0] is not None and norm_ty(pent[k][1]) == norm_ty(ptys[k]):
                            new.append((pent[k][0], p))
                            self._frozen.add((1, json.dumps(p[1])))
                            continue
                    new.append((n, p))
                out = new
        return out

    def upvar_origin(self, k):
        """(enclosing body, operand) captured as variable k of this closure / coroutine, when the enclosing body builds it in one place."""
        m = re.match(r"^(.*)::\{closure#\d+\}$", self.defpath)
        if not m or m.group(1) not in self.crate.by_def:
            return None
        if not hasattr(self, "_uorigin"):
            self._uorigin = None
            try:
                pb = self.crate.body(m.group(1))
                sites = [rv for i, j, p, rv, line in pb.assigns() if rv[0] == "agg" and (rv[1].get("closure") == self.defpath or rv[1].get("coroutine") == self.defpath)]
                if len(sites) == 1:
                    self._uorigin = (pb, sites[0][2])
            except Exception:
                self._uorigin = None
        if self._uorigin is None or k >= len(self._uorigin[1]):
            return None
        return (self._uorigin[0], self._uorigin[1][k])

    def __repr__(self):
        return "Body(%s)" % self.defpath

    def loc(self, line=None):
        return "%s:%d" % (self.file, line if line is not None else self.meta["lo"])

    # -- variables ------------------------------------------------------------------------
    def var_locals(self, name):
        """Locals bound to user variable `name` (bare places only)."""
        return [p[0] for n, p in self.vars if n == name and not p[1]]

    def var_name(self, local):
        for n, p in self.vars:
            if p[0] == local and not p[1]:
                return n
        return self.derived_names().get(local)

    def assign_roles(self, roles):
        """Give locals canonical names chosen by a rule from structure (type, data flow, argument position): `roles` maps local -> name. The user's own
        name for such a local is dropped, so that a rule written against the canonical names never depends on what the source calls the variable."""
        roles = {l: n for l, n in roles.items() if l is not None}
        self.vars = [(n, p) for n, p in self.vars if not (p[0] in roles and not p[1])] + [(n, [l, []]) for l, n in roles.items()]
        self._derived = None
        for k in ("_dcache", "_desc_cache"):
            if hasattr(self, k):
                setattr(self, k, {})
        return self

    def derived_names(self):
        """Names for let-bound locals that do not depend on what the author called them: a local is named after the parameter of the crate-local
        function it is passed to (by value, reference or reborrow). When it is passed under several parameter names the most frequent wins, ties go to
        a name no other local of this body is given. Used when user names are withheld (alpha mode) so that rules survive a renaming of locals."""
        if getattr(self, "_derived", None) is not None:
            return self._derived
        self._derived = {}
        if os.environ.get("SWIMVERIFY_ALPHA", "0") not in ("1", "2"):
            return self._derived
        votes = defaultdict(lambda: defaultdict(int))
        named = {p[0] for n, p in self.vars if not p[1]}
        for c in self.calls:
            dp = c.defpath
            if not dp or dp not in self.crate.by_def:
                continue
            try:
                cb = self.crate.body(dp)
            except Exception:
                continue
            pn = {}
            for n, p in cb.raw["vars"]:
                if not p[1] and 1 <= p[0] <= cb.argc:
                    pn[p[0]] = n
            for i, a in enumerate(c.args):
                nm = pn.get(i + 1)
                if nm is None or nm in ("self",):
                    continue
                pl = op_place(a)
                if pl is None or [x for x in pl[1] if x != "*"]:
                    continue
                root = self.copy_root(pl)
                if root is None or root in named or root <= self.argc:
                    continue
                votes[root][nm] += 1
        proposed = defaultdict(set)
        for loc, vs in votes.items():
            for nm in vs:
                proposed[nm].add(loc)
        for loc, vs in votes.items():
            best = max(vs.values())
            cands = sorted(nm for nm, k in vs.items() if k == best)
            uniq = [nm for nm in cands if len(proposed[nm]) == 1]
            self._derived[loc] = (uniq or cands)[0]
        # two locals must not share a derived name
        seen = defaultdict(list)
        for loc, nm in self._derived.items():
            seen[nm].append(loc)
        for nm, locs in seen.items():
            if len(locs) > 1:
                for loc in locs:
                    del self._derived[loc]
        return self._derived

    # -- CFG ------------------------------------------------------------------------------
    def term(self, b):
        return self.blocks[b]["t"]

    def stmts(self, b):
        return self.blocks[b]["s"]

    def is_cleanup(self, b):
        return self.blocks[b].get("cleanup", False)

    def _build_cfg(self):
        succ = [[] for _ in range(self.n)]
        for i, bl in enumerate(self.blocks):
            if bl.get("cleanup"):
                continue
            t = bl["t"]
            k = t["k"]
            if k == "goto":
                succ[i] = [t["t"]]
            elif k == "switch":
                seen = []
                for _, tb in t["arms"]:
                    if tb not in seen:
                        seen.append(tb)
                if t["otherwise"] not in seen:
                    seen.append(t["otherwise"])
                succ[i] = seen
            elif k in ("call", "drop", "assert", "yield"):
                if t.get("t") is not None:
                    succ[i] = [t["t"]]
            elif k == "other":
                succ[i] = list(t.get("succ", []))
            # ret / unreachable / resume / abort / codrop: no successors
        # drop blocks that are cleanup
        for i in range(self.n):
            succ[i] = [s for s in succ[i] if not self.blocks[s].get("cleanup")]
        pred = [[] for _ in range(self.n)]
        for i, ss in enumerate(succ):
            for s in ss:
                pred[s].append(i)
        self._succ, self._pred = succ, pred

    @property
    def succ(self):
        if self._succ is None:
            self._build_cfg()
        return self._succ

    @property
    def pred(self):
        if self._pred is None:
            self._build_cfg()
        return self._pred

    def exits(self):
        return [i for i in range(self.n) if self.term(i)["k"] == "ret" and not self.is_cleanup(i)]

    def reachable_from(self, starts, avoid=None, succ=None):
        """Blocks reachable from `starts` (inclusive) without entering a block in `avoid`."""
        succ = succ or self.succ
        avoid = avoid or ()
        seen = set()
        dq = deque(s for s in starts if s not in avoid)
        seen.update(dq)
        while dq:
            b = dq.popleft()
            for s in succ[b]:
                if s not in seen and s not in avoid:
                    seen.add(s)
                    dq.append(s)
        return seen

    def reaches(self, src, dst_set, avoid=None):
        """Is some block of dst_set reachable from the *successors* of src without passing `avoid`?"""
        r = self.reachable_from(self.succ[src], avoid=avoid)
        return bool(r & set(dst_set))

    def entry_reachable(self):
        if "entry" not in self._reach_cache:
            self._reach_cache["entry"] = self.reachable_from([0])
        return self._reach_cache["entry"]

    # dominators (iterative, Cooper-Harvey-Kennedy)
    def _compute_dom(self, succ, pred, roots):
        order = []
        seen = set()
        # iterative DFS postorder from roots
        for r in roots:
            if r in seen:
                continue
            stack = [(r, iter(succ[r]))]
            seen.add(r)
            while stack:
                node, it = stack[-1]
                adv = False
                for s in it:
                    if s not in seen:
                        seen.add(s)
                        stack.append((s, iter(succ[s])))
                        adv = True
                        break
                if not adv:
                    order.append(node)
                    stack.pop()
        rpo = list(reversed(order))
        num = {b: i for i, b in enumerate(rpo)}
        idom = {r: r for r in roots}
        changed = True

        def intersect(a, b):
            while a != b:
                while num[a] > num[b]:
                    a = idom[a]
                while num[b] > num[a]:
                    b = idom[b]
            return a

        while changed:
            changed = False
            for b in rpo:
                if b in roots:
                    continue
                ps = [p for p in pred[b] if p in idom]
                if not ps:
                    continue
                new = ps[0]
                for p in ps[1:]:
                    new = intersect(p, new)
                if idom.get(b) != new:
                    idom[b] = new
                    changed = True
        return idom

    @property
    def idom(self):
        if self._dom is None:
            self._dom = self._compute_dom(self.succ, self.pred, [0])
        return self._dom

    def dominates(self, a, b):
        """Block a dominates block b (reflexive). Where `a` lies in a helper that was spliced in (a block extracted into a function after the freeze),
        the helper's early error return merges with its normal return and the caller's `?` separates them again: `a` still lies on every feasible path
        to `b`, which the correlated reachability decides."""
        if self._dominates_plain(a, b):
            return True
        n_own = getattr(self, "n_own_blocks", None)
        if n_own is None or not getattr(self, "inlined_helpers", None) or a < n_own or b not in self.idom:
            return False
        cache = self.__dict__.setdefault("_cp_avoid_cache", {})
        if a not in cache:
            # cheap necessary conditions first: a is reachable, and b is not reachable around a even without any knowledge
            if a not in self.entry_reachable():
                cache[a] = None
            else:
                cache[a] = self.reachable_cp([0], cap=20000, avoid={a})
        if cache[a] is None:
            return False
        rk = ("from", a)
        if rk not in self._reach_cache:
            self._reach_cache[rk] = self.reachable_from(self.succ[a])
        if b not in self._reach_cache[rk]:
            return False
        return a in self.idom and b not in cache[a]

    def _dominates_plain(self, a, b):
        idom = self.idom
        if b not in idom:
            return False
        while True:
            if a == b:
                return True
            nb = idom[b]
            if nb == b:
                return False
            b = nb

    def pos_dominates(self, pa, pb):
        """Position pa=(block, idx) dominates position pb."""
        if pa[0] == pb[0]:
            return pa[1] <= pb[1]
        return self.dominates(pa[0], pb[0])

    @property
    def ipdom(self):
        """Immediate post-dominators w.r.t. a virtual exit joining all `ret` blocks. Key -1 is the exit."""
        if self._pdom is None:
            n = self.n
            EXIT = n
            succ = [list(s) for s in self.succ] + [[]]
            for e in self.exits():
                succ[e] = succ[e] + [EXIT]
            # restrict to nodes that can reach EXIT
            rsucc = [[] for _ in range(n + 1)]
            for i, ss in enumerate(succ):
                for s in ss:
                    rsucc[s].append(i)
            can = set()
            dq = deque([EXIT])
            can.add(EXIT)
            while dq:
                b = dq.popleft()
                for p in rsucc[b]:
                    if p not in can:
                        can.add(p)
                        dq.append(p)
            fsucc = [[s for s in succ[i] if s in can] if i in can else [] for i in range(n + 1)]
            rs = [[] for _ in range(n + 1)]
            for i, ss in enumerate(fsucc):
                for s in ss:
                    rs[s].append(i)
            # dominators on reversed graph: succ := rs, pred := fsucc
            self._pdom = self._compute_dom(rs, fsucc, [EXIT])
            self._exit = EXIT
        return self._pdom

    def postdominates(self, a, b):
        """Block a post-dominates block b (reflexive), w.r.t. normal return."""
        ip = self.ipdom
        if b not in ip:
            return False
        while True:
            if a == b:
                return True
            nb = ip[b]
            if nb == b:
                return False
            b = nb

    @property
    def cdep(self):
        """cdep[b] = set of (a, s): b is control dependent on edge a->s."""
        if self._cdep is None:
            ip = self.ipdom
            cd = defaultdict(set)
            for a in range(self.n):
                if a not in ip:
                    continue
                ss = [s for s in self.succ[a] if s in ip]
                if len(self.succ[a]) < 2:
                    continue
                for s in ss:
                    # walk up pdom tree from s until ipdom(a)
                    stop = ip[a]
                    x = s
                    while x != stop and x != self._exit:
                        cd[x].add((a, s))
                        nx = ip[x]
                        if nx == x:
                            break
                        x = nx
            self._cdep = cd
        return self._cdep

    def controlling_edges(self, b):
        """Transitive closure of control dependence: all (a, s) edges that decide whether b runs."""
        out = set()
        work = [b]
        seen = {b}
        while work:
            x = work.pop()
            for (a, s) in self.cdep.get(x, ()):
                if (a, s) not in out:
                    out.add((a, s))
                    if a not in seen:
                        seen.add(a)
                        work.append(a)
        return out

    # -- events ---------------------------------------------------------------------------
    @property
    def calls(self):
        if self._calls is None:
            self._calls = []
            for i, bl in enumerate(self.blocks):
                if bl["t"]["k"] == "call" and not bl.get("cleanup"):
                    self._calls.append(Call(self, i, bl["t"]))
        return self._calls

    def calls_where(self, pred):
        return [c for c in self.calls if pred(c)]

    def calls_named(self, name, self_adt=None):
        return [c for c in self.calls if c.name == name and (self_adt is None or _suffix_match(c.self_adt, self_adt))]

    def call_at(self, block):
        t = self.term(block)
        if t["k"] == "call":
            for c in self.calls:
                if c.block == block:
                    return c
        return None

    def assigns(self):
        """Yield (block, idx, place, rvalue, line) for every assignment outside cleanup blocks."""
        for i, bl in enumerate(self.blocks):
            if bl.get("cleanup"):
                continue
            for j, s in enumerate(bl["s"]):
                if s[0] == "A":
                    yield i, j, s[1], s[2], s[3]

    @property
    def defs(self):
        """defs[local] = list of ('assign', block, idx, rvalue) | ('call', block, Call) | ('part', block, idx, place, rvalue)"""
        if self._defs is None:
            d = defaultdict(list)
            # a write through a dereference (`*p = ..`) is not a definition of the pointer local p
            for i, j, p, rv, _ in self.assigns():
                if is_bare(p):
                    d[p[0]].append(("assign", i, j, rv))
                elif p[1][0] != "*":
                    d[p[0]].append(("part", i, j, p, rv))
            for c in self.calls:
                if is_bare(c.dest):
                    d[c.dest[0]].append(("call", c.block, c))
                elif c.dest[1][0] != "*":
                    d[c.dest[0]].append(("partcall", c.block, c))
            for i, bl in enumerate(self.blocks):
                t = bl["t"]
                if t["k"] == "yield" and not bl.get("cleanup"):
                    pass
            self._defs = d
        return self._defs

    @property
    def mut_borrowed(self):
        """Locals whose address is taken mutably (`&mut x`, also of a field of x)."""
        if getattr(self, "_mutb", None) is None:
            out = set()
            for i, j, p, rv, line in self.assigns():
                if rv[0] == "ref" and rv[1] is True and "*" not in [x for x in rv[2][1] if isinstance(x, str)]:
                    out.add(rv[2][0])
            self._mutb = out
        return self._mutb

    def single_def(self, local):
        ds = [x for x in self.defs.get(local, ()) if x[0] in ("assign", "call")]
        allds = self.defs.get(local, ())
        if len(allds) == 1 and len(ds) == 1:
            return ds[0]
        return None

    def resolve(self, place, depth=0, through_calls=True):
        """Access path of a place: follow single-definition temporaries (refs, copies, casts, and
        transparent calls such as deref/as_mut/unwrap) back to a root local."""
        local, projs = place
        elems = []
        for x in projs:
            if x == "*":
                elems.append(("*",))
            elif isinstance(x, list) and x[0] == "f":
                elems.append(("f", x[3] if len(x) > 3 else "", x[2]))
            elif isinstance(x, list) and x[0] == "d":
                elems.append(("d", x[1]))
            else:
                elems.append(("o",))
        if depth > 40 or (1 <= local <= self.argc):
            return Path(local, elems)
        d = self.single_def(local)
        if d is None:
            return Path(local, elems)
        if d[0] == "assign":
            rv = d[3]
            src = None
            if rv[0] == "use":
                src = op_place(rv[1])
            elif rv[0] == "ref":
                src = rv[2]
            elif rv[0] == "rawptr":
                src = rv[1]
            elif rv[0] == "cast":
                src = op_place(rv[2])
            if src is not None:
                base = self.resolve(src, depth + 1, through_calls)
                return Path(base.root, base.elems + tuple(elems), base.via_call)
        elif d[0] == "call" and through_calls:
            c = d[2]
            if (c.via_name in TRANSPARENT or c.name in TRANSPARENT) and c.args:
                src = op_place(c.args[0])
                if src is not None:
                    base = self.resolve(src, depth + 1, through_calls)
                    return Path(base.root, base.elems + tuple(elems), base.via_call or c)
        return Path(local, elems)

    def root_name(self, path):
        n = self.var_name(path.root)
        if n:
            return n
        if 1 <= path.root <= self.argc:
            return "arg%d" % path.root
        return "_%d" % path.root

    # -- derives-from (flow-insensitive backward slice) ---------------------------------------
    def dep_locals(self, operand):
        """Locals the value of `operand` is computed from (transitively: copies, fields, operators, aggregates, call arguments)."""
        got = set()
        self.sources(operand, stop_at_calls=False, collect=got)
        return got

    def sources(self, operand, max_nodes=4000, stop_at_calls=True, transparent=TRANSPARENT, stop_bin=(), collect=None):
        """Set of primitive sources an operand may derive from:
        ('const', value, constdesc) ('arg', local) ('call', Call) ('field', Path) ('local', n)
        A component of a value that was put together from parts (`header.node_len` of `Some(FrameHeader { id, node_len, .. })`, `pair.1`) derives from
        the part that was put there, not from its neighbours."""
        out = []
        seen = set()
        work = []

        def comp_path(projs):
            # the components a projection selects: ("f", index) / ("d", variant name); None when it cannot be followed (an index, ..)
            cp = []
            for x in projs:
                if x == "*":
                    continue
                if isinstance(x, list) and x and x[0] == "f" and isinstance(x[1], int):
                    cp.append(("f", x[1]))
                elif isinstance(x, list) and x and x[0] == "d":
                    cp.append(("d", x[1]))
                else:
                    return None
            return tuple(cp)

        def push_op(op, rest=()):
            if op[0] == "k":
                out.append(("const", const_value(op[1]), op[1]))
            elif op[0] in ("c", "m"):
                push_place(op[1], rest)

        def push_place(p, rest=()):
            own = comp_path(p[1])
            path = None if own is None or rest is None else own + tuple(rest)
            key = (p[0], json.dumps(p[1]), path)
            if key in seen:
                return
            seen.add(key)
            if collect is not None:
                collect.add(p[0])
            work.append((p, path))

        push_op(operand)
        n = 0
        while work:
            n += 1
            if n > max_nodes:
                out.append(("overflow",))
                break
            p, path = work.pop()
            local = p[0]
            if place_fields(p):
                out.append(("field", self.resolve(p)))
            if 1 <= local <= self.argc:
                out.append(("arg", local))
                continue
            ds = self.defs.get(local, ())
            if not ds:
                out.append(("local", local))
                continue
            for d in ds:
                if d[0] in ("assign", "part"):
                    rv = d[3] if d[0] == "assign" else d[4]
                    k = rv[0]
                    # a partial assignment (`x.f = ..`) contributes to the component it writes only
                    sub = path if d[0] == "assign" else ()
                    if d[0] == "part" and path:
                        wp = comp_path(d[3][1])
                        if wp is not None:
                            m_ = min(len(wp), len(path))
                            if wp[:m_] != path[:m_]:
                                continue       # writes a different component than the one looked into
                            sub = path[len(wp):] if len(wp) <= len(path) else ()
                    if k == "use":
                        push_op(rv[1], sub)
                    elif k in ("ref",):
                        push_place(rv[2], sub)
                    elif k == "rawptr":
                        push_place(rv[1])
                    elif k == "cast":
                        push_op(rv[2])
                    elif k == "bin":
                        out.append(("bin", rv[1]))
                        if rv[1] in stop_bin:
                            continue
                        push_op(rv[2])
                        push_op(rv[3])
                    elif k == "un":
                        out.append(("un", rv[1]))
                        push_op(rv[2])
                    elif k == "agg":
                        sel = None
                        if sub:
                            q = list(sub)
                            meta = rv[1] if isinstance(rv[1], dict) else {}
                            if q and q[0][0] == "d":
                                if "variant" in meta and meta.get("variant") != q[0][1]:
                                    continue       # another variant than the one looked into: this definition is not where the component comes from
                                q = q[1:]
                            if q and q[0][0] == "f" and q[0][1] < len(rv[2]):
                                sel = (rv[2][q[0][1]], tuple(q[1:]))
                        if sel is not None:
                            push_op(sel[0], sel[1])
                        else:
                            for o in rv[2]:
                                push_op(o)
                        if "adt" in rv[1]:
                            out.append(("agg", rv[1]["adt"], rv[1]["variant"]))
                    elif k == "disc":
                        push_place(rv[1])
                    elif k == "repeat":
                        push_op(rv[1])
                    else:
                        out.append(("other", rv[1] if len(rv) > 1 else ""))
                elif d[0] in ("call", "partcall"):
                    c = d[2]
                    out.append(("call", c))
                    if (not stop_at_calls) or c.via_name in transparent or c.name in transparent:
                        for a in c.args:
                            push_op(a)
        return out

    def copy_root(self, operand, hops=8):
        """The local an operand is a plain copy / move / reborrow of (follows single definitions `_a = move _b`, `_a = &_b`)."""
        pl = op_place(operand) if not (isinstance(operand, list) and operand and isinstance(operand[0], int)) else operand
        if pl is None:
            return None
        loc = pl[0]
        if [x for x in pl[1] if x != "*"]:
            return loc
        while hops > 0:
            hops -= 1
            ds = self.defs.get(loc, ())
            if len(ds) != 1 or ds[0][0] != "assign":
                break
            rv = ds[0][3]
            nxt = None
            if rv[0] == "use":
                nxt = op_place(rv[1])
            elif rv[0] == "ref":
                nxt = rv[2]
            if nxt is None or [x for x in nxt[1] if x != "*"]:
                break
            loc = nxt[0]
        return loc

    def cast_chain(self, operand, hops=12):
        """Kinds of the casts an operand went through, following single definitions (copies, casts, derefs), innermost last."""
        out = []
        op = operand
        while hops > 0:
            hops -= 1
            p = op_place(op)
            if p is None or [x for x in p[1] if x != "*"]:
                break
            d = self.single_def(p[0])
            if d is None or d[0] != "assign":
                break
            rv = d[3]
            if rv[0] == "use":
                op = rv[1]
            elif rv[0] == "cast":
                out.append(rv[1])
                op = rv[2]
            else:
                break
        return out

    def derives_from_call(self, operand, pred, **kw):
        return [s[1] for s in self.sources(operand, **kw) if s[0] == "call" and pred(s[1])]

    def const_sources(self, operand, **kw):
        return [s for s in self.sources(operand, **kw) if s[0] == "const"]

    # -- switch helpers -------------------------------------------------------------------
    def switch_info(self, b):
        """For a switch block: description of what is switched on.
        Returns dict(kind='disc', place, adt, names{val:name}, arms{name:block}, otherwise) or
        dict(kind='bool'/'int', operand, arms{val:block}, otherwise)."""
        t = self.term(b)
        if t["k"] != "switch":
            return None
        p = op_place(t["discr"])
        info = {"block": b, "otherwise": t["otherwise"], "raw_arms": {v if not isinstance(v, str) else int(v): tb for v, tb in t["arms"]}}
        if p is not None and is_bare(p):
            # find defining statement in same block (usual) or single def
            rv = None
            for s in reversed(self.stmts(b)):
                if s[0] == "A" and is_bare(s[1]) and s[1][0] == p[0]:
                    rv = s[2]
                    break
            if rv is None:
                d = self.single_def(p[0])
                if d and d[0] == "assign":
                    rv = d[3]
                elif d and d[0] == "call":
                    info["kind"] = "callresult"
                    info["call"] = d[2]
                    return info
            if rv is not None and rv[0] == "disc":
                info["kind"] = "disc"
                info["place"] = rv[1]
                info["adt"] = rv[2] if len(rv) > 2 else None
                names = {}
                if len(rv) > 3:
                    for v, nme in rv[3]:
                        names[int(v) if isinstance(v, str) else v] = nme
                info["names"] = names
                arms = {}
                covered = set()
                for v, tb in info["raw_arms"].items():
                    arms[names.get(v, str(v))] = tb
                    covered.add(v)
                rest = [nme for v, nme in names.items() if v not in covered]
                info["arms"] = arms
                info["otherwise_names"] = rest
                return info
            if rv is not None:
                info["rvalue"] = rv
        info["kind"] = "value"
        info["operand"] = t["discr"]
        return info

    def variant_edges(self, b):
        """{variant name: target block} including variants that go to `otherwise`."""
        si = self.switch_info(b)
        if not si or si["kind"] != "disc":
            return None
        out = dict(si["arms"])
        for n in si["otherwise_names"]:
            out[n] = si["otherwise"]
        return out

    def switches_on(self, pred):
        """Switch blocks whose scrutinee place's resolved Path satisfies pred(path, switch_info)."""
        out = []
        for b in range(self.n):
            if self.is_cleanup(b) or self.term(b)["k"] != "switch":
                continue
            si = self.switch_info(b)
            if si["kind"] == "disc":
                path = self.resolve(si["place"])
            elif si["kind"] == "value":
                p = op_place(si["operand"])
                path = self.resolve(p) if p else None
            else:
                path = None
            if pred(path, si):
                out.append(si)
        return out

    def option_edges_from(self, call):
        """Switches on the discriminant of an Option / Result that *is* the value returned by `call`, however it travelled to the match:
        moved through locals, borrowed (`as_ref`), or packed as a component of a tuple that is matched (`match (f(x), existing)`).
        Returns [(switch_block, {variant: target})]."""
        out = []
        for b in range(self.n):
            if self.is_cleanup(b) or self.term(b)["k"] != "switch":
                continue
            si = self.switch_info(b)
            if not si or si["kind"] != "disc":
                continue
            op = self._narrow(["m", si["place"]])
            pl = op_place(op)
            if pl is None:
                continue
            hit = False
            seen = 0
            # follow moves / reborrows / as_ref back to the defining call
            while seen < 8:
                seen += 1
                if [x for x in pl[1] if x != "*" and not (isinstance(x, list) and x[0] == "d")]:
                    # a field of something: narrow once more (tuple component), else give up
                    op2 = self._narrow(["m", pl])
                    p2 = op_place(op2)
                    if p2 is None or p2 == pl:
                        break
                    pl = p2
                    continue
                d = self.single_def(pl[0])
                if d is None:
                    break
                if d[0] == "call":
                    if d[2] is call:
                        hit = True
                    elif d[2].name in ("as_ref", "as_mut", "as_deref", "take") and d[2].args and op_place(d[2].args[0]) is not None:
                        pl = op_place(d[2].args[0])
                        continue
                    break
                if d[0] == "assign":
                    rv = d[3]
                    if rv[0] == "use" and op_place(rv[1]) is not None:
                        pl = op_place(rv[1])
                        continue
                    if rv[0] == "ref":
                        pl = rv[2]
                        continue
                break
            if hit:
                out.append((b, self.variant_edges(b)))
        return out

    def result_switches(self, call, max_hops=6):
        """Switches on the discriminant of the value returned by `call` (possibly after moves and
        `Try::branch`). Returns list of switch_info."""
        out = []
        targets = {call.dest[0]}
        # forward closure over moves: locals assigned `use(move X)` for X in targets, and Try::branch
        changed = True
        hops = 0
        while changed and hops < max_hops:
            changed = False
            hops += 1
            for i, j, p, rv, _ in self.assigns():
                if is_bare(p) and p[0] not in targets and rv[0] == "use":
                    sp = op_place(rv[1])
                    if sp is not None and sp[0] in targets and not place_fields(sp):
                        targets.add(p[0])
                        changed = True
            for c in self.calls:
                if c.via_name in ("branch", "into_future", "poll") or c.name in ("branch",):
                    if c.args:
                        ap = op_place(c.args[0])
                        if ap is not None and ap[0] in targets and is_bare(c.dest) and c.dest[0] not in targets:
                            if c.via_name == "branch":
                                targets.add(c.dest[0])
                                changed = True
        for b in range(self.n):
            if self.is_cleanup(b) or self.term(b)["k"] != "switch":
                continue
            si = self.switch_info(b)
            if si["kind"] == "disc" and si["place"][0] in targets and not place_fields(si["place"]):
                out.append(si)
        return out

    def try_edges(self, call):
        """For `call(..)?`: (continue_block, break_block) of the switch on Try::branch's result."""
        for c in self.calls:
            if c.via_name == "branch" and c.args:
                ap = op_place(c.args[0])
                if ap is None:
                    continue
                pa = self.resolve(ap)
                if (pa.root == call.dest[0] and not pa.fields) or (ap[0] == call.dest[0] and not ap[1]):
                    for si in self.result_switches(c, max_hops=1):
                        ve = self.variant_edges(si["block"])
                        if ve and "Continue" in ve and "Break" in ve:
                            return ve["Continue"], ve["Break"]
        return None

    # -- path obligations -----------------------------------------------------------------
    # -- limited path sensitivity: constants assigned to flag locals ------------------------
    def _flag_locals(self):
        """Flag keys (local, field) - field -1 for the local itself - that can be tracked as constants along a path:
        locals that are switched on directly and are somewhere assigned a constant (`matches!`,
        `let ok = if .. {true} else {false}` lower to this shape), and constant components of tuple aggregates that are
        copied into such a local (`let (x, done) = match .. { A => (a, false), B => (b, true) }; if done {..}`)."""
        if "flags" not in self._reach_cache:
            rel = set()
            for b in range(self.n):
                t = self.term(b)
                if t["k"] == "switch":
                    p = op_place(t["discr"])
                    if p is not None and not p[1]:
                        rel.add((p[0], -1))
            # backwards over plain copies: a switched local may be a copy of a named flag or of a tuple component
            assigns = list(self.assigns())
            changed = True
            while changed:
                changed = False
                for i, j, p, rv, _ in assigns:
                    # (`let ended = !matches!(..)`: the negation of a flag is a flag)
                    if not p[1] and (p[0], -1) in rel and rv[0] == "un" and rv[1] == "Not" and rv[2][0] in ("c", "m") and not rv[2][1][1] and (rv[2][1][0], -1) not in rel:
                        rel.add((rv[2][1][0], -1))
                        changed = True
                    if p[1] or (p[0], -1) not in rel or rv[0] != "use" or rv[1][0] not in ("c", "m"):
                        continue
                    src = rv[1][1]
                    key = None
                    if not src[1]:
                        key = (src[0], -1)
                    elif len(src[1]) == 1 and isinstance(src[1][0], list) and src[1][0][0] == "f":
                        key = (src[0], src[1][0][1])
                    if key is not None and key not in rel:
                        rel.add(key)
                        changed = True
            const = set()
            for i, j, p, rv, _ in assigns:
                if not p[1] and rv[0] == "use" and rv[1][0] == "k" and "v" in rv[1][1]:
                    const.add((p[0], -1))
                if not p[1] and rv[0] == "agg" and rv[1].get("tuple"):
                    for k, o in enumerate(rv[2]):
                        if o[0] == "k" and "v" in o[1]:
                            const.add((p[0], k))
            # forward: keys that can actually carry a constant
            fl = rel & const
            changed = True
            while changed:
                changed = False
                for i, j, p, rv, _ in assigns:
                    if not p[1] and (p[0], -1) in rel and (p[0], -1) not in fl and rv[0] == "un" and rv[1] == "Not" and rv[2][0] in ("c", "m") and not rv[2][1][1] and (rv[2][1][0], -1) in fl:
                        fl.add((p[0], -1))
                        changed = True
                    if p[1] or (p[0], -1) not in rel or (p[0], -1) in fl or rv[0] != "use" or rv[1][0] not in ("c", "m"):
                        continue
                    src = rv[1][1]
                    key = (src[0], -1) if not src[1] else ((src[0], src[1][0][1]) if len(src[1]) == 1 and isinstance(src[1][0], list) and src[1][0][0] == "f" else None)
                    if key in fl:
                        fl.add((p[0], -1))
                        changed = True
            self._reach_cache["flags"] = fl
        return self._reach_cache["flags"]

    def _env_after(self, b, env):
        fl = self._flag_locals()
        if not fl:
            return env
        # most blocks assign no flag and call nothing that overwrites one: decided once per block
        touch = self.__dict__.setdefault("_env_touch", {})
        if b not in touch:
            locs = {s[1][0] for s in self.stmts(b) if s[0] == "A" and not s[1][1]}
            t0 = self.term(b)
            if t0["k"] == "call" and t0.get("dest") is not None and not t0["dest"][1]:
                locs.add(t0["dest"][0])
            touch[b] = locs
        if not env and not touch[b]:
            return env
        lv = self._flag_live()
        if not touch[b]:
            if all(k[0] == "D" or b in lv.get(k[0], ()) for k, _ in env):
                return env
            return tuple((k, v) for k, v in env if k[0] == "D" or b in lv.get(k[0], ()))
        fll = self.__dict__.get("_flag_local_set")
        if fll is None:
            fll = self.__dict__["_flag_local_set"] = {k[0] for k in fl}
        if not any(k[0] in touch[b] for k, _ in env) and not (touch[b] & fll):
            if all(k[0] == "D" or b in lv.get(k[0], ()) for k, _ in env):
                return env
            return tuple((k, v) for k, v in env if k[0] == "D" or b in lv.get(k[0], ()))
        d = dict(env)
        for s in self.stmts(b):
            if s[0] != "A" or s[1][1]:
                continue
            loc = s[1][0]
            rv = s[2]
            if rv[0] == "agg" and rv[1].get("tuple"):
                for k, o in enumerate(rv[2]):
                    if (loc, k) in fl:
                        if o[0] == "k" and "v" in o[1]:
                            v = o[1]["v"]
                            d[(loc, k)] = int(v) if isinstance(v, str) else v
                        else:
                            d.pop((loc, k), None)
                continue
            if (loc, -1) in fl:
                if rv[0] == "use" and rv[1][0] == "k" and "v" in rv[1][1]:
                    v = rv[1][1]["v"]
                    d[(loc, -1)] = int(v) if isinstance(v, str) else v
                elif rv[0] == "use" and rv[1][0] in ("c", "m") and len(rv[1][1][1]) == 1 and isinstance(rv[1][1][1][0], list) and rv[1][1][1][0][0] == "f" \
                        and (rv[1][1][0], rv[1][1][1][0][1]) in d:
                    d[(loc, -1)] = d[(rv[1][1][0], rv[1][1][1][0][1])]
                elif rv[0] == "use" and rv[1][0] in ("c", "m") and not rv[1][1][1] and (rv[1][1][0], -1) in d:
                    d[(loc, -1)] = d[(rv[1][1][0], -1)]
                elif rv[0] == "un" and rv[1] == "Not" and rv[2][0] in ("c", "m") and not rv[2][1][1] and d.get((rv[2][1][0], -1)) in (0, 1, True, False):
                    d[(loc, -1)] = 0 if d[(rv[2][1][0], -1)] else 1
                else:
                    d.pop((loc, -1), None)
            else:
                # any other whole assignment of a local invalidates what is known about its components
                for k in [k for k in d if k[0] == loc and isinstance(k[1], int) and k[1] >= 0]:
                    d.pop(k, None)
        t = self.term(b)
        if t["k"] == "call" and not t["dest"][1]:
            for k in [k for k in d if k[0] == t["dest"][0] and k[0] != "D"]:
                d.pop(k, None)
        lv = self._flag_live()
        return tuple(sorted(((k, v) for k, v in d.items() if k[0] == "D" or b in lv.get(k[0], ())), key=repr))

    def _flag_live(self):
        """flag key -> blocks from which a *use* of the flag is reachable (a switch on the local, or a statement reading the local). What is known
        about a flag that nobody will read again only multiplies the states of a path search."""
        lv = self.__dict__.get("_flag_live_map")
        if lv is None:
            fl = self._flag_locals()
            uses = defaultdict(set)
            locs = {k[0] for k in fl}
            for b_ in range(self.n):
                t_ = self.term(b_)
                if t_["k"] == "switch":
                    p_ = op_place(t_["discr"])
                    if p_ is not None and p_[0] in locs:
                        uses[p_[0]].add(b_)
                for s_ in self.stmts(b_):
                    if s_[0] != "A":
                        continue
                    for l_ in _locals_read(s_[2]):
                        if l_ in locs:
                            uses[l_].add(b_)
                if t_["k"] == "call":
                    for a_ in t_.get("args", ()):
                        p_ = op_place(a_)
                        if p_ is not None and p_[0] in locs:
                            uses[p_[0]].add(b_)
            lv = {}
            for l_, us in uses.items():
                seen = set(us)
                st = list(us)
                while st:
                    x = st.pop()
                    for pr in self.pred[x]:
                        if pr not in seen:
                            seen.add(pr)
                            st.append(pr)
                lv[l_] = seen
            self.__dict__["_flag_live_map"] = lv
        return lv

    def _feasible_succ(self, b, env):
        t = self.term(b)
        if t["k"] == "switch" and env:
            p = op_place(t["discr"])
            if p is not None and not p[1]:
                d = dict(env)
                if (p[0], -1) in d:
                    val = d[(p[0], -1)]
                    for v, tb in t["arms"]:
                        vv = int(v) if isinstance(v, str) else v
                        if vv == val:
                            return [tb] if not self.is_cleanup(tb) else []
                    return [t["otherwise"]]
        return self.succ[b]

    def _disc_map(self):
        """local holding a discriminant -> canonical key of the place whose discriminant it is (single definitions only)"""
        if getattr(self, "_dmap", None) is None:
            self._dmap = {}
            cnt = defaultdict(int)
            for i, j, p, rv, line in self.assigns():
                if not p[1]:
                    cnt[p[0]] += 1
            for i, j, p, rv, line in self.assigns():
                if rv[0] == "disc" and not p[1] and cnt[p[0]] == 1:
                    pl = rv[1]
                    root = self.copy_root([pl[0], []]) if not [x for x in pl[1] if x != "*"] or True else pl[0]
                    self._dmap[p[0]] = (root if root is not None else pl[0], json.dumps([x for x in pl[1] if x != "*"]))
            # knowledge is only worth carrying for places that are matched on in more than one block
            uses = defaultdict(set)
            for b_ in range(self.n):
                t_ = self.term(b_)
                if t_["k"] == "switch":
                    p_ = op_place(t_["discr"])
                    if p_ is not None and not p_[1] and p_[0] in self._dmap:
                        uses[self._dmap[p_[0]]].add(b_)
            self._dmap = {d_: k_ for d_, k_ in self._dmap.items() if len(uses.get(k_, ())) >= 2}
        return self._dmap

    def _drop_disc_knowledge(self, b, env):
        """forget what is known about the variant of a place when the block may change it (assignment to it, a mutable borrow of it, a call writing it)"""
        if not env or not any(isinstance(k, tuple) and k and k[0] == "D" for k, _ in env):
            return env
        roots = set()
        for s in self.stmts(b):
            if s[0] != "A":
                continue
            roots.add(s[1][0])
            if s[2][0] == "ref" and s[2][1]:
                roots.add(self.copy_root([s[2][2][0], []]) if not s[2][2][1] else s[2][2][0])
                roots.add(s[2][2][0])
        t = self.term(b)
        if t["k"] == "call" and t.get("dest") is not None:
            roots.add(t["dest"][0])
        if not roots:
            return env
        return tuple((k, v) for k, v in env if not (isinstance(k, tuple) and k and k[0] == "D" and k[1] in roots))

    def _edge_envs(self, b, env):
        """[(successor, environment on that edge)]: feasible successors of b given what the path has established (constant flags, variants of
        places that were matched on before and not changed since)"""
        env2 = self._drop_disc_knowledge(b, self._env_after(b, env))
        t = self.term(b)
        succs = self._feasible_succ(b, env2)
        if t["k"] != "switch":
            return [(s_, env2) for s_ in succs]
        p = op_place(t["discr"])
        key = None
        if p is not None and not p[1]:
            dk = self._disc_map().get(p[0])
            if dk is not None:
                key = ("D", dk[0], dk[1])
        if key is None:
            return [(s_, env2) for s_ in succs]
        d = dict(env2)
        known = d.get(key)
        arms = [(int(v) if isinstance(v, str) else v, tb) for v, tb in t["arms"]]
        out = []
        for s_ in succs:
            vals = [v for v, tb in arms if tb == s_]
            via_otherwise = (t.get("otherwise") == s_)
            feasible = False
            nenv = None
            if known is None:
                feasible = True
            elif known[0] == "is":
                feasible = (known[1] in vals) or (via_otherwise and known[1] not in [v for v, _ in arms])
            else:
                feasible = any(v not in known[1] for v in vals) or via_otherwise
            if not feasible:
                continue
            if len(vals) == 1 and not (via_otherwise and known is None):
                nd = dict(d)
                nd[key] = ("is", vals[0])
                nenv = tuple(sorted(nd.items(), key=repr))
            elif via_otherwise and not vals:
                nd = dict(d)
                prev = known[1] if (known is not None and known[0] == "not") else frozenset()
                if known is None or known[0] == "not":
                    nd[key] = ("not", tuple(sorted(set(prev) | {v for v, _ in arms})))
                nenv = tuple(sorted(nd.items(), key=repr))
            else:
                nenv = env2
            out.append((s_, nenv))
        return out

    def must_pass(self, start_blocks, through, targets=None):
        """True iff every feasible path from any of start_blocks to a block in `targets` (default:
        normal returns) passes through a block in `through`. Start blocks are not counted as
        'through' unless listed. Paths are pruned with constants assigned to flag locals.
        Returns (ok, witness_path or None)."""
        return self.must_pass_edges(start_blocks, through, (), targets)

    def must_pass_assuming(self, switch_block, variant, through, targets=None):
        """must_pass from a match, for the value it matches on being `variant` - also when the same value is matched on again further down
        (`if matches!(event, A) {..}; ..; if matches!(event, B(_)) {..}`): every later match on it follows the same variant."""
        si = self.switch_info(switch_block)
        ve = self.variant_edges(switch_block) or {}
        idx = {nm: k for k, nm in ((si or {}).get("names") or {}).items()}.get(variant)
        t = self.term(switch_block)
        p = op_place(t["discr"]) if t.get("k") == "switch" else None
        dk = self._disc_map().get(p[0]) if p is not None and not p[1] else None
        tgt = ve.get(variant, ve.get("_"))
        if tgt is None:
            return False, None
        if dk is None or idx is None:
            return self.must_pass_edges([tgt], through, (), targets)
        return self.must_pass_edges([tgt], through, (), targets, env0=((("D", dk[0], dk[1]), ("is", idx)),))

    def reachable_assuming(self, switch_block, variant, avoid=(), cap=60000):
        """Blocks that can run after `switch_block` has found its value to be `variant` - also through later matches on the same unchanged value,
        which follow the same variant (an or-pattern arm `A | B | C => helper(marker)` whose helper matches on the marker again)."""
        si = self.switch_info(switch_block)
        ve = self.variant_edges(switch_block) or {}
        idx = {nm: k for k, nm in ((si or {}).get("names") or {}).items()}.get(variant)
        t = self.term(switch_block)
        p = op_place(t["discr"]) if t.get("k") == "switch" else None
        dk = self._disc_map().get(p[0]) if p is not None and not p[1] else None
        tgt = ve.get(variant)
        if tgt is None:
            return set()
        if dk is None or idx is None:
            return self.reachable_from([tgt], avoid=set(avoid))
        env0 = ((("D", dk[0], dk[1]), ("is", idx)),)
        seen, blocks, dq = set(), set(), deque([(tgt, env0)])
        while dq and cap > 0:
            cap -= 1
            b, env = dq.popleft()
            if (b, env) in seen or b in avoid or self.is_cleanup(b):
                continue
            seen.add((b, env))
            blocks.add(b)
            for s_, e_ in self._edge_envs(b, env):
                dq.append((s_, e_))
        if cap <= 0:
            return self.reachable_from([tgt], avoid=set(avoid))
        return blocks

    def must_pass_edges(self, start_blocks, through, discharge_edges=(), targets=None, env0=()):
        """Like must_pass, but a path is also discharged by traversing one of discharge_edges
        (pairs (a, s))."""
        through = set(through)
        discharge = set(discharge_edges)
        targets = set(self.exits() if targets is None else targets)
        parent = {}
        dq = deque()
        for s in start_blocks:
            if s in through:
                continue
            st = (s, tuple(env0))
            if st not in parent:
                parent[st] = None
                dq.append(st)
        budget = 120000
        while dq:
            budget -= 1
            if budget <= 0:
                # state space too large for the path conditions: fall back to the search without discriminant knowledge
                return self._must_pass_flags_only(start_blocks, through, discharge, targets)
            st = dq.popleft()
            b, env = st
            if b in targets and (parent[st] is not None or b in start_blocks):
                path = []
                x = st
                while x is not None:
                    path.append(x[0])
                    x = parent[x]
                # the witness may rely on a match whose outcome is a known constant or variant built just before (`Ok(())` from a closure handed to a helper, then `?`)
                if len(path) > 1 and not (self.reachable_cp([s_ for s_ in start_blocks if s_ not in through], cap=20000, avoid=through, cut=discharge) & targets):
                    return True, None
                return False, list(reversed(path))
            for s, env2 in self._edge_envs(b, env):
                if s in through or (b, s) in discharge:
                    continue
                ns = (s, env2)
                if ns in parent:
                    continue
                parent[ns] = st
                dq.append(ns)
        return True, None

    # -- small constant propagation along paths (values carried through tuples / Option / struct aggregates) ----------------------
    @staticmethod
    def _fpath(projs):
        out = []
        for x in projs:
            if x == "*":
                continue
            if isinstance(x, list) and x[0] == "f":
                out.append(x[1])
            elif isinstance(x, list) and x[0] == "d":
                continue
            else:
                return None
        return tuple(out)

    def _sym_candidates(self):
        """bool results of calls that are copied or packed into a tuple before they are tested: the same unknown value may then be tested more than once
        (`let more = q.has_data(); if !more {..}; (action, more)` and the caller's `if more {..}`)"""
        if getattr(self, "_symc", None) is None:
            dests = {}
            for b_ in range(self.n):
                t_ = self.term(b_)
                if t_["k"] == "call" and t_.get("dest") is not None and not t_["dest"][1]:
                    dl = t_["dest"][0]
                    if dl < len(self.locals) and self.locals[dl] == "bool":
                        dests[dl] = dests.get(dl, 0) + 1
            used = set()
            for i, j, p_, rv, line in self.assigns():
                ops = [rv[1]] if rv[0] == "use" else (rv[2] if rv[0] == "agg" else [])
                for o in ops:
                    if o[0] in ("c", "m") and not o[1][1]:
                        used.add(o[1][0])
            # ... or tested directly in more than one place (`let has_host = flags.contains(H); if has_host {..} .. if has_host {..}`)
            tested = defaultdict(set)
            for b_ in range(self.n):
                t_ = self.term(b_)
                if t_["k"] == "switch":
                    p_ = op_place(t_["discr"])
                    if p_ is not None and not p_[1]:
                        tested[p_[0]].add(b_)
            self._symc = {l_ for l_ in dests if l_ in used or len(tested.get(l_, ())) >= 2}
        return self._symc

    def _pure_question(self, t):
        """identity of a call whose answer depends on nothing but its (unchanged) arguments: today `contains` of a flag set (bitflags)"""
        cal = t.get("callee") or {}
        if cal.get("name") != "contains" or not (cal.get("self_adt") or "").endswith("Flags") or not t.get("dest") or t["dest"][1]:
            return None
        dl = t["dest"][0]
        if dl >= len(self.locals) or self.locals[dl] != "bool":
            return None
        args = []
        for a in t.get("args", []):
            if a[0] == "k":
                args.append(("const", str(a[1].get("item") or a[1].get("v"))))
                continue
            pl = a[1]
            if pl[1]:
                return None
            loc = pl[0]
            for _ in range(4):
                d_ = self.single_def(loc)
                if d_ is not None and d_[0] == "assign" and d_[3][0] == "ref" and not d_[3][1] and not d_[3][2][1]:
                    loc = d_[3][2][0]
                elif d_ is not None and d_[0] == "assign" and d_[3][0] == "use" and d_[3][1][0] in ("c", "m") and not d_[3][1][1][1]:
                    loc = d_[3][1][1][0]
                else:
                    break
            args.append(("loc", loc))
        return ("pure", cal.get("def"), tuple(args))

    def _cp_transfer(self, b, env, sym=False):
        d = dict(env)

        def kill(loc):
            for k in [k for k in d if k[0] == loc]:
                d.pop(k, None)
            if sym:
                # what a pure question about this local answered is no longer known
                def about(id_):
                    return isinstance(id_, tuple) and id_ and id_[0] == "pure" and ("loc", loc) in id_[2]
                for k in [k for k, v in d.items() if (k[0] == "K" and about(k[1])) or (isinstance(v, tuple) and len(v) == 2 and v[0] == "sym" and about(v[1]))]:
                    d.pop(k, None)

        def const_of(op):
            if op[0] == "k":
                v = op[1].get("b") if "b" in op[1] else op[1].get("v")
                if isinstance(v, (bool, int)):
                    return v
                if isinstance(v, str) and v.lstrip("-").isdigit():
                    return int(v)
            return None
        for s in self.stmts(b):
            if s[0] != "A":
                continue
            loc, pr = s[1]
            rv = s[2]
            if pr:
                fp = self._fpath(pr)
                if fp is None:
                    kill(loc)
                else:
                    for k in [k for k in d if k[0] == loc and k[1] != "variant" and k[1][:len(fp)] == fp]:
                        d.pop(k, None)
                    if rv[0] == "use":
                        c = const_of(rv[1])
                        if c is not None:
                            d[(loc, fp)] = c
                continue
            kill(loc)
            if rv[0] == "use":
                c = const_of(rv[1])
                if c is not None:
                    d[(loc, ())] = c
                elif rv[1][0] in ("c", "m"):
                    src, spr = rv[1][1]
                    fp = self._fpath(spr)
                    if fp is not None:
                        for (l2, p2), v2 in list(d.items()):
                            if l2 == src and p2 != "variant" and p2[:len(fp)] == fp:
                                rest_ = p2[len(fp):]
                                if rest_ == ("#v",):
                                    # the variant of a value that was stored inside another one (`Poll::Ready(res)`, a pair) and is taken out again
                                    d[(loc, "variant")] = v2
                                else:
                                    d[(loc, rest_)] = v2
                        if not fp and (src, "variant") in d:
                            d[(loc, "variant")] = d[(src, "variant")]
            elif rv[0] == "agg":
                meta = rv[1]
                if "vidx" in meta:
                    d[(loc, "variant")] = meta["vidx"]
                for k_, o in enumerate(rv[2]):
                    c = const_of(o)
                    if c is not None:
                        d[(loc, (k_,))] = c
                    elif o[0] in ("c", "m") and (not o[1][1] or o[1][1] == ["*"]):
                        for (l2, p2), v2 in list(d.items()):
                            if l2 == o[1][0] and p2 != "variant":
                                d[(loc, (k_,) + p2)] = v2
                            elif l2 == o[1][0] and p2 == "variant":
                                d[(loc, (k_, "#v"))] = v2
            elif rv[0] == "disc":
                src, spr = rv[1]
                if not [x for x in spr if x != "*"] and (src, "variant") in d:
                    d[(loc, ())] = d[(src, "variant")]
            elif rv[0] == "bin":
                def val(o):
                    c0 = const_of(o)
                    if c0 is not None:
                        return c0
                    if o[0] in ("c", "m"):
                        fp0 = self._fpath(o[1][1])
                        if fp0 is not None:
                            return d.get((o[1][0], fp0))
                    return None
                a_, b_ = val(rv[2]), val(rv[3])
                if isinstance(a_, (bool, int)) and isinstance(b_, (bool, int)):
                    a_i, b_i = int(a_), int(b_)
                    res = {"Eq": a_i == b_i, "Ne": a_i != b_i, "Lt": a_i < b_i, "Le": a_i <= b_i, "Gt": a_i > b_i, "Ge": a_i >= b_i}.get(rv[1])
                    if res is None and rv[1] in ("BitAnd", "BitOr", "BitXor") and isinstance(a_, bool) and isinstance(b_, bool):
                        res = {"BitAnd": a_ and b_, "BitOr": a_ or b_, "BitXor": a_ != b_}[rv[1]]
                    if res is not None:
                        d[(loc, ())] = res
            elif rv[0] == "un" and rv[1] == "Not":
                o = rv[2]
                if o[0] in ("c", "m") and not o[1][1] and (o[1][0], ()) in d and isinstance(d[(o[1][0], ())], bool):
                    d[(loc, ())] = not d[(o[1][0], ())]
            elif rv[0] == "ref":
                # an assumption about a field of a parameter at entry (`assume` of reachable_cp) is what a reference to that field points at
                fpr = self._fpath(rv[2][1])
                base = rv[2][0]
                if fpr and any(k[0] == "ASSUME" for k in [k0[0] for k0 in d if isinstance(k0[0], tuple)]):
                    # (`let S { a, b, .. } = &mut self;` goes through one reference to the whole of `self`)
                    for _ in range(3):
                        sd = self.single_def(base)
                        if sd is not None and sd[0] == "assign" and sd[3][0] == "ref" and not [x for x in sd[3][2][1] if x != "*"]:
                            base = sd[3][2][0]
                        else:
                            break
                if fpr is not None and (("ASSUME", base), fpr) in d:
                    d[(loc, ())] = d[(("ASSUME", base), fpr)]
                elif fpr and isinstance(d.get((rv[2][0], fpr)), (bool, int)):
                    # a reference to a component whose value is known stands for that value (`Int(n) => .. *n ..` with n: &i64)
                    d[(loc, ())] = d[(rv[2][0], fpr)]
                if rv[1]:
                    kill(rv[2][0])
        t = self.term(b)
        if t["k"] == "call" and t.get("dest") is not None:
            dl = t["dest"][0]
            kill(dl)
            # what the `?` machinery does to a value whose variant is known (library facts about core::ops::Try for Result and Option)
            nm = (t.get("callee") or {}).get("name")
            ty = self.locals[dl] if dl < len(self.locals) and not t["dest"][1] else ""
            if nm == "from_residual" and not t["dest"][1]:
                if ty.startswith("core::result::Result<"):
                    d[(dl, "variant")] = 1
                elif ty.startswith("core::option::Option<"):
                    d[(dl, "variant")] = 0
            elif nm == "branch" and not t["dest"][1] and t.get("args"):
                a = t["args"][0]
                if a[0] in ("c", "m") and not a[1][1] and (a[1][0], "variant") in d:
                    av = d[(a[1][0], "variant")]
                    aty = self.locals[a[1][0]] if a[1][0] < len(self.locals) else ""
                    if aty.startswith("core::result::Result<"):
                        d[(dl, "variant")] = 0 if av == 0 else 1
                    elif aty.startswith("core::option::Option<"):
                        d[(dl, "variant")] = 0 if av == 1 else 1
            pure_id = self._pure_question(t) if sym and not t["dest"][1] else None
            if pure_id is not None:
                # the same question about the same unchanged value has the same answer wherever it is asked (`flags.contains(HAS_HOST)` twice)
                d[(dl, ())] = ("sym", pure_id)
            elif sym and not t["dest"][1] and dl in self._sym_candidates():
                # an unknown bool that is carried around: every copy of it answers a test the same way
                for k in [k for k, v in d.items() if v == ("sym", b) or k == ("K", b)]:
                    d.pop(k, None)
                d[(dl, ())] = ("sym", b)
        if sym:
            held = {v[1] for v in d.values() if isinstance(v, tuple) and v and v[0] == "sym"}
            for k in [k for k in d if k[0] == "K" and k[1] not in held]:
                d.pop(k, None)
        return d

    def cp_successors(self, b, env):
        """[(successor, environment on that edge)] of block b entered with `env`, under constant propagation: constants, known variants and the
        answers already given for a carried bool decide the branch."""
        d = self._cp_transfer(b, env, sym=True)
        t = self.term(b)
        succs = self.succ[b]
        learn = None
        val_id = None
        relate = None
        arm_vals = None
        if t["k"] == "switch":
            p_ = op_place(t["discr"])
            if p_ is not None and not p_[1] and (p_[0], ()) not in d:
                # `x == K` (or `!=`) computed in this block and tested here: each answer says something about x, which a later `match x` must respect
                for s_ in self.stmts(b):
                    if s_[0] == "A" and s_[1] == [p_[0], []] and s_[2][0] == "bin" and s_[2][1] in ("Eq", "Ne"):
                        a_, b2 = s_[2][2], s_[2][3]
                        if a_[0] == "k":
                            a_, b2 = b2, a_
                        kv = None
                        if b2[0] == "k":
                            kv = b2[1].get("b") if "b" in b2[1] else b2[1].get("v")
                            kv = int(kv) if isinstance(kv, (bool, int)) or (isinstance(kv, str) and kv.lstrip("-").isdigit()) else None
                        if kv is not None and a_[0] in ("c", "m") and not a_[1][1] and len(t["arms"]) == 1 and int(t["arms"][0][0]) == 0:
                            xs = [a_[1][0]]
                            # the compared operand is usually a fresh copy of the named value: what is learnt holds for that value
                            for s2 in self.stmts(b):
                                if s2[0] == "A" and s2[1] == [xs[-1], []] and s2[2][0] == "use" and s2[2][1][0] in ("c", "m") and not s2[2][1][1][1]:
                                    xs.append(s2[2][1][1][0])
                            relate = (xs, kv, s_[2][1] == "Eq", t["arms"][0][1], t["otherwise"])
                # a match on a value some constants of which were excluded before
                ne_ = d.get((p_[0], ("#ne",)))
                if ne_:
                    keep = [tb for v_, tb in t["arms"] if (int(v_) if isinstance(v_, str) else v_) not in ne_]
                    succs = list(dict.fromkeys(keep + [t["otherwise"]]))
                # ... and a match on an integer says which one it is on each arm (`match tag { UPDATE => .., REMOVE | CLEAR => .. }; if tag == CLEAR ..`)
                if relate is None and p_[0] < len(self.locals) and self.locals[p_[0]] in ("u8", "u16", "u32", "u64", "usize", "i8", "i16", "i32", "i64", "isize", "char"):
                    by_t = defaultdict(list)
                    for v_, tb in t["arms"]:
                        by_t[tb].append(int(v_) if isinstance(v_, str) else v_)
                    # the matched local is usually a fresh copy of the named value
                    xs = [p_[0]]
                    for s2 in self.stmts(b):
                        if s2[0] == "A" and s2[1] == [xs[-1], []] and s2[2][0] == "use" and s2[2][1][0] in ("c", "m") and not s2[2][1][1][1]:
                            xs.append(s2[2][1][1][0])
                    arm_vals = (xs, {tb: vs[0] for tb, vs in by_t.items() if len(vs) == 1 and tb != t["otherwise"]}, sorted({v for vs in by_t.values() for v in vs}), t["otherwise"])
            fp_ = self._fpath(p_[1]) if p_ is not None and p_[1] else None
            if p_ is not None and fp_ and (p_[0], fp_) in d and isinstance(d[(p_[0], fp_)], (bool, int)):
                # a match on a component of a pair whose parts are known (`match (*has_attr, n) { (true, 0 | 1) => .. }`)
                val = d[(p_[0], fp_)]
                val = int(val) if isinstance(val, bool) else val
                hit = [tb for v_, tb in t["arms"] if (int(v_) if isinstance(v_, str) else v_) == val]
                succs = hit[:1] if hit else [t["otherwise"]]
            if p_ is not None and not p_[1] and (p_[0], ()) in d:
                val = d[(p_[0], ())]
                if isinstance(val, tuple) and val and val[0] == "sym":
                    val_id = val[1]
                    known = d.get(("K", val[1]))
                    if known is None:
                        # first test of this value on the path: both ways are open, and each remembers its answer
                        arms_ = [((int(v_) if isinstance(v_, str) else v_), tb) for v_, tb in t["arms"]]
                        learn = {}
                        for v_, tb in arms_:
                            learn.setdefault(tb, v_)
                        if len(arms_) == 1 and arms_[0][0] in (0, 1) and t["otherwise"] not in learn:
                            learn[t["otherwise"]] = 1 - arms_[0][0]
                        val = None
                    else:
                        val = known
                if val is not None:
                    val = int(val) if isinstance(val, bool) else val
                    hit = [tb for v_, tb in t["arms"] if (int(v_) if isinstance(v_, str) else v_) == val]
                    succs = hit[:1] if hit else [t["otherwise"]]
        env2 = frozenset(d.items())
        out = []
        for s_ in succs:
            if self.is_cleanup(s_):
                continue
            if learn is not None and s_ in learn:
                d2 = dict(d)
                d2[("K", val_id)] = learn[s_]
                out.append((s_, frozenset(d2.items())))
            elif arm_vals is not None and (s_ in arm_vals[1] or s_ == arm_vals[3]):
                d2 = dict(d)
                for x_ in arm_vals[0]:
                    if s_ in arm_vals[1]:
                        d2[(x_, ())] = arm_vals[1][s_]
                    else:
                        d2[(x_, ("#ne",))] = tuple(sorted(set(d2.get((x_, ("#ne",)), ())) | set(arm_vals[2])))
                out.append((s_, frozenset(d2.items())))
            elif relate is not None and relate[3] != relate[4] and s_ in (relate[3], relate[4]):
                xs, kv, is_eq, f_edge, t_edge = relate
                holds = (s_ == t_edge) == is_eq      # on this edge `x == K` holds
                d2 = dict(d)
                for x_ in xs:
                    if holds:
                        d2[(x_, ())] = kv
                    else:
                        d2[(x_, ("#ne",))] = tuple(sorted(set(d2.get((x_, ("#ne",)), ())) | {kv}))
                out.append((s_, frozenset(d2.items())))
            else:
                out.append((s_, env2))
        return out

    def reachable_cp(self, start_blocks, cap=40000, avoid=(), cut=(), assume=None):
        """Blocks reachable from start_blocks when constants and known variants (through aggregates, moves, `?`) decide the matches they reach.
        `assume`: what is taken to hold at the start - {local: constant} and {("field", parameter, (field index, ..)): constant}."""
        seen, blocks = set(), set()
        env0 = frozenset()
        if assume:
            env0 = frozenset((((("ASSUME", k[1]), tuple(k[2])) if isinstance(k, tuple) else (k, ())), v) for k, v in assume.items())
        dq = deque((s_, env0) for s_ in start_blocks if s_ not in avoid)
        while dq and cap > 0:
            cap -= 1
            b, env = dq.popleft()
            if (b, env) in seen or b in avoid:
                continue
            seen.add((b, env))
            blocks.add(b)
            for s_, e_ in self.cp_successors(b, env):
                if (b, s_) not in cut:
                    dq.append((s_, e_))
        if cap <= 0:
            if avoid or cut:
                seen_b, st = set(), [s_ for s_ in start_blocks if s_ not in avoid]
                while st:
                    x = st.pop()
                    if x in seen_b or x in avoid:
                        continue
                    seen_b.add(x)
                    st.extend(s_ for s_ in self.succ[x] if not self.is_cleanup(s_) and (x, s_) not in cut)
                return seen_b
            return self.reachable_from(list(start_blocks))
        return blocks

    def eval_const(self, args, cap=20000, want_option=False):
        """Evaluate this (small, pure) function on constant arguments: {parameter index: constant} -> set of possible results (None = not a constant).
        However the function is written - `==` chains, `match`, `matches!`, helper calls spliced in - only its value on the given input counts."""
        out = set()
        # a key may also be (parameter, path): ("variant" for the variant index of an enum argument, (0,) for its payload - also behind a reference)
        env0 = tuple(sorted((((i if isinstance(i, tuple) else (i, ())), v) for i, v in args.items()), key=repr))
        seen = set()
        dq = deque([(0, env0)])
        exits = set(self.exits())
        while dq and cap > 0:
            cap -= 1
            b, env = dq.popleft()
            if (b, env) in seen:
                continue
            seen.add((b, env))
            d = self._cp_transfer(b, env)
            if b in exits:
                if want_option:
                    # an Option result: ("None",) / ("Some", constant payload or None when it is not a constant)
                    v_ = d.get((0, "variant"))
                    out.add(None if v_ is None else ("None",) if v_ == 0 else ("Some", d.get((0, (0,)))))
                else:
                    out.add(d.get((0, ())))
                continue
            t = self.term(b)
            succs = self.succ[b]
            if t["k"] == "switch":
                p_ = op_place(t["discr"])
                if p_ is not None and not p_[1] and (p_[0], ()) in d:
                    val = d[(p_[0], ())]
                    val = int(val) if isinstance(val, bool) else val
                    hit = [tb for v_, tb in t["arms"] if (int(v_) if isinstance(v_, str) else v_) == val]
                    succs = hit[:1] if hit else [t["otherwise"]]
            env2 = tuple(sorted(d.items(), key=repr))
            for s_ in succs:
                if not self.is_cleanup(s_):
                    dq.append((s_, env2))
        if cap <= 0:
            out.add(None)
        return out

    def variants_at(self, start_blocks, target_block, operand, cap=40000):
        """The set of variant indices the enum value `operand` can hold on arrival at the terminator of `target_block`, over the paths from
        start_blocks - however it was put together (built in a helper from an Option that was itself built from the matched value, ..). None in the
        set = a path on which the variant is not known."""
        out = set()
        if operand[0] not in ("c", "m") or operand[1][1]:
            return {None}
        loc = operand[1][0]
        seen = set()
        dq = deque((s_, frozenset()) for s_ in start_blocks)
        while dq and cap > 0:
            cap -= 1
            b, env = dq.popleft()
            if (b, env) in seen:
                continue
            seen.add((b, env))
            if b == target_block:
                d0 = dict(env)
                # the statements of the target block run before its terminator
                d0 = self._cp_transfer(b, env)
                out.add(d0.get((loc, "variant")))
                continue
            d = self._cp_transfer(b, env)
            t = self.term(b)
            succs = self.succ[b]
            if t["k"] == "switch":
                p_ = op_place(t["discr"])
                if p_ is not None and not p_[1] and (p_[0], ()) in d:
                    val = d[(p_[0], ())]
                    val = int(val) if isinstance(val, bool) else val
                    hit = [tb for v_, tb in t["arms"] if (int(v_) if isinstance(v_, str) else v_) == val]
                    succs = hit[:1] if hit else [t["otherwise"]]
            env2 = frozenset(d.items())
            for s_ in succs:
                if not self.is_cleanup(s_):
                    dq.append((s_, env2))
        if cap <= 0:
            out.add(None)
        return out

    def const_values(self, start_blocks, target_block, operand, cap=40000):
        """The set of constant values `operand` can have on arrival at the terminator of `target_block`, over the paths from start_blocks (values
        are followed through tuples, Option / struct aggregates, moves and matches on them). None in the set = a path on which it is not a known constant."""
        out = set()
        seen = set()
        dq = deque()
        for s_ in start_blocks:
            dq.append((s_, ()))
        while dq and cap > 0:
            cap -= 1
            b, env = dq.popleft()
            if (b, env) in seen:
                continue
            seen.add((b, env))
            d = self._cp_transfer(b, env)
            if b == target_block:
                if operand[0] == "k":
                    v = operand[1].get("b") if "b" in operand[1] else operand[1].get("v")
                    out.add(v)
                else:
                    fp = self._fpath(operand[1][1])
                    out.add(d.get((operand[1][0], fp)) if fp is not None else None)
                continue
            t = self.term(b)
            succs = self.succ[b]
            if t["k"] == "switch":
                p_ = op_place(t["discr"])
                if p_ is not None and not p_[1] and (p_[0], ()) in d:
                    val = d[(p_[0], ())]
                    val = int(val) if isinstance(val, bool) else val
                    hit = [tb for v_, tb in t["arms"] if (int(v_) if isinstance(v_, str) else v_) == val]
                    succs = hit[:1] if hit else [t["otherwise"]]
            env2 = tuple(sorted(d.items(), key=repr))
            for s_ in succs:
                if not self.is_cleanup(s_):
                    dq.append((s_, env2))
        if cap <= 0:
            out.add(None)
        return out

    def _must_pass_flags_only(self, start_blocks, through, discharge, targets):
        parent = {}
        dq = deque()
        for s in start_blocks:
            if s in through:
                continue
            st = (s, ())
            if st not in parent:
                parent[st] = None
                dq.append(st)
        budget = 3000000
        while dq:
            budget -= 1
            if budget <= 0:
                break
            st = dq.popleft()
            b, env = st
            if b in targets and (parent[st] is not None or b in start_blocks):
                path = []
                x = st
                while x is not None:
                    path.append(x[0])
                    x = parent[x]
                return False, list(reversed(path))
            env2 = self._env_after(b, env)
            for s in self._feasible_succ(b, env2):
                if s in through or (b, s) in discharge:
                    continue
                ns = (s, env2)
                if ns in parent:
                    continue
                parent[ns] = st
                dq.append(ns)
        if budget <= 0:
            # too many combinations of flags: decide without them (every CFG path counts - an over-approximation that can only add a report)
            seen_b, st_ = set(), [s for s in start_blocks if s not in through]
            par = {s: None for s in st_}
            while st_:
                x = st_.pop()
                if x in seen_b:
                    continue
                seen_b.add(x)
                if x in targets and (par[x] is not None or x in start_blocks):
                    path = []
                    while x is not None:
                        path.append(x)
                        x = par[x]
                    return False, list(reversed(path))
                for s in self.succ[x]:
                    if s in through or (x, s) in discharge or self.is_cleanup(s) or s in seen_b:
                        continue
                    par.setdefault(s, x)
                    st_.append(s)
        return True, None

    def bool_edges(self, call):
        """(true_block, false_block, switch_block) of a switch directly on the bool result of `call`."""
        for e in self.bool_edges_all(call):
            return e
        return None

    def _narrow(self, op, hops=6):
        """Follow copies and projections of freshly built tuples/aggregates: `(a, b).1` is `b`."""
        while hops > 0:
            hops -= 1
            p = op_place(op)
            if p is None:
                return op
            d = self.single_def(p[0])
            if d is None or d[0] != "assign":
                return op
            rv = d[3]
            elems = [x for x in p[1] if x != "*"]
            if rv[0] == "use" and not elems:
                op = rv[1]
                continue
            if rv[0] == "agg" and len(elems) == 1 and isinstance(elems[0], list) and elems[0][0] == "f" and isinstance(elems[0][1], int) and elems[0][1] < len(rv[2]):
                op = rv[2][elems[0][1]]
                continue
            return op
        return op

    def bool_switches_from(self, call):
        """Every (true_block, false_block, switch_block) of a two-way switch whose scrutinee derives (through copies,
        tuple components and `!`) from the bool returned by `call`."""
        out = []
        for b in range(self.n):
            if self.is_cleanup(b):
                continue
            t = self.term(b)
            if t["k"] != "switch" or op_place(t["discr"]) is None:
                continue
            src = self.sources(self._narrow(t["discr"]))
            if not any(x[0] == "call" and x[1] is call for x in src):
                continue
            if any(x[0] == "call" and x[1] is not call for x in src) or any(x[0] == "bin" for x in src):
                continue
            arms = {int(v) if isinstance(v, str) else v: tb for v, tb in t["arms"]}
            if set(arms.keys()) == {0}:
                tr, fa = t["otherwise"], arms[0]
            elif set(arms.keys()) == {1}:
                tr, fa = arms[1], t["otherwise"]
            else:
                continue
            if sum(1 for x in src if x[0] == "un" and x[1] == "Not") % 2:
                tr, fa = fa, tr
            out.append((tr, fa, b))
        return out

    def bool_edges_all(self, call):
        """Every (true_block, false_block, switch_block) of a switch on the bool result of `call`."""
        for b in range(self.n):
            if self.is_cleanup(b):
                continue
            t = self.term(b)
            if t["k"] != "switch":
                continue
            p = op_place(t["discr"])
            if p is None or p[1]:
                continue
            neg = False
            loc = p[0]
            hops = 0
            while hops < 6:
                hops += 1
                d = self.single_def(loc)
                if d is None:
                    break
                if d[0] == "call":
                    if d[2] is call or (d[2].block == call.block):
                        arms = {int(v) if isinstance(v, str) else v: tb for v, tb in t["arms"]}
                        if set(arms.keys()) == {0}:
                            tr, fa = t["otherwise"], arms[0]
                        elif set(arms.keys()) == {1}:
                            tr, fa = arms[1], t["otherwise"]
                        else:
                            break
                        if neg:
                            tr, fa = fa, tr
                        yield tr, fa, b
                    break
                rv = d[3]
                if rv[0] == "use" and op_place(rv[1]) is not None and not op_place(rv[1])[1]:
                    loc = op_place(rv[1])[0]
                    continue
                if rv[0] == "un" and rv[1] == "Not" and op_place(rv[2]) is not None and not op_place(rv[2])[1]:
                    neg = not neg
                    loc = op_place(rv[2])[0]
                    continue
                break

    def option_edges_on_field(self, adt_suffix, field):
        """Switches on the discriminant of an Option stored in (or borrowed from) the given field:
        list of (switch_block, some_target, none_target)."""
        out = []
        for b in range(self.n):
            if self.is_cleanup(b) or self.term(b)["k"] != "switch":
                continue
            si = self.switch_info(b)
            if si["kind"] != "disc" or not (si.get("adt") or "").endswith("option::Option"):
                continue
            path = self.resolve(si["place"])
            if path.has_field(adt_suffix, field):
                ve = self.variant_edges(b)
                out.append((b, ve.get("Some"), ve.get("None")))
        return out

    def variant_assumption(self, switch_info, variant):
        """environment entry saying `the place this switch matches on holds <variant>` (for path_avoiding(.., assume=..)); None when the place is
        matched on only once (nothing to correlate)"""
        p = op_place(self.term(switch_info["block"])["discr"])
        if p is None or p[1]:
            return None
        dk = self._disc_map().get(p[0])
        if dk is None:
            return None
        for v, nm in (switch_info.get("names") or {}).items():
            if nm == variant:
                return ((("D", dk[0], dk[1]), ("is", int(v) if isinstance(v, str) else v)),)
        return None

    def path_avoiding(self, src_succs, dst, avoid, assume=None):
        """A path (list of blocks) from one of src_succs to dst avoiding `avoid`, or None. `assume`: facts the path starts with (variant_assumption)."""
        avoid = set(avoid)
        dst = set(dst)
        plain = self._path_plain(src_succs, dst, avoid)
        if plain is None:
            return None
        parent = {}
        dq = deque()
        env0 = tuple(sorted(assume, key=repr)) if assume else ()
        for s in src_succs:
            if s in avoid:
                continue
            st = (s, env0)
            if st not in parent:
                parent[st] = None
                dq.append(st)
        budget = 60000
        # (paths that contradict themselves - two matches on the same unchanged value taking different arms, a flag set to a constant and then
        # tested the other way - are not paths of the program)
        while dq:
            st = dq.popleft()
            b, env = st
            if b in dst:
                path = []
                x = st
                while x is not None:
                    path.append(x[0])
                    x = parent[x]
                # a second, independent over-approximation of the feasible paths (constants and variants carried through aggregates, moves and `?`,
                # e.g. the Err a spliced helper returns and the caller's `?` passes on): a destination neither reaches is unreachable
                if not (dst & self.reachable_cp(list(src_succs), cap=30000, avoid=avoid)):
                    return None
                return list(reversed(path))
            for s, env2 in self._edge_envs(b, env):
                ns = (s, env2)
                if s in avoid or ns in parent:
                    continue
                parent[ns] = st
                dq.append(ns)
            budget -= 1
            if budget <= 0:
                # too many distinct path conditions: answer with the path found without them (an over-approximation, never an under-approximation)
                return plain
        return None

    def _path_plain(self, src_succs, dst, avoid):
        parent = {}
        dq = deque()
        for s in src_succs:
            if s in avoid:
                continue
            parent[s] = None
            dq.append(s)
        while dq:
            b = dq.popleft()
            if b in dst:
                path = []
                x = b
                while x is not None:
                    path.append(x)
                    x = parent[x]
                return list(reversed(path))
            for s in self.succ[b]:
                if s in avoid or s in parent:
                    continue
                parent[s] = b
                dq.append(s)
        return None


# ------------------------------------------------------------------------------------------
# interprocedural helpers


class Program:
    """A set of crates analysed together; resolves local callees across them."""

    def __init__(self, facts, crate_names):
        self.facts = facts
        self.crates = {n: facts.crate(n) for n in crate_names}
        self._may = {}
        self._must = {}

    def body_of_call(self, call):
        d = call.callee.get("def")
        k = call.callee.get("krate")
        if not d or k not in self.crates:
            return None
        c = self.crates[k]
        if d in c.by_def:
            return c.body(d)
        return None

    def callee_bodies(self, call):
        """Bodies possibly run by this call: the callee itself, plus closures/coroutines passed
        as generic arguments, plus (for a call to an async fn) its coroutine body."""
        out = []
        b = self.body_of_call(call)
        if b is not None:
            out.append(b)
            for cb in b.crate.closures_of(b.defpath):
                if cb.meta.get("coroutine") and cb.defpath == b.defpath + "::{closure#0}":
                    out.append(cb)
        for cd in call.callee.get("closure_args", ()):
            for c in self.crates.values():
                if cd in c.by_def:
                    out.append(c.body(cd))
        return out

    def may_reach_call(self, body, pred, depth=3, _seen=None):
        """Does some path of `body` (or of local callees up to `depth`) perform a call with pred?"""
        key = (body.defpath, id(pred), depth)
        if key in self._may:
            return self._may[key]
        _seen = _seen or set()
        if body.defpath in _seen:
            return False
        _seen = _seen | {body.defpath}
        res = False
        for c in body.calls:
            if pred(c):
                res = True
                break
            if depth > 0:
                for cb in self.callee_bodies(c):
                    if self.may_reach_call(cb, pred, depth - 1, _seen):
                        res = True
                        break
                if res:
                    break
        self._may[key] = res
        return res

    def blocks_calling(self, body, pred, depth=3):
        """Blocks of `body` whose call satisfies pred directly or via local callees (may)."""
        out = set()
        for c in body.calls:
            if pred(c):
                out.add(c.block)
            elif depth > 0:
                for cb in self.callee_bodies(c):
                    if self.may_reach_call(cb, pred, depth - 1):
                        out.add(c.block)
                        break
        return out

    def must_call(self, body, pred, depth=3, _seen=None):
        """Every normal path entry->return of body passes a call with pred (or a local callee that must)."""
        key = (body.defpath, id(pred), depth)
        if key in self._must:
            return self._must[key]
        _seen = _seen or set()
        if body.defpath in _seen:
            return False
        _seen = _seen | {body.defpath}
        through = set()
        for c in body.calls:
            if pred(c):
                through.add(c.block)
            elif depth > 0:
                b = self.body_of_call(c)
                if b is not None and self.must_call(b, pred, depth - 1, _seen):
                    through.add(c.block)
        if 0 in through:
            ok = True
        else:
            ok, _ = body.must_pass([0], through)
            if not body.exits():
                ok = bool(through)
        self._must[key] = ok
        return ok

    def blocks_must_calling(self, body, pred, depth=3):
        out = set()
        for c in body.calls:
            if pred(c):
                out.add(c.block)
            elif depth > 0:
                b = self.body_of_call(c)
                if b is not None and self.must_call(b, pred, depth - 1):
                    out.add(c.block)
        return out


# ------------------------------------------------------------------------------------------
# decision tables


def path_str(body, path):
    s = body.root_name(path)
    for e in path.elems:
        if e[0] == "f":
            s += "." + e[2]
        elif e[0] == "d":
            s += "<" + e[1] + ">"
    return s


def decision_paths(body, start, stop, max_paths=20000, value_switch=None):
    """Enumerate acyclic paths from block `start` through switches. `stop(block)` says where a
    path ends (the block is included). Yields (constraints, end_block, blocks) where constraints
    is a dict place-string -> variant name (or value for integer/bool switches keyed by
    value_switch(body, switch_info) -> key or None to ignore)."""
    out = []
    stack = [(start, {}, (start,))]
    while stack:
        b, cons, trail = stack.pop()
        if len(out) > max_paths:
            raise RuntimeError("decision_paths: too many paths in %s" % body.defpath)
        if stop(b):
            out.append((cons, b, trail))
            continue
        t = body.term(b)
        if t["k"] == "switch":
            si = body.switch_info(b)
            if si["kind"] == "disc":
                key = path_str(body, body.resolve(si["place"]))
                edges = body.variant_edges(b)
                for name, tb in edges.items():
                    if key in cons and cons[key] != name:
                        continue
                    if tb in trail:
                        continue
                    nc = dict(cons)
                    nc[key] = name
                    stack.append((tb, nc, trail + (tb,)))
                # a switch with an `otherwise` that no variant maps to (unreachable) is ignored
                continue
            key = value_switch(body, si) if value_switch else None
            targets = list(si["raw_arms"].items()) + [("otherwise", si["otherwise"])]
            for v, tb in targets:
                if tb in trail:
                    continue
                nc = cons
                if key is not None:
                    if key in cons and cons[key] != v and not (v == "otherwise" or cons[key] == "otherwise"):
                        continue
                    nc = dict(cons)
                    nc[key] = v
                stack.append((tb, nc, trail + (tb,)))
            continue
        ss = body.succ[b]
        if not ss:
            out.append((cons, b, trail))
            continue
        for s in ss:
            if s in trail:
                continue
            stack.append((s, cons, trail + (s,)))
    return out


# ------------------------------------------------------------------------------------------
# describing operands and branch conditions


def _try_source(body, local):
    """`x?`: the local holding `Try::branch(x)` -> (operand x, name of x's success variant, name of its failure variant), else None"""
    if 1 <= local <= body.argc:
        return None
    d = body.single_def(local)
    if d is None or d[0] != "call":
        return None
    c = d[2]
    if c.via_name != "branch" or not c.args or "Try" not in (c.trait or c.defpath or ""):
        return None
    a = c.args[0]
    pl = op_place(a)
    ty = body.locals[pl[0]] if pl is not None and not pl[1] and pl[0] < len(body.locals) else ""
    if ty.startswith("core::option::Option<"):
        return a, "Some", "None"
    if ty.startswith("core::result::Result<"):
        return a, "Ok", "Err"
    return None


def describe_place(body, place, depth=0):
    local, projs = place
    if depth > 28:
        return "…"
    # `x?` reads like the pattern it stands for: branch(x)<Continue>.0 is x<Some>.0 / x<Ok>.0 (so `let v = x?;` and `if let Some(v) = x` describe alike)
    if len(projs) >= 2 and isinstance(projs[0], list) and projs[0][0] == "d" and projs[0][1] == "Continue" and isinstance(projs[1], list) and projs[1][0] == "f" and projs[1][1] == 0:
        ts = _try_source(body, local)
        if ts is not None and depth < 20:
            return describe_operand(body, ts[0], depth + 1) + "<%s>.0" % ts[1] + "".join(
                ("." + x[2]) if isinstance(x, list) and x[0] == "f" else ("<" + x[1] + ">") if isinstance(x, list) and x[0] == "d" else "" for x in projs[2:])
    fields = place_fields(place)
    variants = place_variants(place)
    base = None
    if not (1 <= local <= body.argc):
        d = body.single_def(local)
        # a named variable that is borrowed mutably is state that changes behind the borrow (`flags.remove(..)`):
        # its initialiser does not describe it
        if d is not None and d[0] == "assign" and d[3][0] == "use" and d[3][1][0] == "k" and local in body.mut_borrowed and body.var_name(local):
            d = None
        da = d
        hops_ = 4
        while da is not None and hops_ > 0 and da[0] == "assign" and projs and (
                (da[3][0] == "use" and da[3][1][0] in ("c", "m") and not da[3][1][1][1]) or (da[3][0] == "ref" and not da[3][2][1])):
            hops_ -= 1
            da = body.single_def(da[3][1][1][0] if da[3][0] == "use" else da[3][2][0])
        if da is not None and da is not d and da[0] == "assign" and da[3][0] == "agg" and isinstance(da[3][1], dict) and (da[3][1].get("closure") or da[3][1].get("coroutine")):
            d = da
        if d is not None and d[0] == "assign" and d[3][0] == "agg" and isinstance(d[3][1], dict) and (d[3][1].get("closure") or d[3][1].get("coroutine") or d[3][1].get("tuple")):
            # a component of a freshly built environment / tuple is the value that was put there: `(a, b).1` is b, the second captured variable of
            # the future built here is what was captured
            pj = [x for x in projs]
            while pj and pj[0] == "*":
                pj = pj[1:]
            if pj and isinstance(pj[0], list) and pj[0][0] == "f" and isinstance(pj[0][1], int) and pj[0][1] < len(d[3][2]) and depth < 24:
                base = describe_operand(body, d[3][2][pj[0][1]], depth + 1).lstrip("&")
                if base.startswith("mut "):
                    base = base[4:]
                projs = pj[1:]
                while projs and projs[0] == "*":
                    projs = projs[1:]
                d = None
        if d is not None:
            if d[0] == "assign":
                base = describe_rvalue(body, d[3], depth + 1)
            elif d[0] == "call":
                base = describe_call(body, d[2], depth + 1)
                # a named variable initialised by an argument-less constructor (`HashMap::new()`)
                # is better described by its name: it is state, not an expression
                if not d[2].args and body.var_name(local):
                    base = body.var_name(local)
    skip_first = False
    if base is None:
        base = body.var_name(local)
        if base is None and projs:
            # captured variables of closures / coroutines: use the debug name of the upvar
            for k in range(len(projs), 0, -1):
                for nme, vp in body.vars:
                    if vp[0] == local and vp[1] == projs[:k] and any(isinstance(x, list) and x[0] == "f" for x in vp[1]):
                        base = nme
                        projs = projs[k:]
                        break
                if base is not None:
                    break
        if base is None and local == 1 and projs and depth < 20:
            # a captured variable without a name of its own: it is what the enclosing function put into the closure
            pj = projs[1:] if projs[0] == "*" else projs
            if pj and isinstance(pj[0], list) and pj[0][0] == "f":
                o = body.upvar_origin(pj[0][1])
                if o is not None:
                    base = describe_operand(o[0], o[1], depth + 1).lstrip("&")
                    if base.startswith("mut "):
                        base = base[4:]
                    projs = pj[1:]
                    if projs and projs[0] == "*":
                        projs = projs[1:]
        if base is None:
            base = "arg%d" % local if 1 <= local <= body.argc else "_%d" % local
    s = base
    for x in projs:
        if isinstance(x, list) and x[0] == "f":
            s += "." + x[2]
        elif isinstance(x, list) and x[0] == "d":
            s += "<" + x[1] + ">"
    return s


def describe_operand(body, op, depth=0):
    if op[0] == "k":
        v = const_value(op[1])
        if v is not None:
            return repr(v)
        if "fn" in op[1]:
            return "fn:" + op[1]["fn"].get("def", "?")
        if "item" in op[1]:
            return op[1]["item"].split("::")[-1]
        if "promoted" in op[1] and depth < 8:
            pd = "%s::{promoted#%d}" % (op[1].get("promoted_of") or body.defpath, op[1]["promoted"])
            if pd in body.crate.by_def:
                pb = body.crate.body(pd)
                for i, j, p, rv, _ in pb.assigns():
                    if p[0] == 0 and not p[1]:
                        return describe_rvalue(pb, rv, depth + 1)
        return "const"
    if op[0] in ("c", "m"):
        return describe_place(body, op[1], depth)
    return "?"


def describe_call(body, c, depth=0):
    nm = c.via_name or c.name or "?"
    if depth > 24:
        return nm + "(…)"
    args = [describe_operand(body, a, depth + 1) for a in c.args]
    if nm in ("deref", "deref_mut", "as_ref", "as_mut", "borrow", "borrow_mut", "into", "from") and len(args) == 1:
        return args[0]
    return "%s(%s)" % (nm, ", ".join(args))


def describe_rvalue(body, rv, depth=0):
    k = rv[0]
    if depth > 28:
        return "…"
    if k == "use":
        return describe_operand(body, rv[1], depth)
    if k == "ref":
        return describe_place(body, rv[2], depth)
    if k == "rawptr":
        return describe_place(body, rv[1], depth)
    if k == "cast":
        return describe_operand(body, rv[2], depth)
    if k == "bin":
        return "%s(%s, %s)" % (rv[1], describe_operand(body, rv[2], depth + 1), describe_operand(body, rv[3], depth + 1))
    if k == "un":
        return "%s(%s)" % (rv[1], describe_operand(body, rv[2], depth + 1))
    if k == "disc":
        return "disc(%s)" % describe_place(body, rv[1], depth + 1)
    if k == "agg":
        a = rv[1]
        nm = (a.get("adt", "").split("::")[-1] + "::" + a.get("variant", "")) if "adt" in a else ("tuple" if a.get("tuple") else "agg")
        return "%s(%s)" % (nm, ", ".join(describe_operand(body, o, depth + 1) for o in rv[2]))
    return k


def switch_desc(body, b):
    """Canonical description of what a switch block tests."""
    si = body.switch_info(b)
    if si is None:
        return None
    if si["kind"] == "disc":
        pl = si["place"]
        ts = _try_source(body, pl[0]) if not pl[1] else None
        if ts is not None:
            return "disc(%s)" % describe_operand(body, ts[0])
        return "disc(%s)" % describe_place(body, si["place"])
    if si["kind"] == "callresult":
        return describe_call(body, si["call"])
    if "rvalue" in si:
        return describe_rvalue(body, si["rvalue"])
    return describe_operand(body, si["operand"])


def edge_label(body, a, s):
    """Label of the edge a->s of switch block a: variant name(s) or value."""
    si = body.switch_info(a)
    if si is None:
        return None
    if si["kind"] == "disc":
        ve = body.variant_edges(a)
        names = sorted(n for n, t in ve.items() if t == s)
        pl = si["place"]
        ts = _try_source(body, pl[0]) if not pl[1] else None
        if ts is not None:
            names = sorted({"Continue": ts[1], "Break": ts[2]}.get(n, n) for n in names)
        return "|".join(names) if names else "otherwise"
    vals = [v for v, t in si["raw_arms"].items() if t == s]
    if vals:
        return "|".join(str(v) for v in sorted(vals))
    if si["otherwise"] == s:
        # for a bool switch with arm 0, otherwise means true
        if set(si["raw_arms"].keys()) == {0}:
            return "true"
        return "otherwise"
    return None


def guards(body, b):
    """[(description of the tested expression, edge label, switch block)] for every branch edge
    the execution of block b is (transitively) control dependent on."""
    out = []
    for (a, s) in sorted(body.controlling_edges(b)):
        if body.term(a)["k"] != "switch":
            continue
        lab = edge_label(body, a, s)
        if lab == "0" and set(body.switch_info(a)["raw_arms"].keys()) == {0}:
            lab = "false"
        out.append((switch_desc(body, a), lab, a))
    return out


def dom_guards(body, b, _depth=0):
    """Branch conditions that necessarily hold whenever block b is entered: for every switch block
    a that dominates b, the unique successor s (with a as only predecessor) that dominates b.
    Unlike `guards`, loops do not add the conditions of sibling arms."""
    out = []
    for a in range(body.n):
        if body.is_cleanup(a) or body.term(a)["k"] != "switch":
            continue
        if a == b or not body.dominates(a, b):
            continue
        for s in body.succ[a]:
            if body.pred[s] == [a] and body.dominates(s, b):
                lab = edge_label(body, a, s)
                if lab == "0" and set(body.switch_info(a)["raw_arms"].keys()) == {0}:
                    lab = "false"
                out.append((switch_desc(body, a), lab, a))
                if lab in ("true", "false") and _depth < 2:
                    out.extend(g_ for g_ in _implied_by_flag(body, a, lab == "true", b, _depth) if g_ not in out)
                break
    return out


def _implied_by_flag(body, a, val, b, depth):
    """`let f = A && B; if f {..}`: the test of a hoisted boolean. When only one assignment can have given `f` the tested value, the conditions under
    which that assignment runs (and the value it copies) held as well - exactly as if the condition had been written in the `if`. The flag must be
    computed afresh on every way to the test (all its assignments lie between a common dominator and the test, not after it)."""
    t = body.term(a)
    pl = op_place(t.get("discr"))
    if pl is None or pl[1]:
        return []
    root = body.copy_root(t["discr"])
    if root is None or root >= len(body.locals) or body.locals[root] != "bool":
        return []
    cands, blocks = [], []
    for df in body.defs.get(root, ()):
        if df[0] == "call":
            # `let f = !a && pred(x);`: one of the values the flag can take is the answer of a call
            cands.append((df[1], ("call", df[2])))
            blocks.append(df[1])
            continue
        if df[0] != "assign":
            return []
        rv = df[3]
        if rv[0] != "use":
            return []
        op = rv[1]
        if op[0] == "k":
            v = op[1].get("b") if "b" in op[1] else (bool(op[1]["v"]) if op[1].get("v") in (0, 1, True, False) and op[1].get("ty") == "bool" else None)
            if v is None:
                cands.append((df[1], op))  # a named constant: may be either
            elif v == val:
                cands.append((df[1], None))
        elif op[0] in ("c", "m") and not op[1][1]:
            cands.append((df[1], op))
        else:
            return []
        blocks.append(df[1])
    if len(cands) != 1 or len(blocks) < 2:
        return []
    # freshness: a common dominator D of all assignments dominates the test, and from the test no assignment is reachable without passing D
    D = blocks[0]
    while not all(body._dominates_plain(D, k) for k in blocks):
        nd = body.idom.get(D)
        if nd is None or nd == D:
            return []
        D = nd
    if not body._dominates_plain(D, a) or not all(body.reaches(k, {a}) for k in blocks):
        return []
    seen, st = set(), [x for x in body.succ[a]]
    while st:
        x = st.pop()
        if x in seen or x == D or body.is_cleanup(x):
            continue
        seen.add(x)
        st.extend(body.succ[x])
    if any(k in seen for k in blocks):
        return []
    k, op = cands[0]
    out = [g_ for g_ in dom_guards(body, k, depth + 1) if body._dominates_plain(D, g_[2])]
    if op is not None and op[0] == "call":
        out.append((describe_call(body, op[1]), "true" if val else "false", a))
    elif op is not None:
        out.append((describe_operand(body, op), "true" if val else "false", a))
    return out
