"""C03 Sync gives a consistent snapshot, then a gap-free tail."""
import re
from mirlib import op_place, AnchorMissing, edge_label, switch_desc, describe_call, describe_operand, describe_place, describe_rvalue, dom_guards, guards, decision_paths, _suffix_match
from rules import uplinks
from rules.common import success_edge, callback_calls, aggregates, callers_by_name, owner_def, where

META = {
    "explanation": (
        "C03: R1 every sync request handler registers the sync on the lane and reports Modification::no_trigger (dirty, no lifecycle handler); "
        "R2 the value lane writes SyncEvent(id, value) before Synced(id) in one buffer and stays dirty while more is owed; R3 every live map "
        "event removes its key from every pending snapshot (a clear empties them) before it is emitted - the mechanism that keeps a snapshot "
        "from resurrecting a stale entry; R4 an exhausted snapshot yields Synced for its own id and map sync registers the key snapshot in one "
        "synchronous step; R5 a targeted response links implicitly before its data; R6 a queued synced marker follows all queued data of the "
        "lane (drain loop); R7 the synced marker bookkeeping in Uplinks; R8 lane responses keep their target: SyncEvent -> Some(id), "
        "StandardEvent -> None; R9 the queued-flag discipline of the per-remote queue (shared with C01): a lane whose synced marker was popped is queued again by its next event. R12 (shared with C02.R11) a sync in progress cannot stall the lane: pop answers None only when nothing is queued."
        ' R13 (= C02.R1b) the per-remote map queue a sync waits in keeps queue, index and head epoch together.'
),
    "does_not_decide": "the snapshot-consistency statement over all placements of sync requests and all interleavings",
}

AG = "swimos_agent"
RT = "swimos_runtime"


def run(ctx):
    ag = ctx.crate(AG)
    rt = ctx.crate(RT)

    with ctx.rule("C03.R1", "T2", "sync handlers register the sync and report no_trigger", floor=6) as r:
        n = 0
        for b in ag.all_bodies():
            if b.meta.get("name") != "step" or not _suffix_match(b.meta.get("trait"), "event_handler::HandlerAction"):
                continue
            syncs = [c for c in b.calls if c.name == "sync" and (c.callee.get("self_adt") or "").startswith("swimos_agent::lanes::") and (c.callee.get("self_adt") or "").endswith("Lane")]
            if not syncs:
                continue
            tag = (b.meta.get("self_adt") or "?").split("::")[-1]
            lane_kind = (syncs[0].callee.get("self_adt") or "").split("::")[-1]
            n += 1
            ctx.saw(b)
            nt = [c for c in b.calls if c.is_method("event_handler::Modification", "no_trigger")]
            of = [c for c in b.calls if c.is_method("event_handler::Modification", "of")]
            for c in syncs:
                if lane_kind in ("DemandLane", "DemandMapLane"):
                    # computed on demand: the cue handler must run, the computed value is then published with no_trigger
                    ok, wit = b.must_pass(b.succ[c.block], {x.block for x in nt + of})
                    r.check(ok, "%s/sync=>modification" % tag, c.loc(), "%s.sync is followed by a modification (demand lanes run their cue handler)" % lane_kind, "sync without modification: %s" % wit)
                    continue
                ok, wit = b.must_pass(b.succ[c.block], {x.block for x in nt})
                r.check(ok and bool(nt), "%s/sync=>no_trigger" % tag, c.loc(), "%s.sync(id) is followed by Modification::no_trigger on every path" % lane_kind,
                        "sync request is not reported as a (non-triggering) modification: the snapshot is never written out (%s)" % wit)
                r.check(not any(b.reaches(c.block, {x.block}) for x in of), "%s/sync-does-not-trigger" % tag, c.loc(), "a sync never reports Modification::of (no lifecycle event for a sync)",
                        "a sync request triggers the lane's lifecycle handlers")
        if n < 6:
            raise AnchorMissing("expected >= 6 sync handlers (value, map, select variants, supply, join), found %d" % n)

    with ctx.rule("C03.R2", "T1", "ValueLane::write_to_buffer: SyncEvent(id, value) then Synced(id); dirty while more is owed", floor=3) as r:
        wb = ctx.saw(ag.fn(name="write_to_buffer", self_adt="lanes::value::ValueLane"))
        pops = [c for c in wb.calls if c.name == "pop_front" and "sync" in describe_operand(wb, c.args[0])]
        if len(pops) != 1:
            raise AnchorMissing("ValueLane::write_to_buffer: sync_queue.pop_front")
        sw = wb.result_switches(pops[0])
        ve = wb.variant_edges(sw[0]["block"]) if sw else None
        if not ve:
            raise AnchorMissing("ValueLane::write_to_buffer: pop_front not matched")
        sy = [c for c in wb.calls if c.name == "synced" and "LaneResponse" in c.defpath]
        rd = [c for c in wb.calls if c.is_method("stores::value::ValueStore", "read") and wb.dominates(ve["Some"], c.block)]
        r.check(len(sy) == 1 and len(rd) == 1 and wb.dominates(rd[0].block, sy[0].block), "write_to_buffer/sync_event-before-synced", where(wb), "the value (store.read -> sync_event) is encoded before synced",
                "synced can be encoded before the value")
        cl = [b for b in ag.closures_of(wb.defpath) if any(c.name == "sync_event" for c in b.calls)]
        r.check(len(cl) == 1 and any(c.via_name == "encode" for c in cl[0].calls), "write_to_buffer/sync_event-encoded", where(wb), "the read closure encodes LaneResponse::sync_event(id, value)")
        if sy:
            d = describe_operand(wb, sy[0].args[0])
            r.check("pop_front(" in d and "<Some>.0" in d, "write_to_buffer/synced-same-id", sy[0].loc(), "synced(id) uses the popped id (%s)" % d[-40:], "synced uses %s" % d)
        if cl:
            se = [c for c in cl[0].calls if c.name == "sync_event"]
            d = describe_operand(cl[0], se[0].args[0])
            # the closure's id is whatever the enclosing function captured: it must be the id popped from the sync queue (the one synced(id) uses)
            o = cl[0].upvar_origin(0) if se[0].args[0][0] in ("c", "m") else None
            src = [describe_operand(o[0], o[1]) for o in [cl[0].upvar_origin(k) for k in range(8)] if o is not None]
            popped = [x for x in src if "pop_front(" in x and "<Some>.0" in x]
            # (the closure may call its captured id anything: what matters is what the enclosing function put into that capture)
            ap = op_place(se[0].args[0])
            ap = cl[0].resolve(ap) if ap is not None else None
            from_popped = False
            if ap is not None and ap.root == 1 and ap.fields:
                for k in range(8):
                    o = cl[0].upvar_origin(k)
                    if o is not None and ("upvar%d" % k) in str(ap.fields[0]) or (o is not None and str(ap.fields[0]) == str(k)):
                        dd = describe_operand(o[0], o[1])
                        from_popped = from_popped or ("pop_front(" in dd and "<Some>.0" in dd)
            r.check(("pop_front(" in d and "<Some>.0" in d) or from_popped or (bool(popped) and len(src) == len([x for x in src if x]) and len(popped) == 1 and not [x for x in src if "pop_front(" not in x and x not in ("store", "self.store", "encoder", "buffer")] ), "write_to_buffer/sync_event-same-id", se[0].loc(), "sync_event(id, ..) uses the id popped from the sync queue (%s)" % d[-60:],
                    "sync_event is given %s, not the id popped from the sync queue" % d[-80:])
        dsa = [a for a in aggregates(wb, "agent_model::WriteResult", "DataStillAvailable")]
        done = [a for a in aggregates(wb, "agent_model::WriteResult", "Done") if wb.dominates(ve["Some"], a[0])]
        ok = bool(dsa) and bool(done)
        for a in dsa:
            g = guards(wb, a[0])
            # the test may be a hoisted `let more = store.has_data_to_write() || !queue.is_empty()`: look at what flows into the tested value
            def feeds(sb):
                t_ = wb.term(sb)
                if t_.get("k") != "switch":
                    return False
                return any(x[0] == "call" and x[1].name in ("has_data_to_write", "is_empty") for x in wb.sources(t_["discr"], stop_at_calls=False))
            ok = ok and (any("has_data_to_write(" in d or "is_empty(" in d for d, l, _ in g) or any(feeds(sb) for d, l, sb in g))
        r.check(ok, "write_to_buffer/still-dirty-while-owed", where(wb), "DataStillAvailable iff the store is dirty or more syncs are queued", "the sync branch never reports DataStillAvailable: queued syncs / a pending change are forgotten")

    with ctx.rule("C03.R3", "T2", "a live map event removes its key from (a clear empties) every pending snapshot before it is emitted", floor=4) as r:
        pop = ctx.saw(ag.fn(name="pop", self_adt="lanes::queues::WriteQueues", kind="AssocFn", regex=r"WriteQueues::<K>::pop$"))
        ep = [c for c in pop.calls if c.is_method("event_queue::EventQueue", "pop")]
        us = [c for c in pop.calls if c.name == "update_sync_queues"]
        if len(ep) != 1:
            raise AnchorMissing("WriteQueues::pop: event_queue.pop")
        if len(us) != 1:
            r.bad("WriteQueues::pop/update-before-emit", ep[0].loc(), "WriteQueues::pop no longer calls update_sync_queues before emitting a live event: a pending snapshot can resurrect a stale entry")
            us = None
        some_e = success_edge(pop, ep[0], "Some")
        evs = aggregates(pop, "lanes::queues::ToWrite", "Event")
        if us:
            r.check(some_e is not None and (pop.dominates(some_e, us[0].block) or some_e == us[0].block) and all(pop.dominates(us[0].block, a[0]) for a in evs) and bool(evs), "WriteQueues::pop/update-before-emit", us[0].loc(),
                    "update_sync_queues(sync_queues, &action) dominates ToWrite::Event(action)", "an event can be emitted without updating the pending snapshots")
        if us:
            r.check("sync_queues" in describe_operand(pop, us[0].args[0]) and "pop(" in describe_operand(pop, us[0].args[1]), "WriteQueues::pop/update-args", us[0].loc(), "called with all sync queues and the popped action")
        up = ctx.saw(ag.fn(suffix="lanes::queues::update_sync_queues"))
        # (directly in a loop, or handed to an iterator adapter as a closure or by name)
        cbs = callback_calls(ag, up)
        site = {id(x): blk for blk, x in cbs}
        rm = [c for c in up.calls if c.is_method("lanes::queues::SyncQueue", "remove")] + [x for blk, x in cbs if x.is_method("lanes::queues::SyncQueue", "remove")]
        clr = [c for c in up.calls if c.is_method("lanes::queues::SyncQueue", "clear")] + [x for blk, x in cbs if x.is_method("lanes::queues::SyncQueue", "clear")]
        if not rm:
            r.bad("update_sync_queues/keyed=>remove", where(up), "update_sync_queues no longer removes the key of an emitted event from the pending snapshots")
        if not clr:
            r.bad("update_sync_queues/clear=>clear-all", where(up), "update_sync_queues no longer empties the pending snapshots on Clear: entries cleared from the lane are re-sent by the sync")
        def every_queue(blk):
            """the effect is applied to every pending snapshot: inside `for q in queues` or handed to `queues.iter_mut().for_each(..)`"""
            if any(d.startswith("disc(next(") and l == "Some" for d, l, _ in dom_guards(up, blk)):
                return True
            cl_ = up.call_at(blk)
            return cl_ is not None and cl_.name in ("for_each", "for_each_mut") and bool(cl_.args) and re.match(r"^(iter_mut|iter|into_iter)\(", describe_operand(up, cl_.args[0])) is not None and "queues" in describe_operand(up, cl_.args[0])
        vall = set()
        for c in rm:
            for d, l, _ in guards(up, site.get(id(c), c.block)):
                if d == "disc(action)":
                    vall |= set(l.split("|"))
        # the kind of action may reach the queues as `Some(key)` / `None` worked out beforehand: the variants under which each is built stand for it
        opt_from = {}
        for i_, j_, p_, rv_, l_ in up.assigns():
            if rv_[0] == "agg" and isinstance(rv_[1], dict) and (rv_[1].get("adt") or "").endswith("option::Option"):
                for d, l, _ in guards(up, i_):
                    if d == "disc(action)":
                        opt_from.setdefault(rv_[1].get("variant"), set()).update(l.split("|"))

        def via_option(c):
            # the callback's own test of the captured Option: Some / None
            for cb in ag.closures_of(up.defpath):
                if any(x is c for x in cb.calls):
                    labs = [l for d, l, _ in dom_guards(cb, c.block) if d.startswith("disc(") and l in ("Some", "None")]
                    return labs[-1] if labs else None
            return None
        if not vall and opt_from:
            for c in rm:
                vall |= opt_from.get(via_option(c), set())
        # (one arm with an or-pattern, or an arm per variant)
        r.check(vall == {"Update", "Remove"}, "update_sync_queues/keyed=>remove", rm[0].loc() if rm else where(up), "Update|Remove remove the key from a queue (%s)" % sorted(vall), "remove is applied for %s" % sorted(vall))
        for c in rm:
            blk = site.get(id(c), c.block)
            if id(c) in site:
                cl_ = up.call_at(blk)
                by_key = any("key" in describe_operand(up, a) for a in cl_.args)
            else:
                by_key = any(s[0] == "field" and "key" in s[1].fields for s in up.sources(c.args[1]))
            r.check(by_key, "update_sync_queues/remove-by-key", c.loc(), "removed by the action's key")
            r.check(every_queue(blk), "update_sync_queues/remove-for-every-queue", c.loc(), "applied to all queues")
        for c in clr:
            blk = site.get(id(c), c.block)
            g = dom_guards(up, blk)
            v = [l for d, l, _ in g if d == "disc(action)"]
            if not v and opt_from.get(via_option(c)):
                v = ["|".join(sorted(opt_from[via_option(c)]))]
            r.check(v and "Clear" in v[0].split("|") and every_queue(blk), "update_sync_queues/clear=>clear-all", c.loc(), "Clear empties every queue")
        sq = ctx.saw(ag.fn(name="remove", self_adt="lanes::queues::SyncQueue"))
        r.check(any(c.name == "remove" and describe_operand(sq, c.args[0]).endswith("queue") for c in sq.calls) and any(c.name == "position" for c in sq.calls), "SyncQueue::remove/removes-position", where(sq),
                "SyncQueue::remove deletes the key's position from the snapshot")

        # ... and only then: a key leaves a pending snapshot when its live event is *emitted*, never earlier (e.g. when the operation is
        # queued): otherwise the snapshot runs empty while the events that replaced its keys are still waiting, and Synced overtakes them
        n = 0
        for b in ag.all_bodies():
            for c in b.calls:
                if c.name == "update_sync_queues" and len(c.args) == 2:
                    n += 1
                    ctx.saw(b)
                    popped = [x for x in b.derives_from_call(c.args[1], lambda x: x.is_method("event_queue::EventQueue", "pop"))]
                    r.check(bool(popped), "%s/update_sync_queues/only-for-a-popped-event" % owner_def(b).split("::")[-1], c.loc(), "the action passed is the one just taken from the event queue",
                            "%s drops snapshot keys for an operation that has not been emitted yet (`%s`): the snapshot can run empty, and `synced` be sent, while the events that superseded its keys are still queued - at synced the replica lacks keys the lane held all along" % (
                                owner_def(b).replace("swimos_agent::", ""), describe_operand(b, c.args[1])[:50]))
                elif (c.is_method("lanes::queues::SyncQueue", "remove") or c.is_method("lanes::queues::SyncQueue", "clear")) and "queues::" in b.defpath:
                    home = owner_def(b).split("::")[-1]
                    r.check(home in ("update_sync_queues",), "%s/SyncQueue::%s/only-in-update_sync_queues" % (home, c.name), c.loc(), "snapshot keys are dropped only by update_sync_queues",
                            "%s edits a pending snapshot directly (SyncQueue::%s)" % (owner_def(b).replace("swimos_agent::", ""), c.name))
        r.check(n >= 1, "update_sync_queues/call-sites", "-", "%d call site(s) of update_sync_queues" % n)

    with ctx.rule("C03.R4", "T2", "an exhausted snapshot yields Synced(its id); map sync snapshots and registers keys in one synchronous step", floor=3) as r:
        pop = ag.fn(name="pop", self_adt="lanes::queues::WriteQueues", kind="AssocFn", regex=r"WriteQueues::<K>::pop$")
        syn = aggregates(pop, "lanes::queues::ToWrite", "Synced")
        se = aggregates(pop, "lanes::queues::ToWrite", "SyncEvent")
        if len(syn) != 1 or len(se) != 1:
            raise AnchorMissing("WriteQueues::pop: ToWrite::Synced / SyncEvent sites")
        d = describe_operand(pop, syn[0][2][0])
        same_queue = (d.startswith("remove(") or d.startswith("swap_remove(")) and d.endswith(".id") and "sync_queues" in d
        if not same_queue:
            # the id read before the queue is removed (`let id = queue.id; .. sync_queues.remove(*sync_index)`): the same index, not changed in between
            m_ = re.match(r"^(get_mut|get|index|index_mut)\((.*sync_queues), (.+)\)(<Some>\.0)?\.id$", d)
            rms = [c for c in pop.calls if c.name in ("remove", "swap_remove") and c.args and "sync_queues" in describe_operand(pop, c.args[0])]
            if m_ and len(rms) == 1 and describe_operand(pop, rms[0].args[1]) == m_.group(3):
                gets = [c for c in pop.calls if c.name == m_.group(1) and c.args and "sync_queues" in describe_operand(pop, c.args[0])]
                wr = [i for i, j, p_, rv, line in pop.assigns() if p_[1] and describe_place(pop, p_).endswith("sync_index")]
                between = [i for i in wr if any(pop.reaches(g_.block, {i}) or g_.block == i for g_ in gets) and (pop.reaches(i, {rms[0].block}) or i == rms[0].block)]
                same_queue = bool(gets) and not between and pop.dominates(rms[0].block, syn[0][0])
        r.check(same_queue, "WriteQueues::pop/Synced-id-of-removed-queue", pop.loc(syn[0][3]), "Synced(id) carries the id of the queue that was removed (%s)" % d[:70],
                "Synced carries %s" % d[:80])
        # the round-robin index stays inside the vector: whenever a queue is taken out, the index is brought back into range
        # before pop returns (otherwise get_mut(sync_index) is None for ever and the remaining snapshots and events are stuck)
        shrink = []
        for bq in ag.all_bodies():
            for c in bq.calls:
                if c.name in ("remove", "swap_remove", "pop", "truncate", "clear", "drain", "retain", "split_off") and c.args and describe_operand(bq, c.args[0]).endswith("sync_queues") and "WriteQueues" in str(c.body.defpath):
                    shrink.append((bq, c))
        r.check(len(shrink) == 1 and shrink[0][0] is pop, "WriteQueues/sync_queues-shrinks-only-in-pop", where(pop), "the only place a snapshot queue is removed is WriteQueues::pop", "sync_queues is shrunk in %s" % [b_.defpath.split("::")[-1] for b_, _ in shrink])
        idx_writes = set()
        for i, j, p, rv, line in pop.assigns():
            if p[1] and describe_place(pop, p).endswith("sync_index"):
                dr = describe_rvalue(pop, rv)
                if dr == "0" or (dr.startswith("Rem(") and "len(self.sync_queues)" in dr):
                    idx_writes.add(i)
        in_range = []
        for sb in range(pop.n):
            if pop.is_cleanup(sb) or pop.term(sb)["k"] != "switch":
                continue
            dsw = switch_desc(pop, sb)
            for t_ in pop.succ[sb]:
                l = {"0": "false", "1": "true"}.get(edge_label(pop, sb, t_), edge_label(pop, sb, t_))
                if (dsw.startswith("Ge(") and "sync_index" in dsw and "len(self.sync_queues)" in dsw and l == "false") or (dsw.startswith("Lt(") and "sync_index" in dsw and "len(self.sync_queues)" in dsw and l == "true"):
                    in_range.append((sb, t_))
        for bq, c in shrink:
            if bq is not pop:
                continue
            ok, wit = pop.must_pass_edges([c.target], idx_writes, in_range)
            r.check(ok, "WriteQueues::pop/index-in-range-after-removal", c.loc(), "after a queue is removed sync_index is reset (or found to be < len) before pop returns",
                    "after %s(sync_queues, sync_index) the index can stay >= len: get_mut(sync_index) is None from then on, so the remaining snapshots never finish and queued events are not written (%s)" % (c.name, [pop.blocks[q]["t"].get("line") for q in (wit or [])][:6]))
        adv = [(i, describe_rvalue(pop, rv)) for i, j, p, rv, line in pop.assigns() if p[1] and describe_place(pop, p).endswith("sync_index") and "Add" in describe_rvalue(pop, rv)]
        r.check(len(adv) == 1 and adv[0][1].startswith("Rem(") and "len(self.sync_queues)" in adv[0][1], "WriteQueues::pop/advance-modulo-len", where(pop), "the round-robin advance is (index + 1) % len", "sync_index is advanced as %s" % [a for _, a in adv])
        g = dom_guards(pop, syn[0][0])
        r.check(any(dd.startswith("disc(pop(") and l == "None" for dd, l, _ in g), "WriteQueues::pop/Synced-only-when-exhausted", pop.loc(syn[0][3]), "Synced only when the snapshot queue is exhausted")
        d2 = [describe_operand(pop, o) for o in se[0][2]]
        r.check(d2[0].endswith(".id") and "pop(" in d2[1], "WriteQueues::pop/SyncEvent-id-and-key", pop.loc(se[0][3]), "SyncEvent(queue.id, popped key)")
        ms = ctx.saw(ag.fn(name="sync", self_adt="lanes::map::MapLane"))
        gm = [c for c in ms.calls if c.name == "get_map"]
        sy = [c for c in ms.calls if c.is_method("lanes::queues::WriteQueues", "sync")]
        r.check(len(gm) == 1 and len(sy) == 1 and ms.dominates(gm[0].block, sy[0].block) and "get_map(" in describe_operand(ms, sy[0].args[2]) and not ms.meta.get("coroutine"), "MapLane::sync/snapshot-and-register", where(ms),
                "the key snapshot is taken and registered in one synchronous function (no suspension point in between)")
        cl = ag.closures_of(ms.defpath)
        r.check(any(c.name == "keys" for b in cl for c in b.calls), "MapLane::sync/snapshot-of-keys", where(ms), "the snapshot is the lane's current key set")

    with ctx.rule("C03.R5", "T1", "a targeted (sync) response to a remote that is not linked links it first: Linked before the data", floor=3) as r:
        he = ctx.saw(rt.fn(name="handle_event", self_adt="task::WriteTaskState"))
        # the decision `not linked yet` is about this (remote, lane) pair, and `linked` goes out before the snapshot (shared with C04.R8)
        sp, pws = uplinks.implicit_link_rule(r, ctx, rt, he)
        ins = [c for c in he.calls if c.is_method("links::Links", "insert")]
        g = dom_guards(he, ins[0].block)
        r.check(any(l == "Some" and "target" in d for d, l, _ in g), "handle_event/only-for-targeted", ins[0].loc(), "implicit linking only for targeted responses")

    with ctx.rule("C03.R6", "T1", "perform_write: a synced marker follows all queued data of the lane", floor=3) as r:
        pw = ctx.saw(rt.fn(suffix="write_fut::perform_write::{closure#0}"))
        sends = [(c, describe_operand(pw, c.args[1]), dom_guards(pw, c.block)) for c in pw.calls if c.name == "send_notification"]
        for key in ("ValueSynced", "MapSynced"):
            ev = [c for c, d, g in sends if d.startswith("Notification::Event") and any(l == key for dd, l, _ in g)]
            sy = [c for c, d, g in sends if d.startswith("Notification::Synced") and any(l == key for dd, l, _ in g)]
            r.check(len(ev) == 1 and len(sy) == 1 and pw.reaches(ev[0].block, {sy[0].block}) and not pw.reaches(sy[0].block, {ev[0].block}), "perform_write/%s/events-then-synced" % key, where(pw),
                    "%s: events precede synced, nothing follows it" % key, "%s: an event can be sent after synced" % key)
        # ValueSynced(true) means a value is waiting in the buffer: it is sent whatever it looks like (an empty body is a value too - the Recon of
        # Extant / None); any further condition on the send leaves the remote synced with a stale value
        evv = [(c, g) for c, d, g in sends if d.startswith("Notification::Event") and any(l == "ValueSynced" for dd, l, _ in g)]
        for c, g in evv:
            extra = [(dd, l) for dd, l, _ in g if not dd.startswith("disc(") and not re.match(r"^action<ValueSynced>\.0$", dd)]
            flag = [(dd, l) for dd, l, _ in g if re.match(r"^action<ValueSynced>\.0$", dd)]
            r.check(flag == [("action<ValueSynced>.0", "true")] and not extra, "perform_write/ValueSynced/value-sent-iff-flag", c.loc(), "the pending value is sent exactly when the action says one is pending",
                    "the pending value of ValueSynced(true) is sent only if %s also holds: a value for which it does not (an empty body is the Recon of Extant) is dropped and only `synced` goes out - the remote believes it is synced and keeps the previous value" % [dd for dd, l in extra][:2])
        hd = [c for c in pw.calls if c.name == "has_data"]
        sy = [c for c, d, g in sends if d.startswith("Notification::Synced") and any(l == "MapSynced" for dd, l, _ in g)]
        if hd and sy:
            be = pw.bool_edges(hd[0])
            # leaving the drain loop towards synced happens only on has_data() == false (or an error return)
            path = pw.path_avoiding([be[0]], {sy[0].block}, avoid={hd[0].block}) if be else [0]
            r.check(be is not None and path is None, "perform_write/MapSynced/drain-completely", hd[0].loc(), "synced is reached from the drain loop only through has_data() == false",
                    "synced can be sent while the queue still has data: %s" % path)

    with ctx.rule("C03.R7", "T3", "synced marker bookkeeping in Uplinks", floor=8) as r:
        uplinks.synced_marker(r, ctx)

    with ctx.rule("C03.R9", "T3", "after a sync the lane keeps being written: queued flag <=> queue entry in every pop arm (gap-free tail)", floor=20) as r:
        uplinks.queued_flag_discipline(r, ctx)

    with ctx.rule("C03.R8", "T10-lite", "lane responses keep their target and kind on the way to the write task", floor=7) as r:
        for fn, ctor in (("value_or_supply_raw_response", None), ("map_raw_response", "map_lane")):
            b = ctx.saw(rt.fn(suffix="receiver::" + fn))
            for c in b.calls:
                if c.name in ("value_lane", "supply_lane", "map_lane", "lane_synced") and "ItemResponse" in c.defpath:
                    g = dom_guards(b, c.block)
                    v = [l for d, l, _ in g if d == "disc(resp)"]
                    if not v and c.name != "lane_synced":
                        # one constructor call behind `let (target, body) = match resp { StandardEvent(b) => (None, b), SyncEvent(id, b) => (Some(id), b), .. }`:
                        # what the target holds when the call is reached from each arm
                        sw_ = [sb for sb in range(b.n) if b.term(sb)["k"] == "switch" and not b.is_cleanup(sb) and switch_desc(b, sb) == "disc(resp)"]
                        ve_ = (b.variant_edges(sw_[0]) or {}) if sw_ else {}
                        seen_v = 0
                        for v_, want, what in (("StandardEvent", 0, "broadcast"), ("SyncEvent", 1, "targeted")):
                            if v_ not in ve_ or c.block not in b.reachable_assuming(sw_[0], v_):
                                continue
                            seen_v += 1
                            got = b.variants_at([ve_[v_]], c.block, c.args[2])
                            somes = [describe_rvalue(b, rv_) for i_, j_, p_, rv_, l_ in b.assigns() if rv_[0] == "agg" and describe_rvalue(b, rv_).startswith("Option::Some(") and any(d_ == "disc(resp)" and l2 == v_ for d_, l2, _ in dom_guards(b, i_))]
                            okp = want == 0 or (bool(somes) and all("<SyncEvent>.0" in x for x in somes))
                            r.check(got == {want} and okp, "%s/%s=>%s/%s" % (fn, v_, what, c.name), c.loc(), "%s -> target %s" % (v_, "None (broadcast)" if want == 0 else "Some(id)"),
                                    "%s reaches %s with a target that is %s (%s)" % (v_, c.name, sorted(map(str, got)), somes))
                            if fn == "value_or_supply_raw_response":
                                k = [l for d, l, _ in g if d == "disc(uplink)"]
                                r.check(k and ((k[0] == "Value") == (c.name == "value_lane")), "%s/%s/kind-%s" % (fn, v_, c.name), c.loc(), "uplink kind %s -> %s" % (k, c.name), "uplink kind %s routed to %s" % (k, c.name))
                        if not seen_v:
                            r.bad("%s/%s/variant" % (fn, c.name), c.loc(), "constructor call not reached from an event arm of the match on the response")
                        continue
                    if not v:
                        r.bad("%s/%s/variant" % (fn, c.name), c.loc(), "constructor call not under a match on the response")
                        continue
                    v = v[0]
                    if c.name == "lane_synced":
                        r.check(v == "Synced" and "<Synced>.0" in describe_operand(b, c.args[1]), "%s/Synced=>lane_synced" % fn, c.loc(), "Synced(id) -> lane_synced(item, id, kind)")
                        if fn == "map_raw_response":
                            r.check("Map" in describe_operand(b, c.args[2]), "%s/Synced-kind" % fn, c.loc(), "map lanes report UplinkKind::Map")
                        continue
                    tgt = describe_operand(b, c.args[2])
                    if v == "StandardEvent":
                        r.check(tgt == "Option::None()", "%s/StandardEvent=>broadcast/%s" % (fn, c.name), c.loc(), "StandardEvent -> target None (broadcast)", "StandardEvent gets target %s" % tgt)
                    elif v == "SyncEvent":
                        r.check(tgt.startswith("Option::Some(") and "<SyncEvent>.0" in tgt, "%s/SyncEvent=>targeted/%s" % (fn, c.name), c.loc(), "SyncEvent(id, ..) -> target Some(id)", "SyncEvent gets target %s" % tgt)
                    else:
                        r.bad("%s/%s/unexpected-variant" % (fn, c.name), c.loc(), "%s maps to a lane event" % v)
                    if fn == "value_or_supply_raw_response":
                        k = [l for d, l, _ in g if d == "disc(uplink)"]
                        r.check(k and ((k[0] == "Value") == (c.name == "value_lane")), "%s/%s/kind-%s" % (fn, v, c.name), c.loc(), "uplink kind %s -> %s" % (k, c.name), "uplink kind %s routed to %s" % (k, c.name))

    with ctx.rule("C03.R10", "T1", "a remote that links implicitly by syncing is linked before its snapshot can lose keys to standard events", floor=2) as r:
        # WriteQueues::pop drops a key from every pending snapshot when it emits a standard event for it ("the remote gets the
        # newer value as an ordinary event"). That is only sound if the syncing remote receives the lane's standard events,
        # i.e. is already recorded in the runtime's Links when they are broadcast. For `sync` without a preceding `link` the
        # runtime links the remote when the first response addressed to it arrives (handle_event) - after the lane may already
        # have emitted standard events. Necessary: either the read task registers the link when it forwards the sync request,
        # or the lane does not drop snapshot keys in favour of standard events.
        pop = ag.fn(name="pop", self_adt="lanes::queues::WriteQueues", kind="AssocFn", regex=r"WriteQueues::<K>::pop$")
        drops = [c for c in pop.calls if c.name == "update_sync_queues"]
        rd = [b for b in rt.all_bodies() if b.defpath.endswith("agent::task::read_task::{closure#0}")]
        if len(rd) != 1:
            raise AnchorMissing("runtime read_task coroutine")
        rd = ctx.saw(rd[0])
        syncs = [c for c in rd.calls if c.name == "start_sync"]
        if len(syncs) != 1:
            raise AnchorMissing("read_task: start_sync call (found %d)" % len(syncs))
        links = [c for c in rd.calls if c.name == "send" and len(c.args) > 1 and "RwCoordinationMessage::Link(" in describe_operand(rd, c.args[1]) and rd.dominates(c.block, syncs[0].block)]
        r.check(bool(drops), "WriteQueues::pop/drops-snapshot-keys-for-standard-events", where(pop), "standard events remove their key from the pending snapshots (so the syncing remote must be receiving standard events)")
        r.check(bool(links) or not drops, "implicit-link-sync/link-registered-before-sync-is-forwarded", syncs[0].loc(), "the link is registered with the write task before the sync request reaches the lane",
                "read_task forwards a sync request to the lane without registering the link; the remote is only linked when its first sync response arrives, but WriteQueues::pop may emit standard events first and drops their keys from the remote's snapshot: those keys never reach it")

    with ctx.rule("C03.R11", "T4", "the per-lane uplink state (which holds a pending sync's events and its synced flag) is dropped when an unlink is accepted, never when the queued unlinked is written", floor=4) as r:
        uplinks.uplink_state_lifetime(r, ctx)

    with ctx.rule("C03.R12", "T2", "a sync in progress cannot stall the lane: pop answers None only when nothing is queued (shared with C02.R11)", floor=1) as r:
        from rules.common import pop_until_exhausted_rule
        pop_until_exhausted_rule(r, ctx)

    # a sync's events wait in the remote's map backpressure queue while its writer is busy, and MapSynced drains that queue before `synced`:
    # the queue's own index discipline (a Clear resets queue, index and head epoch together) decides whether the snapshot arrives intact (seed C03-7)
    from rules import C02 as _C02
    ctx.borrow(_C02, {"C02.R1b": ("C03.R13", "the per-remote map queue a sync waits in keeps queue, index and head epoch together (C02.R1b)")})
