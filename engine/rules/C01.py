"""C01 Value lanes: subscribers see an ordered, gap-tolerant, never-stale view."""
from mirlib import describe_call, AnchorMissing, describe_operand, describe_place, describe_rvalue, dom_guards, guards, _suffix_match
from rules import uplinks
from rules.common import ty_of, aggregates, callers_by_name, calls_on_field, field_writes, owner_def, where

META = {
    "explanation": (
        "C01: the local disciplines from which 'never stale / never reordered / never invented' follows once every hop is a FIFO with one "
        "writer token. R1 every write of ValueStore content sets `dirty` and records `previous`; R2 `dirty` is cleared only where the content "
        "is encoded; R3 the write-back loop keeps a lane dirty until its writer is back and it has nothing left, and never drops a lane's "
        "writer; R4 a completed write re-inserts the writer; R5 one queue entry per lane per remote (queued flag discipline); R6 the value "
        "backpressure buffer only ever replaces the not-yet-sent value; R7 the remote's writer token is always handed back or turned into "
        "one WriteTask; R8 writer tokens are not Clone; R9 value-lane mutators report Modification::of."),
    "does_not_decide": "that the composition under every interleaving yields a subsequence (the race between pending_writes and lane polling is not modelled)",
}

AG = "swimos_agent"
RT = "swimos_runtime"
VS = "stores::value::ValueStore"
IN = "stores::value::Inner"


def is_item_writers(b, op):
    """the map from item id to the item's writer token, recognised by its type (its name is a local's and may change)"""
    t = ty_of(b, op)
    return "HashMap<" in t and "io::ItemWriter" in t


WRITE_RESULTS = ("NoData", "Done", "RequiresEvent", "DataStillAvailable")


def _wr_consistent(g, v):
    """can a site with these dominating guards be reached when write_event answered Some(v)?"""
    import re as _re
    for d, l, _ in g:
        if d.startswith("disc(write_event(") and d.endswith("<Some>.0)"):
            if l in WRITE_RESULTS and l != v:
                return False
        m = _re.match(r"^(ne|eq)\(.*WriteResult::(\w+)\(\)\)$", d)
        if m and l in ("true", "false"):
            holds = (v != m.group(2)) if m.group(1) == "ne" else (v == m.group(2))
            if holds != (l == "true"):
                return False
    return True


def _wr_value(d, v):
    import re as _re
    if d in ("True", "False"):
        return d == "True"
    m = _re.match(r"^(ne|eq)\(.*WriteResult::(\w+)\(\)\)$", d)
    if m:
        return (v != m.group(2)) if m.group(1) == "ne" else (v == m.group(2))
    return None


def write_back_table(r, b, we):
    """The dirty_items.retain closure of run_agent: what happens for each answer of write_event. Done -> written, lane clean, no handler; RequiresEvent ->
    written, lane clean, the lane's lifecycle handler runs when the write completes; DataStillAvailable -> written, lane stays dirty, no handler."""
    rets = [(i, describe_rvalue(b, rv)) for i, j, p, rv, line in b.assigns() if p[0] == 0 and not p[1]]
    rets += [(c.block, describe_call(b, c)) for c in b.calls if c.dest is not None and c.dest[0] == 0 and not c.dest[1]]
    dw = [c for c in b.calls if c.name == "do_write"]
    want = {"Done": (False, False), "RequiresEvent": (False, True), "DataStillAvailable": (True, False)}
    sw = [si for si in b.switches_on(lambda p_, si: True) if si.get("kind") == "disc" and (si.get("adt") or "").endswith("WriteResult")]
    ve = b.variant_edges(sw[0]["block"]) if len(sw) == 1 else None
    exits = list(b.exits())
    for v, (stay, flag) in want.items():
        flags, ans, sites = set(), set(), []
        if ve and v in ve:
            # follow the values from this answer's arm to the call (through tuples / Option the arms may pack them into)
            for c in dw:
                vals = b.const_values([ve[v]], c.block, c.args[1])
                if vals:
                    sites.append(c)
                    if None in vals:
                        vals = (vals - {None}) | {_wr_value(describe_operand(b, c.args[1]), v)}
                    flags |= vals
            for e in exits:
                vals = b.const_values([ve[v]], e, ["c", [0, []]])
                if None in vals:
                    vals = (vals - {None}) | {_wr_value(d_, v) for i_, d_ in rets if _wr_consistent(dom_guards(b, i_), v)}
                ans |= vals
        else:
            sites = [c for c in dw if _wr_consistent(dom_guards(b, c.block), v)]
            flags = {_wr_value(describe_operand(b, c.args[1]), v) for c in sites}
            for c in sites:
                for i, d in rets:
                    if (b.dominates(c.block, i) or b.reaches(c.block, {i})) and _wr_consistent(dom_guards(b, i), v):
                        ans.add(_wr_value(d, v))
        r.check(len(sites) >= 1 and flags == {flag}, "retain/do_write-flag/%s" % v, sites[0].loc() if sites else we.loc(), "after %s: do_write(tx, %s)" % (v, str(flag).lower()),
                "after write_event answered %s the write is scheduled with requires_event = %s (expected %s): %s" % (
                    v, sorted(str(x) for x in flags), flag,
                    "the lane's lifecycle handlers are run again when the write completes although nothing changed (on_event / on_set with no previous value, and every handler they trigger)" if flag is False
                    else "the handler the lane asked for is never run"))
        for c in sites:
            ps = [x for x in b.calls if x.name == "push" and (x.self_adt or "").endswith("futures_unordered::FuturesUnordered") and b.dominates(c.block, x.block)]
            r.check(bool(ps), "retain/do_write-scheduled/%s" % v, c.loc(), "the write future is pushed to pending_writes")
        key = "retain/DataStillAvailable=>stay-dirty" if v == "DataStillAvailable" else "retain/%s=>clean" % v
        r.check(ans == {stay}, key, we.loc(), "%s: the lane %s dirty_items" % (v, "stays in" if stay else "leaves"), "%s: retain answers %s (expected %s)" % (v, sorted(str(x) for x in ans), stay))
    return dw


def run(ctx):
    ag = ctx.crate(AG)
    rt = ctx.crate(RT)

    with ctx.rule("C01.R1", "T3", "every write of the value store's content sets dirty and records previous", floor=2) as r:
        n = 0
        for b in ag.all_bodies():
            if "stores::value::" not in b.defpath:
                continue
            writes = [(c.block, c.line, "mem::replace") for c in b.calls if c.name in ("replace", "swap", "take") and describe_operand(b, c.args[0]).endswith(".content") and "core::mem" in c.defpath]
            writes += [(i, line, "assignment") for i, j, p, rv, line in b.assigns() if p[1] and describe_place(b, p).endswith("content")]
            for blk, line, how in writes:
                nm = b.meta.get("name")
                if nm == "init":
                    r.ok("%s/init-exempt" % owner_def(b).split("::")[-1], b.loc(line), "init installs restored state that must not be re-published (exception)")
                    continue
                n += 1
                ctx.saw(b)
                dirty = {c.block for c in b.calls if c.name in ("replace", "set") and describe_operand(b, c.args[0]).endswith(".dirty") and describe_operand(b, c.args[1]) == "True"}
                ok, wit = b.must_pass(b.succ[blk], dirty)
                r.check(ok and bool(dirty), "%s/content=>dirty" % nm, b.loc(line), "content written (%s) => dirty := true on every path" % how,
                        "content is written but a path reaches return without setting dirty: the lane holds a value no remote ever receives (%s)" % wit)
                prev = {i for i, j, p, rv, l2 in b.assigns() if p[1] and describe_place(b, p).endswith("previous") and describe_rvalue(b, rv).startswith("Option::Some(")}
                ok2, wit2 = b.must_pass(b.succ[blk], prev)
                r.check(ok2 and bool(prev), "%s/content=>previous" % nm, b.loc(line), "previous := Some(old value) on every path", "previous is not recorded after the write: on_set sees no old value")
                for i, j, p, rv, l2 in b.assigns():
                    if i in prev and p[1] and describe_place(b, p).endswith("previous"):
                        d = describe_rvalue(b, rv)
                        r.check("replace(" in d and ".content" in d, "%s/previous-is-old-content" % nm, b.loc(l2), "previous holds the value mem::replace returned", "previous := %s" % d[:80])
        if n < 2:
            raise AnchorMissing("expected content writes in ValueStore::set and ::replace, found %d" % n)

    with ctx.rule("C01.R2", "T4+T2", "dirty is cleared only in consume / write_to_buffer, where the content is encoded", floor=2) as r:
        clears = []
        for b in ag.all_bodies():
            if "stores::value::" not in b.defpath:
                continue
            for c in b.calls:
                if c.name in ("replace", "set") and describe_operand(b, c.args[0]).endswith(".dirty") and describe_operand(b, c.args[1]) == "False":
                    clears.append((b, c))
        if len(clears) < 2:
            raise AnchorMissing("expected dirty to be cleared in consume and write_to_buffer, found %d sites" % len(clears))
        for b, c in clears:
            nm = b.meta.get("name")
            ctx.saw(b)
            r.check(nm in ("consume", "write_to_buffer"), "dirty-cleared/%s" % nm, c.loc(), "dirty cleared in %s" % nm, "dirty cleared in %s: a pending change can be forgotten" % b.defpath)
            if nm == "consume":
                be = b.bool_edges(c)
                rd = {x.block for x in b.calls if x.is_method(VS, "read")}
                ok, wit = b.must_pass([be[0]], rd) if be else (False, None)
                r.check(ok and bool(rd), "consume/was-dirty=>read", c.loc(), "if the flag was set the content is read and handed to the encoder closure", "the flag is consumed without encoding the content")
            if nm == "write_to_buffer":
                enc = [x for x in b.calls if x.via_name == "encode"]
                r.check(bool(enc) and all(b.dominates(x.block, c.block) for x in enc), "write_to_buffer/encode-before-clear", c.loc(), "the content is encoded before dirty is cleared")

    with ctx.rule("C01.R3", "T2+T11", "write-back loop: a lane stays dirty until its writer is back and it has nothing left; a removed writer is never dropped", floor=5) as r:
        cl = [b for b in ag.all_bodies() if "run_agent::{closure#0}::{closure" in b.defpath and any(c.via_name == "write_event" for c in b.calls)]
        if len(cl) != 1:
            raise AnchorMissing("run_agent: the dirty_items.retain closure was not found")
        b = ctx.saw(cl[0])
        rm = [c for c in b.calls if c.name == "remove" and is_item_writers(b, c.args[0])]
        we = [c for c in b.calls if c.via_name == "write_event"]
        if len(rm) != 1 or len(we) != 1:
            raise AnchorMissing("retain closure: item_writers.remove / write_event")
        sw = b.result_switches(rm[0])
        ve = b.variant_edges(sw[0]["block"]) if sw else None
        if not ve:
            raise AnchorMissing("retain closure: remove result not matched")
        rets = {i: describe_rvalue(b, rv) for i, j, p, rv, line in b.assigns() if p[0] == 0 and not p[1]}
        none_rets = [v for i, v in rets.items() if b.dominates(ve["None"], i)]
        r.check(none_rets == ["True"], "retain/no-writer=>stay-dirty", rm[0].loc(), "while the writer is lent out the lane stays in dirty_items", "without a writer the lane is dropped from dirty_items: its change is never published")
        # per write result (evaluated per variant, however the arms are written: one arm each, or merged arms with `result != Done` style expressions)
        dw = write_back_table(r, b, we[0])
        back = {c.block for c in b.calls if c.name == "insert" and is_item_writers(b, c.args[0])}
        ok, wit = b.must_pass([ve["Some"]], {c.block for c in dw} | back)
        r.check(ok, "retain/removed-writer-not-dropped", rm[0].loc(), "a writer taken out of item_writers always goes into do_write or back into item_writers",
                "on a path (write_event -> NoData / None) the ItemWriter removed from item_writers is dropped: the lane's output channel closes and the lane can never publish again (%s)" % wit)

    with ctx.rule("C01.R4", "T2", "WriteComplete re-inserts the writer unless the loop is left", floor=1) as r:
        ra = [b for b in ag.all_bodies() if b.defpath.endswith("run_agent::{closure#0}")]
        if len(ra) != 1:
            raise AnchorMissing("run_agent coroutine body")
        b = ctx.saw(ra[0])
        ins = [c for c in b.calls if c.name == "insert" and is_item_writers(b, c.args[0]) and any(l == "WriteComplete" for d, l, _ in dom_guards(b, c.block))]
        r.check(len(ins) == 1, "WriteComplete/reinsert-site", where(b), "one item_writers.insert in the WriteComplete arm", "found %d" % len(ins))
        if ins:
            c = ins[0]
            d1 = describe_operand(b, c.args[1])
            d2 = describe_operand(b, c.args[2])
            r.check("lane_id(" in d1 and "writer" in d2, "WriteComplete/reinsert-args", c.loc(), "insert(writer.lane_id(), writer)", "insert(%s, %s)" % (d1[:40], d2[:40]))
            # every path from the arm entry either reaches the insert or leaves the loop (break => no select again)
            arm = [a for (d, l, a) in dom_guards(b, c.block) if l == "WriteComplete"]
            if arm:
                ve2 = b.variant_edges(arm[0])
                start = ve2.get("WriteComplete")
                sel = {x.block for x in b.calls if x.via_name == "write_event"}  # not in this body
                # loop head: the retain call that ends every iteration
                ret = {x.block for x in b.calls if x.name == "retain"}
                ok, wit = b.must_pass([start], {c.block}, targets=ret)
                r.check(ok and bool(ret), "WriteComplete/writer-back-before-next-iteration", c.loc(), "the writer is back in item_writers before the write-back pass of that iteration",
                        "the loop can continue without the writer being returned: %s" % wit)

    with ctx.rule("C01.R5", "T3", "one queue entry per lane and remote: queued flag <=> entry in write_queue, kinds match", floor=20) as r:
        uplinks.queued_flag_discipline(r, ctx)

    with ctx.rule("C01.R6", "T4+T1", "ValueBackpressure.current is only overwritten by push_bytes and handed over by prepare_write (swap before clear)", floor=3) as r:
        uplinks.value_backpressure_rules(r, ctx)

    with ctx.rule("C01.R7", "T11", "the remote's writer token is handed back or becomes exactly one WriteTask; completed writes re-arm the remote", floor=8) as r:
        uplinks.writer_token(r, ctx)
        wt = rt.fn(suffix="agent::task::write_task::{closure#0}")
        rep = [c for c in wt.calls if c.is_method("task::WriteTaskState", "replace")]
        rmv = [c for c in wt.calls if c.is_method("task::WriteTaskState", "remove_remote")]
        r.check(len(rep) == 1 and any(l == "WriteDone" for d, l, _ in dom_guards(wt, rep[0].block)) and any(l == "Ok" for d, l, _ in dom_guards(wt, rep[0].block)), "write_task/WriteDone(Ok)=>replace", where(wt),
                "a completed write hands writer and buffer back through state.replace")
        r.check(len(rmv) == 1 and any(l == "Err" for d, l, _ in dom_guards(wt, rmv[0].block)), "write_task/WriteDone(Err)=>remove_remote", where(wt), "a failed write removes the remote")
        if rep:
            sw = [c for c in wt.calls if c.name == "schedule_write" and wt.dominates(rep[0].block, c.block)]
            r.check(bool(sw), "write_task/replace=>schedule", rep[0].loc(), "the follow-up write popped by replace is scheduled")

    with ctx.rule("C01.R8", "T8", "writer tokens are not Clone", floor=3) as r:
        for crate, adt in ((rt, "remotes::RemoteSender"), (rt, "write_fut::WriteTask"), (ag, "agent_model::io::ItemWriter")):
            r.check(crate.implements(adt, "core::clone::Clone") is None, adt.split("::")[-1] + "/not-Clone", "-", "%s is not Clone" % adt, "%s is Clone: two writes of one lane could be in flight" % adt)

    with ctx.rule("C01.R9", "T2", "value-lane / value-store mutating handlers report Modification::of(id)", floor=3) as r:
        n = 0
        for b in ag.all_bodies():
            if b.meta.get("name") != "step" or not _suffix_match(b.meta.get("trait"), "event_handler::HandlerAction"):
                continue
            muts = [c for c in b.calls if c.name in ("set", "replace") and (_suffix_match(c.callee.get("self_adt"), "lanes::value::ValueLane") or _suffix_match(c.callee.get("self_adt"), VS))]
            if not muts:
                continue
            n += 1
            ctx.saw(b)
            for c in muts:
                mods = [x for x in b.calls if x.is_method("event_handler::Modification", "of")]
                ok, wit = b.must_pass(b.succ[c.block], {x.block for x in mods})
                tag = (b.meta.get("self_adt") or "?").split("::")[-1]
                r.check(ok and bool(mods), "%s/mutation=>Modification::of" % tag, c.loc(), "%s.%s is followed by Modification::of on every path" % ((c.callee.get("self_adt") or "").split("::")[-1], c.name),
                        "a value mutation can complete without reporting a modification: neither published nor handled")
                for m in mods:
                    d = describe_operand(b, m.args[0])
                    r.check("id" in d, "%s/modification-id" % tag, m.loc(), "Modification::of(%s)" % d[:50])
        if n < 3:
            raise AnchorMissing("expected >= 3 value mutating handler steps (ValueLaneSet, ValueLaneSelectSet, ValueStoreSet), found %d" % n)

    with ctx.rule("C01.R10", "T1+T7", "every frame is addressed with the lane it belongs to (the sender's lane name is set per frame, for the lane of that frame)", floor=7) as r:
        uplinks.frame_lane_name(r, ctx)

    # a change is published only if the item it touched is collected as dirty on every path of run_handler, including the paths on which a
    # consequence handler fails and the agent carries on (C06.R1)
    # the value coalesced behind a busy writer is sent with its synced marker whatever its body (C03.R6)
    from rules import C03 as _C03
    ctx.borrow(_C03, {"C03.R6": ("C01.R12", "perform_write: the pending value of a lane goes out before its synced marker, unconditionally (C03.R6)")})
    from rules import C06 as _C06
    ctx.borrow(_C06, {"C06.R1": ("C01.R11", "every item a handler step modified is collected for writing, also when the handlers it triggers fail (C06.R1)")})

    with ctx.rule("C01.R13", "T2", "a lane event is handed to every remote linked to the lane, whether or not an earlier remote's writer is busy", floor=2) as r:
        _rt = ctx.crate("swimos_runtime")
        _he = ctx.saw(_rt.fn(name="handle_event", self_adt="task::WriteTaskState"))
        uplinks.broadcast_visits_every_target(r, ctx, _rt, _he)

