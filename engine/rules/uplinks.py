"""Checks on rt::agent::task::remotes::uplink::Uplinks shared by C01, C02, C03, C04 and C14.

Each function takes the rule object to report into, so that each property reports the instances
under its own rule id."""
from mirlib import AnchorMissing, describe_operand, describe_place, describe_rvalue, dom_guards, guards, _suffix_match
from rules.common import aggregates, field_writes, where, success_edge

UP = "uplink::Uplinks"
KINDS = ("Value", "Supply", "Map")
MAPFIELD = {"Value": "value_uplinks", "Supply": "supply_uplinks", "Map": "map_uplinks"}


def fns(ctx):
    rt = ctx.crate("swimos_runtime")
    return (ctx.saw(rt.fn(name="push", self_adt=UP)), ctx.saw(rt.fn(name="replace_and_pop", self_adt=UP)), ctx.saw(rt.fn(name="push_special", self_adt=UP)))


def _kind_of(g, which):
    """Kind constraint from dominating guards. which = 'push' | 'pop'."""
    ev = None
    sub = None
    for d, l, _ in g:
        if which == "push":
            if d == "disc(event)":
                ev = l
            elif d == "disc(event<Synced>.0)":
                sub = l
        else:
            if d.startswith("disc(pop_front(self.write_queue)<Some>.0.0"):
                ev = l
    return ev, sub


def queued_flag_discipline(r, ctx):
    """queued := true <=> write_queue.push_back((kind, id)) on the same path, with the kind matching the
    uplink map; one queue entry per lane (C01.R5 / C14.R2)."""
    push, pop, _ = fns(ctx)
    pbs = [c for c in push.calls if c.name == "push_back" and describe_operand(push, c.args[0]).endswith(".write_queue")]
    if len(pbs) < 1:
        raise AnchorMissing("Uplinks::push: no write_queue.push_back site")
    # recorded => scheduled: whatever the busy branch records on a lane's uplink entry (a value, an operation, the synced marker) is only ever sent
    # if the lane is in the write queue: every path from taking the entry to the normal return tests `queued` (and queues the lane when it is not)
    ents_ = [c for c in push.calls if c.name == "entry" and c.args and describe_operand(push, c.args[0]).endswith("_uplinks")]
    if len(ents_) < 2:
        raise AnchorMissing("Uplinks::push: expected the uplink entries taken while the writer is busy, found %d" % len(ents_))
    qtests = set()
    for b_ in range(push.n):
        t_ = push.term(b_)
        if t_.get("k") == "switch" and t_.get("discr") is not None and describe_operand(push, t_["discr"]).rstrip(")").endswith("queued"):
            qtests.add(b_)
    # the function's own normal result: an `Ok` that is (or is moved into) the return place - not the `Ok(())` of a closure handed to a helper, which is consumed by a `?`
    retloc = {0}
    for _ in range(4):
        for i, j, p_, rv, line in push.assigns():
            if p_[0] in retloc and not p_[1] and rv[0] == "use" and rv[1][0] in ("m", "c") and not rv[1][1][1]:
                retloc.add(rv[1][1][0])
    okret = {i for i, j, p_, rv, line in push.assigns() if describe_rvalue(push, rv).startswith("Result::Ok(") and p_[0] in retloc and not p_[1]}
    for c in sorted(ents_, key=lambda x: x.block):
        g = dom_guards(push, c.block)
        ev, sub = _kind_of(g, "push")
        arm = ("Synced(%s)" % sub) if ev == "Synced" and sub else (ev or "?")
        ok, wit = push.must_pass(push.succ[c.block], qtests, targets=okret | set(push.exits())) if qtests else (False, None)
        # error returns (an invalid map key) leave nothing recorded: only the paths that reach the normal return count
        if not ok and okret:
            ok = push.path_avoiding(push.succ[c.block], okret, avoid=qtests) is None
        r.check(ok, "push/%s/recorded=>scheduled" % arm, c.loc(), "what the %s arm records for the lane is followed by the `queued` test that puts the lane into the write queue" % arm,
                "the %s arm records state on the lane's uplink while the writer is busy and returns without making sure the lane is in write_queue: if nothing else is queued for the lane it is never written "
                "(a `synced` that is never sent, and a marker left behind that is emitted on a later link)" % arm)
    for c in pbs:
        g = dom_guards(push, c.block)
        ev, sub = _kind_of(g, "push")
        kind = sub if ev == "Synced" else ev
        arm = ("Synced(%s)" % sub) if ev == "Synced" else ev
        tup = describe_operand(push, c.args[1])
        # the kind of the entry is the constant of the arm, or the very value whose match selected the arm (`Synced(kind) => enqueue(.., (kind, id))`)
        first = tup[len("tuple("):].split(", ")[0] if tup.startswith("tuple(") else ""
        same_value = bool(first) and any(d == "disc(%s)" % first and l == kind for d, l, _ in g)
        r.check((tup.startswith("tuple(UplinkKind::%s()" % kind) or same_value) and "lane_id" in tup, "push/%s/queue-entry-kind" % arm, c.loc(), "%s arm enqueues %s" % (arm, tup),
                "%s arm enqueues %s: the entry would be popped from the wrong uplink map" % (arm, tup))
        r.check(any(d.endswith("queued") and l == "false" for d, l, _ in g), "push/%s/only-if-not-queued" % arm, c.loc(), "push_back only when the uplink is not already queued",
                "push_back without testing `queued`: a lane can be queued twice and overtake itself")
        # queued := true follows on every path
        qw = [(i, j) for i, j, p, rv, line in push.assigns() if p[1] and describe_place(push, p).endswith("queued") and describe_rvalue(push, rv) == "True"]
        ok, wit = push.must_pass(push.succ[c.block], {i for i, _ in qw if push.dominates(c.block, i)})
        r.check(ok, "push/%s/push_back=>queued:=true" % arm, c.loc(), "after push_back the uplink is marked queued", "push_back not followed by queued := true: %s" % wit)
        # the uplink whose flag is tested is the one from the matching map
        ent = [e for e in push.calls if e.name == "entry" and push.dominates(e.block, c.block) and any(e.block == a or push.dominates(a, e.block) for _, _, a in g[-1:])]
        ents = [describe_operand(push, e.args[0]) for e in push.calls if e.name == "entry" and push.dominates(e.block, c.block)]
        r.check(ents and all(x.endswith("." + MAPFIELD[kind]) for x in ents), "push/%s/uplink-map" % arm, c.loc(), "%s arm uses %s" % (arm, MAPFIELD.get(kind)),
                "%s arm uses %s" % (arm, ents))
    # pop side
    gm = [c for c in pop.calls if c.name == "get_mut" and "_uplinks" in describe_operand(pop, c.args[0])]
    if len(gm) != 3:
        raise AnchorMissing("replace_and_pop: expected 3 get_mut sites, found %d" % len(gm))
    for c in gm:
        ev, _ = _kind_of(dom_guards(pop, c.block), "pop")
        fld = describe_operand(pop, c.args[0])
        r.check(ev in KINDS and fld.endswith("." + MAPFIELD[ev]), "pop/%s/uplink-map" % ev, c.loc(), "popped kind %s looks in %s" % (ev, fld), "popped kind %s looks in %s" % (ev, fld))
        idarg = describe_operand(pop, c.args[1])
        r.check("pop_front(self.write_queue)<Some>.0.1" in idarg, "pop/%s/lane-id" % ev, c.loc(), "looked up by the popped lane id", "looked up by %s" % idarg)
    # every pop arm: queued := false or re-push of the same (kind, id)
    for kind in KINDS:
        arm_blocks = [b for b in range(pop.n) if not pop.is_cleanup(b)]
        clears = set()
        for i, j, p, rv, line in pop.assigns():
            if p[1] and describe_place(pop, p).endswith("queued") and describe_rvalue(pop, rv) == "False":
                if _kind_of(dom_guards(pop, i), "pop")[0] == kind:
                    clears.add(i)
        rep = set()
        for c in pop.calls:
            if not (c.name == "push_back" and describe_operand(pop, c.args[0]).endswith(".write_queue")):
                continue
            t = describe_operand(pop, c.args[1])
            ck = _kind_of(dom_guards(pop, c.block), "pop")[0]
            # one re-queue shared by the kinds puts back the popped entry itself
            popped = t in ("tuple(pop_front(self.write_queue)<Some>.0.0, pop_front(self.write_queue)<Some>.0.1)", "pop_front(self.write_queue)<Some>.0")
            if ck == kind or (ck is None and popped):
                r.check(popped or (t.startswith("tuple(UplinkKind::%s()" % kind) and "pop_front(self.write_queue)<Some>.0.1" in t), "pop/%s/requeue-same-entry" % kind, c.loc(),
                        "re-queues the same (kind, id)", "re-queues %s" % t)
                rep.add(c.block)
            elif ck is None:
                r.bad("pop/%s/requeue-same-entry" % kind, c.loc(), "a re-queue that does not depend on the popped kind puts back %s" % t)
        # start: the Some edge of get_mut for this kind
        g = [c for c in gm if _kind_of(dom_guards(pop, c.block), "pop")[0] == kind][0]
        some = success_edge(pop, g, "Some")
        if some is None:
            r.bad("pop/%s/uplink-found-edge" % kind, g.loc(), "result of get_mut is not matched")
            continue
        # targets: leaving the arm = reaching the loop head again (the write_queue.pop_front block) or return
        head = [c.block for c in pop.calls if c.name == "pop_front" and describe_operand(pop, c.args[0]).endswith(".write_queue")]
        ok, wit = pop.must_pass([some], clears | rep, targets=set(head) | set(pop.exits()))
        r.check(ok and bool(clears), "pop/%s/queued-cleared-or-requeued" % kind, g.loc(), "every path of the %s arm clears `queued` or re-queues the lane" % kind,
                "a path of the %s arm leaves queued == true with no queue entry: the lane is never written again (%s)" % (kind, wit))
    queue_entries_and_flags(r, ctx)


def no_data_no_event(r, ctx):
    """C04.R3: a data-carrying action is produced on the pop path only if has_data() said so."""
    _, pop, _ = fns(ctx)
    evs = aggregates(pop, "write_fut::WriteAction", "Event")
    if len(evs) != 3:
        raise AnchorMissing("replace_and_pop: expected 3 WriteAction::Event sites, found %d" % len(evs))
    for (blk, idx, ops, line, variant, dest) in evs:
        g = dom_guards(pop, blk)
        kind = _kind_of(g, "pop")[0]
        hd = [(d, l) for d, l, _ in g if d.startswith("has_data(") and MAPFIELD.get(kind, "?") in d]
        # `had_data.then_some(Event)`: the action is built first and kept only if the answer was yes
        for c in pop.calls:
            if c.name == "then_some" and len(c.args) == 2 and c.args[1][0] in ("c", "m") and c.args[1][1][0] == dest[0] and not c.args[1][1][1] and pop.dominates(blk, c.block):
                cond = describe_operand(pop, c.args[0])
                src = [x[1] for x in pop.sources(c.args[0]) if x[0] == "call" and x[1].name == "has_data"]
                pw = [x for x in pop.calls if x.name == "prepare_write" and MAPFIELD.get(kind, "?") in describe_operand(pop, x.args[0])]
                if cond.startswith("has_data(") and MAPFIELD.get(kind, "?") in cond and src and pw and all(pop.dominates(h.block, p_.block) for h in src for p_ in pw):
                    hd.append((cond, "true"))
        r.check(any(l == "true" for d, l in hd), "pop/%s/Event-needs-data" % kind, pop.loc(line), "WriteAction::Event only on the has_data() == true edge of the same uplink",
                "WriteAction::Event is produced without checking has_data(): a stale or synced-only queue entry sends an event with an empty body")
    vs = aggregates(pop, "write_fut::WriteAction", "ValueSynced")
    if len(vs) != 2:
        raise AnchorMissing("replace_and_pop: expected 2 WriteAction::ValueSynced sites, found %d" % len(vs))
    for (blk, idx, ops, line, variant, dest) in vs:
        kind = _kind_of(dom_guards(pop, blk), "pop")[0]
        d = describe_operand(pop, ops[0])
        r.check(d.startswith("has_data(") and MAPFIELD.get(kind, "?") in d, "pop/%s/ValueSynced-flag-from-has_data" % kind, pop.loc(line), "ValueSynced(%s)" % d[:70],
                "ValueSynced(%s): the 'send the value first' flag is not derived from has_data() of the same uplink" % d[:70])
        # has_data must be read before prepare_write drains the buffer
        hcalls = [c for c in pop.calls if c.name == "has_data" and pop.dominates(c.block, blk) and MAPFIELD.get(kind, "?") in describe_operand(pop, c.args[0])]
        pw = [c for c in pop.calls if c.name == "prepare_write" and MAPFIELD.get(kind, "?") in describe_operand(pop, c.args[0])]
        src = [s[1] for s in pop.sources(ops[0]) if s[0] == "call" and s[1].name == "has_data"]
        r.check(bool(src) and bool(pw) and all(pop.dominates(h.block, p.block) for h in src for p in pw), "pop/%s/has_data-before-prepare_write" % kind, pop.loc(line),
                "has_data() is sampled before prepare_write drains the buffer", "has_data() sampled after prepare_write: always false")


def special_preempts(r, ctx):
    """C04.R2: special actions pre-empt data; a queued Unlinked discards that lane's pending data."""
    _, pop, ps = fns(ctx)
    POPS = ("pop_front", "pop_back")
    sp = [c for c in pop.calls if c.name in POPS and describe_operand(pop, c.args[0]).endswith(".special_queue")]
    wq = [c for c in pop.calls if c.name in POPS and describe_operand(pop, c.args[0]).endswith(".write_queue")]
    if len(sp) != 1 or len(wq) != 1:
        raise AnchorMissing("replace_and_pop: special/write queue pop sites")
    # both queues are first-in-first-out: what is accepted first is written first (linked before the unlinked that follows it; a lane's turn in order)
    rt_ = ctx.crate("swimos_runtime")
    for q, popc in (("special_queue", sp[0]), ("write_queue", wq[0])):
        ins = set()
        for b in rt_.all_bodies():
            if "remotes::uplink::" not in b.defpath or "::tests" in b.defpath:
                continue
            for c in b.calls:
                if c.name in ("push_back", "push_front") and c.args and describe_operand(b, c.args[0]).endswith("." + q):
                    ins.add(c.name)
        fifo = (ins == {"push_back"} and popc.name == "pop_front") or (ins == {"push_front"} and popc.name == "pop_back")
        r.check(fifo, "%s/first-in-first-out" % q, popc.loc(), "%s: entries enter with %s and leave with %s" % (q, sorted(ins), popc.name),
                "%s: entries enter with %s but leave with %s: frames accepted while the writer is busy are written in reverse order (an unlinked before the linked it closes, a lane's events out of turn)" % (q, sorted(ins), popc.name))
    r.check(pop.dominates(sp[0].block, wq[0].block), "pop/special-first", sp[0].loc(), "special_queue is popped before write_queue", "write_queue popped before the special queue")
    sws = pop.result_switches(sp[0])
    none = [pop.variant_edges(si["block"]).get("None") for si in sws if pop.variant_edges(si["block"])]
    r.check(bool(none) and all(pop.dominates(n, wq[0].block) for n in none), "pop/data-only-if-no-special", wq[0].loc(), "data is popped only on the None edge of special_queue.pop_front()",
            "data may be popped although a special action is queued")
    pb = [c for c in ps.calls if c.name == "push_back" and describe_operand(ps, c.args[0]).endswith(".special_queue")]
    if len(pb) != 1:
        raise AnchorMissing("push_special: special_queue.push_back")
    eff = lane_entry_effects(ctx, ps)
    for kind in KINDS:
        fld = MAPFIELD[kind]
        e = eff[fld]
        reset = e["fields"].get("send_synced") == "False" and _fresh(e["fields"].get("backpressure"))
        how = "removed" if e["removed"] else ("reset in place (%s)" % sorted(e["fields"].items())) if reset else None
        r.check(how is not None, "push_special/unlinked-discards/" + fld, where(ps), "a queued Unlinked discards the lane's pending %s state: %s" % (kind.lower(), how),
                "a queued Unlinked leaves the lane's pending %s state (%s): data or a synced marker of the closed link can follow its unlinked" % (kind.lower(), sorted(e["fields"].items()) or "untouched"))
        for c in e["sites"]:
            g = dom_guards(ps, c.block)
            r.check(any(d == "disc(action)" and l == "Unlinked" for d, l, _ in g) and "lane_id" in describe_operand(ps, c.args[1]), "push_special/discard-guard/" + fld, c.loc(),
                    "discarded only for Unlinked, by its lane_id")
            r.check(ps.reaches(c.block, {pb[0].block}), "push_special/discard-before-queue/" + fld, c.loc(), "the discard precedes queuing the special action")


def _fresh(d):
    return d is not None and (d in ("default()", "take()") or d.startswith("new(") or d.startswith("default(") or d.endswith("::default()") or d == "cleared")


def lane_entry_effects(ctx, body):
    """What `body` does to the per-lane entry of each uplink map: {"value_uplinks": {"removed": bool, "fields": {field: value}, "sites": [calls]}, ..}.
    An entry is reached through `map.get_mut(lane)`; its fields are set directly or by a crate-local helper that sets them on every path."""
    prog = ctx.program("swimos_runtime")
    out = {}
    for fld in MAPFIELD.values():
        e = {"removed": False, "fields": {}, "sites": []}
        for c in body.calls:
            if not c.args:
                continue
            a0 = describe_operand(body, c.args[0])
            if c.name in ("remove", "remove_entry") and a0.endswith("." + fld):
                e["removed"] = True
                e["sites"].append(c)
            elif c.name == "get_mut" and a0.endswith("." + fld):
                e["sites"].append(c)
            elif a0.startswith("get_mut(self." + fld) or (".%s" % fld) in a0 and a0.startswith("get_mut("):
                # a method applied to the entry
                tail = a0.split(")")[-1]
                if c.name == "clear" and tail.endswith(".backpressure"):
                    e["fields"]["backpressure"] = "cleared"
                for hb in prog.callee_bodies(c):
                    if "remotes::uplink" not in hb.defpath:
                        continue
                    ctx.saw(hb)
                    for i, j, p, rv, line in hb.assigns():
                        dp = describe_place(hb, p)
                        if dp.startswith("self.") and dp.count(".") == 1 and hb.must_pass([0], {i})[0]:
                            e["fields"][dp[len("self."):]] = describe_rvalue(hb, rv)
        for i, j, p, rv, line in body.assigns():
            dp = describe_place(body, p)
            if dp.startswith("get_mut(") and ("." + fld) in dp.split(")")[0] + ")" and "<Some>" in dp:
                if not dp.split(".")[-1].isdigit():
                    e["fields"][dp.split(".")[-1]] = describe_rvalue(body, rv)
        out[fld] = e
    return out


def queue_entries_and_flags(r, ctx):
    """C01.R5b: `queued` says "this lane has an entry in write_queue". Entries leave the queue at the pop in replace_and_pop (checked by
    queued_flag_discipline); any other operation that can take entries out (retain, clear, remove, drain, truncate, ..) must, on the same path, clear
    `queued` on - or remove - the uplinks whose entries it may have dropped. Otherwise a lane is left flagged as queued with no entry: nothing is
    ever enqueued for it again and its latest value is never written."""
    rt = ctx.crate("swimos_runtime")
    n = 0
    for b in rt.all_bodies():
        if "remotes::uplink::" not in b.defpath or "::tests" in b.defpath:
            continue
        shr = [c for c in b.calls if c.name in ("retain", "retain_mut", "clear", "remove", "drain", "truncate", "pop_back", "split_off", "swap_remove_back", "swap_remove_front")
               and c.args and describe_operand(b, c.args[0]).endswith(".write_queue")]
        if not shr:
            continue
        ctx.saw(b)
        eff = lane_entry_effects(ctx, b)
        home = b.meta.get("name") or b.defpath.split("::")[-1]
        for c in shr:
            for kind in KINDS:
                fld = MAPFIELD[kind]
                e = eff[fld]
                n += 1
                r.check(e["removed"] or e["fields"].get("queued") == "False", "%s/write_queue.%s/%s-flag-cleared" % (home, c.name, fld), c.loc(),
                        "entries taken out of write_queue by %s: the %s uplink is removed or its `queued` flag cleared" % (c.name, kind.lower()),
                        "%s takes entries out of write_queue with %s but the %s uplink of that lane keeps queued == true (fields touched: %s): no entry is ever enqueued for the lane again and its latest value is never written" % (
                            home, c.name, kind.lower(), sorted(e["fields"].items()) or "none"))
    if n == 0:
        _, pop, _ = fns(ctx)
        r.ok("write_queue/entries-leave-only-at-the-pop", where(pop), "no function of Uplinks takes entries out of write_queue except the pop in replace_and_pop")


def uplink_state_lifetime(r, ctx):
    """C14.R3c: the per-lane uplink entries (pending supply items, value, map queue) are dropped - removed from their map or reset in place - when an
    Unlinked is *accepted*, never when a queued special action is popped: by then the remote may have linked again and the entry holds items owed to
    the new link."""
    rt = ctx.crate("swimos_runtime")
    push, pop, ps = fns(ctx)
    n = 0
    for b in rt.all_bodies():
        if "remotes::uplink::" not in b.defpath or "::tests" in b.defpath:
            continue
        eff = lane_entry_effects(ctx, b)
        home = (b.meta.get("name") or b.defpath.split("::")[-1])
        for fld, e in sorted(eff.items()):
            how = "remove" if e["removed"] else "reset" if "backpressure" in e["fields"] and _fresh(e["fields"]["backpressure"]) else None
            if how is None:
                continue
            n += 1
            ctx.saw(b)
            site = e["sites"][0].loc() if e["sites"] else where(b)
            r.check(b is ps, "%s/%s.%s/only-when-unlinked-is-accepted" % (home, fld, how), site, "%s is dropped in push_special, in the order the unlink was requested" % fld,
                    "%s drops %s entries: when a queued Unlinked is finally written the remote may have linked again, and the items supplied to the new link (which are in that entry) are lost" % (home, fld))
        for c in b.calls:
            if c.name in ("clear", "retain", "drain") and c.args and "_uplinks" in describe_operand(b, c.args[0]):
                n += 1
                ctx.saw(b)
                fld = describe_operand(b, c.args[0]).split(".")[-1]
                r.check(b is ps, "%s/%s.%s/only-when-unlinked-is-accepted" % (home, fld, c.name), c.loc(), "%s is dropped in push_special" % fld, "%s drops %s entries in bulk" % (home, fld))
    r.check(n >= 3, "uplinks-state/removal-sites", where(ps), "%d sites drop per-lane uplink state" % n)


def writer_token(r, ctx):
    """C01.R7: the lent-out writer is handed back or turned into exactly one WriteTask."""
    push, pop, ps = fns(ctx)
    for b, nm in ((push, "push"), (ps, "push_special")):
        tk = [c for c in b.calls if c.name == "take" and describe_operand(b, c.args[0]).endswith(".writer")]
        if len(tk) != 1:
            raise AnchorMissing("%s: writer.take()" % nm)
        news = [c for c in b.calls if c.is_method("write_fut::WriteTask", "new")]
        sws = b.result_switches(tk[0])
        some = [b.variant_edges(si["block"]).get("Some") for si in sws if b.variant_edges(si["block"])]
        if not some:
            r.bad("%s/writer-take-matched" % nm, tk[0].loc(), "writer.take() result is not matched")
            continue
        # ... or is put back into self.writer (an event that is rejected before anything is written: handle_event discards the event and carries on,
        # so a sender that is dropped here leaves the remote attached, linked and counted but never written to again - F61)
        back = {i for i, j, p, rv, line in b.assigns() if p[1] and describe_place(b, p).endswith("writer") and describe_rvalue(b, rv).startswith("Option::Some(")}
        ok, wit = b.must_pass([some[0]], {c.block for c in news} | back)
        r.check(ok and bool(news), "%s/taken-writer=>WriteTask" % nm, tk[0].loc(), "a taken writer always becomes a WriteTask or is put back (%d store-back site%s)" % (len(back), "" if len(back) == 1 else "s"),
                "a taken writer can be dropped without producing a WriteTask and without being put back (path %s): the caller discards the error and carries on, so the remote stays attached and linked but nothing is ever written to it again" % wit)
        for c in news:
            a0 = describe_operand(b, c.args[0])
            r.check("take(self.writer)" in a0, "%s/WriteTask-uses-taken-writer" % nm, c.loc(), "WriteTask built from the taken writer")
    # replace_and_pop: sender param ends in a WriteTask or back in self.writer
    news = [c for c in pop.calls if c.is_method("write_fut::WriteTask", "new")]
    back = [(i, line) for i, j, p, rv, line in pop.assigns() if p[1] and describe_place(pop, p).endswith("writer") and "Option::Some(tuple(sender, buffer))" == describe_rvalue(pop, rv)]
    ok, wit = pop.must_pass([0], {c.block for c in news} | {i for i, _ in back})
    r.check(ok and len(back) == 1, "replace_and_pop/sender=>task-or-stored", where(pop), "the returned sender is used for the next WriteTask or stored back in self.writer on every path",
            "the returned sender can be dropped: %s" % wit)
    for c in news:
        r.check(describe_operand(pop, c.args[0]) == "sender" and describe_operand(pop, c.args[1]) == "buffer", "replace_and_pop/WriteTask-args", c.loc(), "WriteTask::new(sender, buffer, ..)")
    for i, line in back:
        g = dom_guards(pop, i)
        r.check(any(d == "disc(pop_front(self.write_queue))" and l == "None" for d, l, _ in g), "replace_and_pop/stored-only-when-idle", pop.loc(line), "the writer is parked only when both queues are empty")


def synced_marker(r, ctx):
    """C03.R7: Synced(kind) sets send_synced on the uplink of that kind; the pop consumes it; the map arm moves
    the whole queue into MapSynced."""
    push, pop, _ = fns(ctx)
    ss = [(i, j, p, rv, line) for i, j, p, rv, line in push.assigns() if p[1] and describe_place(push, p).endswith("send_synced")]
    if len(ss) != 3:
        raise AnchorMissing("Uplinks::push: expected 3 send_synced writes, found %d" % len(ss))
    for i, j, p, rv, line in ss:
        ev, sub = _kind_of(dom_guards(push, i), "push")
        ents = [describe_operand(push, e.args[0]) for e in push.calls if e.name == "entry" and push.dominates(e.block, i)]
        r.check(ev == "Synced" and describe_rvalue(push, rv) == "True" and ents and all(x.endswith("." + MAPFIELD[sub]) for x in ents), "push/Synced(%s)/send_synced:=true" % sub, push.loc(line),
                "Synced(%s) marks the %s uplink" % (sub, MAPFIELD.get(sub)), "Synced(%s) marks %s" % (sub, ents))
    # the marker is consumed by reading and clearing it in one go: mem::replace(m, false), mem::take(m), or an assignment of false
    reps = [c for c in pop.calls if c.name in ("replace", "take") and (c.defpath or "").startswith("core::mem::") and describe_operand(pop, c.args[0]).endswith("send_synced")
            and (c.name == "take" or describe_operand(pop, c.args[1]) == "False")]
    r.check(len(reps) == 3, "pop/send_synced-consumed", where(pop), "each arm consumes the marker with mem::replace(send_synced, false)",
            "send_synced is not consumed in every arm: synced would be sent twice or never")
    ms = aggregates(pop, "write_fut::WriteAction", "MapSynced")
    for (blk, idx, ops, line, variant, dest) in ms:
        d = describe_operand(pop, ops[0])
        r.check("take(" in d and ".backpressure" in d and "map_uplinks" in d, "pop/Map/MapSynced-takes-whole-queue", pop.loc(line), "MapSynced carries mem::take(backpressure) of the map uplink",
                "MapSynced carries %s: queued map operations would arrive after synced" % d[:80])
        g = dom_guards(pop, blk)
        r.check(any("send_synced" in dd and l == "true" for dd, l, _ in g), "pop/Map/MapSynced-iff-marker", pop.loc(line), "MapSynced only when the marker was set")
    for (blk, idx, ops, line, variant, dest) in aggregates(pop, "write_fut::WriteAction", "ValueSynced"):
        g = dom_guards(pop, blk)
        kind = _kind_of(g, "pop")[0]
        r.check(any("send_synced" in dd and l == "true" for dd, l, _ in g), "pop/%s/ValueSynced-iff-marker" % kind, pop.loc(line), "ValueSynced only when the marker was set")


def requeue_while_data(r, ctx, kinds=("Supply", "Map")):
    """C14.R3 / C02.R8: after prepare_write, has_data() => the lane is queued again."""
    _, pop, _ = fns(ctx)
    for kind in kinds:
        pws = [c for c in pop.calls if c.name == "prepare_write" and MAPFIELD[kind] in describe_operand(pop, c.args[0])]
        if len(pws) != 1:
            raise AnchorMissing("replace_and_pop: prepare_write for %s" % kind)
        pw = pws[0]
        hds = [c for c in pop.calls if c.name == "has_data" and MAPFIELD[kind] in describe_operand(pop, c.args[0]) and pop.dominates(pw.block, c.block)]
        if not hds:
            r.bad("pop/%s/has_data-after-prepare_write" % kind, pw.loc(), "no has_data() test after prepare_write: remaining records of the lane are never sent")
            continue
        be = pop.bool_edges(hds[0])
        rep = {c.block for c in pop.calls if c.name == "push_back" and describe_operand(pop, c.args[0]).endswith(".write_queue")}
        head = [c.block for c in pop.calls if c.name == "pop_front" and describe_operand(pop, c.args[0]).endswith(".write_queue")]
        # from the question itself, leaving out its `no` answer: the answer may be kept (`let more = ..`) and asked about again further down, even by the caller
        ok, wit = pop.must_pass_edges([hds[0].block], rep, {(be[2], be[1])}, targets=set(head) | set(pop.exits())) if be else (False, None)
        r.check(ok, "pop/%s/data-left=>requeued" % kind, hds[0].loc(), "if data remains after prepare_write the lane is queued again", "data can remain without the lane being re-queued: %s" % wit)

def value_backpressure_rules(r, ctx):
    """ValueBackpressure.current: overwritten only by push_bytes, handed over by prepare_write (shared by C01.R6, C07.R7)."""
    rt = ctx.crate("swimos_runtime")
    VB = "backpressure::ValueBackpressure"
    for b in rt.all_bodies():
        for c in b.calls:
            if not c.args:
                continue
            p = c.arg_path(0)
            touched = [a for a in c.args if a[0] in ("c", "m") and b.resolve(a[1]).has_field(VB, "current")]
            if not touched:
                continue
            if c.name in ("is_empty", "len", "as_ref", "deref") or b.meta.get("name") == "fmt":
                continue
            ctx.saw(b)
            nm = b.meta.get("name")
            r.check(nm in ("push_bytes", "prepare_write") and ("ValueBackpressure" in b.defpath), "current-access/%s/%s" % (nm, c.name), c.loc(), "current.%s in %s" % (c.name, nm),
                    "ValueBackpressure.current modified in %s (%s)" % (b.defpath, c.name))
    pw = rt.fn(name="prepare_write", self_adt=VB)
    # "is a value pending" is a state of its own: an empty body is a value (the Recon of Extant), so the answer must not be
    # read off the buffer's content
    hd = [b for b in rt.all_bodies() if b.meta.get("name") == "has_data" and "ValueBackpressure" in b.defpath and not any(c.name == "has_data" for c in b.calls)]
    if len(hd) < 1:
        raise AnchorMissing("ValueBackpressure::has_data (inherent)")
    # (the inherent method, and the trait's when it answers by itself instead of delegating: every one of them is read)
    hds = [ctx.saw(x) for x in hd]
    hd = hds[0]
    flds = set()
    for hd_ in hds:
        for i, j, p_, rv, line in hd_.assigns():
            for o in ([rv[1]] if rv[0] == "use" else [rv[2]] if rv[0] in ("un", "cast") else [["c", rv[2]]] if rv[0] == "ref" else []):
                pl = o[1] if o and o[0] in ("c", "m") else None
                if pl is not None:
                    flds |= {f for a, f in hd_.resolve(pl).field_pairs if str(a).endswith("ValueBackpressure")}
        for c in hd_.calls:
            for a in c.args:
                if a[0] in ("c", "m"):
                    flds |= {f for a_, f in hd_.resolve(a[1]).field_pairs if str(a_).endswith("ValueBackpressure")}
    r.check("current" not in flds and flds, "has_data/independent-of-the-body", where(hd), "has_data reads %s, not the content of the buffer: an empty body is still a pending value" % sorted(flds),
            "ValueBackpressure::has_data is computed from the buffer (%s): a pending value whose body is empty (Extant) is forgotten, and it has already replaced the value before it" % sorted(flds))
    pbb = rt.fn(name="push_bytes", self_adt=VB)

    def const_store(b, fld, val):
        return [i for i, j, p_, rv, line in b.assigns() if rv[0] == "use" and rv[1][0] == "k" and rv[1][1].get("b") is val and describe_place(b, p_).endswith("." + fld)]
    for f in sorted(flds - {"current"}):
        st = const_store(pbb, f, True)
        r.check(bool(st) and all(pbb.path_avoiding([0], set(pbb.exits()), avoid={i}) is None for i in st[:1]), "push_bytes/sets-%s" % f, where(pbb), "every push marks a value as pending", "push_bytes does not set `%s` on every path" % f)
        cl = const_store(pw, f, False)
        r.check(bool(cl) and all(pw.path_avoiding([0], set(pw.exits()), avoid={i}) is None for i in cl[:1]) and not const_store(pw, f, True), "prepare_write/clears-%s" % f, where(pw), "handing the value over clears the mark", "prepare_write does not clear `%s`: the same value is sent again and again" % f)
    swp = [c for c in pw.calls if c.name == "swap"]
    clr = [c for c in pw.calls if c.name == "clear" and describe_operand(pw, c.args[0]).endswith(".current")]
    bad_clr = [c for c in pw.calls if c.name in ("clear", "truncate") and c.args and not describe_operand(pw, c.args[0]).endswith(".current")]
    r.check(len(swp) == 1 and all(pw.dominates(swp[0].block, c.block) for c in clr) and not bad_clr, "prepare_write/swap-before-clear", where(pw),
            "the pending value is swapped into the output buffer (and only afterwards may current be emptied)", "prepare_write clears before swapping (the value is lost) or clears the output buffer")
    pb = rt.fn(name="push_bytes", self_adt=VB)
    on_cur = [c for c in pb.calls if c.args and describe_operand(pb, c.args[0]).endswith("current")]
    puts = [c for c in on_cur if c.name in ("put", "put_slice", "extend_from_slice", "extend")]
    pclr = [c for c in on_cur if c.name == "clear" or (c.name == "truncate" and describe_operand(pb, c.args[1]) == "0")]
    # the buffer that prepare_write swaps in is the writer's and still holds the body of the frame sent last. A new value must land in an empty buffer:
    # either push_bytes empties `current` on every path before it writes (A), or prepare_write leaves it empty after the swap on every path (B)
    a_ok = bool(puts) and all(pb.must_pass([0], {c.block for c in pclr}, targets={p_.block})[0] if pclr else False for p_ in puts)
    b_ok = bool(clr) and len(swp) == 1 and pw.must_pass(pw.succ[swp[0].block], {c.block for c in clr})[0]
    r.check(bool(puts) and (a_ok or b_ok), "push_bytes/overwrite", where(pb), "a pushed value always lands in an emptied buffer (%s)" % ("push_bytes clears first" if a_ok else "prepare_write leaves current empty"),
            "a value can be appended to what `current` already holds: neither push_bytes empties it on every path nor prepare_write after the swap - the bytes of the frame sent last (which came back with the swapped-in buffer) go out again in front of the next value")


def frame_lane_name(r, ctx):
    """Every frame a remote receives is addressed with the lane it belongs to. RemoteSender keeps the lane name of the *next* frame as state
    (`update_lane`), so every WriteTask built in Uplinks must be dominated by an update_lane on the same sender whose name is looked up for the lane the
    action belongs to: the pushed lane id, the popped queue entry's id, or the special action's own lane. A site that skips it sends the frame under
    the lane of the previous frame of that remote."""
    rt = ctx.crate("swimos_runtime")
    push, pop, ps = fns(ctx)
    n = 0
    for b, which in ((push, "push"), (ps, "push_special"), (pop, "replace_and_pop")):
        news = [c for c in b.calls if c.name == "new" and "write_fut::WriteTask" in c.defpath]
        if not news:
            # each of the three hands a frame to the writer when it is free: how many construction sites they share is a matter of style
            raise AnchorMissing("Uplinks::%s builds no WriteTask" % which)
        ups = [c for c in b.calls if c.name == "update_lane"]
        for k_, c in enumerate(sorted(news, key=lambda x: x.line)):
            n += 1
            snd = describe_operand(b, c.args[0])
            act = describe_operand(b, c.args[2])
            dom = [u for u in ups if b.dominates(u.block, c.block) and describe_operand(b, u.args[0]) == snd]
            # the nearest one
            dom.sort(key=lambda u: sum(1 for v in dom if b.dominates(v.block, u.block)))
            key = "%s/frame#%d(%s)" % (which, k_, act.split("(")[0].replace("WriteAction::", "")[:24])
            if not dom:
                r.bad(key + "/lane-name-set", c.loc(), "a frame is written without setting the sender's lane name first: it goes out under the lane of the previous frame sent to that remote")
                continue
            nm = describe_operand(b, dom[-1].args[1])
            if "Special(" in act:
                inner = act[act.index("Special(") + len("Special("):-1]
                ok = nm.startswith("lane_name(" + inner)
                want = "the special action's own lane"
            elif which == "push":
                ok = "name_for(registry, lane_id)" in nm
                want = "the lane the event was pushed for"
            else:
                ok = "name_for(registry, pop_front(self.write_queue)<Some>.0.1)" in nm
                want = "the lane of the queue entry that was popped"
            r.check(ok, key + "/lane-name-of-this-frame", dom[-1].loc(), "the frame is addressed with %s (%s)" % (want, nm[:70]),
                    "the lane name set for this frame is `%s`, not %s: the remote receives the frame under another lane" % (nm[:80], want))
            # no other update_lane between the chosen one and the frame
            later = [u for u in ups if u is not dom[-1] and b.dominates(dom[-1].block, u.block) and b.dominates(u.block, c.block)]
            r.check(not later, key + "/lane-name-not-overwritten", c.loc(), "nothing re-targets the sender between naming the lane and building the frame")
    others = []
    for b in rt.all_bodies():
        if "::tests" in b.defpath:
            continue
        for c in b.calls:
            if c.name == "new" and "write_fut::WriteTask" in c.defpath and "uplink::Uplinks" not in b.defpath:
                others.append(b.defpath)
            if c.name == "update_lane" and "uplink::Uplinks" not in b.defpath:
                others.append(b.defpath)
    r.check(not others, "frames-built-only-in-Uplinks", where(push), "WriteTask::new and update_lane are used only inside Uplinks (%d frame sites)" % n, "frames are also built in %s" % sorted(set(others)))


def implicit_link_rule(r, ctx, rt, he):
    """WriteTaskState::handle_event: a targeted response to a remote links it first - decided by a test of this (remote, lane) pair, recorded only for a
    remote the tracker knows, `linked` queued before the data. Shared by C04.R8 and C03.R5. Returns (push_special calls, push_write calls)."""
    # implicit link: on !is_linked: links.insert and push_special(Linked) dominate push_write; order of the pair (w1, w2)
    ins = [c for c in he.calls if c.is_method("links::Links", "insert")]
    sp = [c for c in he.calls if c.name == "push_special"]
    pws = [c for c in he.calls if c.name == "push_write"]
    if len(ins) != 1 or len(sp) != 1:
        raise AnchorMissing("handle_event: implicit link sites (links.insert %d, push_special %d)" % (len(ins), len(sp)))
    # the test that decides "not linked yet" has to be about this (lane, remote) pair: a remote that is linked to
    # another lane only must still get `linked` for this one before any of its frames
    lane_d, remote_d = describe_operand(he, ins[0].args[1]), describe_operand(he, ins[0].args[2])
    g = dom_guards(he, ins[0].block)
    def all_args(d):
        """all (nested) call arguments of a rendered expression"""
        out, depth, cur, stack = [], 0, "", []
        for ch in d:
            if ch == "(":
                stack.append(cur)
                cur = ""
            elif ch == ")":
                if cur.strip():
                    out.append(cur.strip())
                cur = stack.pop() + "()" if stack else ""
            elif ch == "," :
                if cur.strip():
                    out.append(cur.strip())
                cur = ""
            else:
                cur += ch
        return out
    pair_tests = [(d, l) for d, l, _ in g if "links" in d and lane_d in all_args(d) and remote_d in all_args(d)]
    r.check(len(pair_tests) >= 1 and all(l == "false" for d, l in pair_tests if d.startswith("is_linked(")), "handle_event/implicit-link-iff-pair-not-linked", ins[0].loc(),
            "links.insert + Linked exactly when this (remote, lane) pair is not linked (%s)" % (pair_tests[0][0][:50] if pair_tests else ""),
            "the implicit link is decided by %s, which does not test the (remote %s, lane %s) pair: a remote linked to another lane gets this lane's frames without `linked` and is never recorded as linked" % ([(d[:50], l) for d, l, _ in g if "links" in d or "link" in d][-2:], remote_d, lane_d))
    known = [(d, l) for d, l, _ in g if d.startswith("has_remote(") and remote_d in all_args(d)]
    r.check(any(l == "true" for d, l in known), "handle_event/implicit-link-only-for-attached-remote", ins[0].loc(), "the implicit link is recorded only for a remote the tracker still knows (has_remote)",
            "links.insert for the target of a response is not guarded by remote_tracker.has_remote: the late response of a remote that was removed creates a link that nothing can ever remove (and that is counted)")
    r.check(all(any(dd == d and ll == l for dd, ll, _ in dom_guards(he, sp[0].block)) for d, l in pair_tests), "handle_event/Linked-under-the-same-test", sp[0].loc(), "the Linked frame is queued under the same test as the registration")
    # order on the implicit-link path: insert, push_special(Linked), then the data - as a path property (the data may be queued after the two
    # branches have merged): every way on from the Linked reaches a push_write, and no push_write for this response can come before it
    after = [c for c in pws if he.reaches(sp[0].block, {c.block}) and c.block != sp[0].block]
    follows = bool(after) and he.must_pass(he.succ[sp[0].block], {c.block for c in after}, targets=set(he.exits()))[0]
    before = [c for c in pws if he.reaches(c.block, {sp[0].block}) and c.block != sp[0].block]
    r.check(follows and not before and he.dominates(ins[0].block, sp[0].block), "handle_event/linked-before-data", sp[0].loc(), "insert, then push_special(Linked), then push_write on the implicit-link path",
            "data is queued before the implicit Linked" if before else "the implicit Linked is not followed by the data on every path")
    # the pair handed to Writes::from is (linked, data): what flows into each component
    pair_ok = None
    for c in he.calls:
        if c.via_name == "from" and "Writes" in (c.defpath or "") and c.args:
            pl = c.args[0]
            for i_, j_, p_, rv_, line_ in he.assigns():
                if rv_[0] == "agg" and rv_[1].get("tuple") and len(rv_[2]) == 2 and he.copy_root(pl) == p_[0]:
                    s0 = he.sources(rv_[2][0], stop_at_calls=False)
                    s1 = he.sources(rv_[2][1], stop_at_calls=False)
                    f0 = any(x[0] == "call" and x[1].name == "push_special" for x in s0) and not any(x[0] == "call" and x[1].name == "push_write" for x in s0)
                    f1 = any(x[0] == "call" and x[1].name == "push_write" for x in s1) and not any(x[0] == "call" and x[1].name == "push_special" for x in s1)
                    pair_ok = (pair_ok is None or pair_ok) and f0 and f1 if (f0 or f1 or any(x[0] == "call" and x[1].name in ("push_special", "push_write") for x in s0 + s1)) else pair_ok
    r.check(pair_ok is True, "handle_event/pair-order", sp[0].loc(), "Writes::from((linked, data)): the first component comes from push_special, the second from push_write",
            "the pair handed to Writes::from is not (linked, data): the data would be written before `linked`")
    r.check("SpecialAction::Linked(id)" in describe_operand(he, sp[0].args[1]), "handle_event/linked-same-lane", sp[0].loc(), "the implicit Linked names the event's lane")
    return sp, pws


SHORT_CIRCUIT = ("map_while", "take_while", "take", "skip", "skip_while", "step_by", "scan", "nth", "find", "find_map", "position", "any", "all", "try_for_each", "try_fold", "last", "next_back", "min", "max")


def broadcast_visits_every_target(r, ctx, rt, he):
    """handle_event hands an untargeted lane event to every remote linked to the lane (`links.linked_from(lane)`): some get a write at once, the others
    have it queued behind their busy writer (push_write answers None for those). The iteration over the targets must not stop early: an adapter
    that ends the iteration at the first `None` (map_while, take_while ..) starves every remote after the first busy one - they get neither a write
    nor a queued item, although they are linked."""
    lf = [c for c in he.calls if c.name == "linked_from"]
    if len(lf) != 1:
        raise AnchorMissing("handle_event: links.linked_from(lane)")
    chain = []
    for c in he.calls:
        if (c.trait or "").endswith("iterator::Iterator") or c.name in ("iter", "into_iter", "zip"):
            if c.args and any(x[0] == "call" and x[1] is lf[0] for x in he.sources(c.args[0], stop_at_calls=False)):
                chain.append(c)
    if len(chain) < 2:
        raise AnchorMissing("handle_event: the iteration over the linked remotes (found %d adapter calls)" % len(chain))
    cut = [c for c in chain if (c.via_name or c.name) in SHORT_CIRCUIT]
    r.check(not cut, "handle_event/broadcast-visits-every-linked-remote", (cut[0].loc() if cut else where(he)), "the event is pushed to every remote of links.linked_from(lane) (%s)" % " -> ".join(c.name for c in chain),
            "the iteration over the linked remotes is cut short by `%s`: it ends at the first remote whose writer is busy (push_write answers None after queueing), and the remotes after it get neither a write nor a queued item" % (cut[0].name if cut else ""))
    pw = [c for c in he.calls if c.name == "push_write"] + [x for cb in rt.closures_of(he.defpath) for x in cb.calls if x.name == "push_write"]
    r.check(bool(pw), "handle_event/broadcast-pushes", where(he), "every visited remote is handed the event through RemoteTracker::push_write")
    return chain
