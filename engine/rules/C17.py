"""C17 Inactivity shutdown needs all parties idle at once and cannot deadlock."""
from mirlib import op_place, AnchorMissing, describe_operand, describe_rvalue, dom_guards, guards, _suffix_match
from rules.common import guards_with_sources, aggregates, callers_by_name, calls_on_field, owner_def, where

META = {
    "explanation": (
        "C17: the coordinator is a lock-free bit set. R1 vote() is one fetch_or and decides unanimity from the value that RMW returned, "
        "waking the receiver before reporting Unanimous; R2 rescind() only writes flags with compare_exchange whose expected value was "
        "observed and whose new value clears exactly its own bit, and refuses once all bits are set; R3 `voted` mirrors the voter's own bit "
        "(set on vote, cleared on every successful rescind) - the invariant the two-party fast path and Drop rely on; R4 Drop votes when no "
        "vote is outstanding; R5 Receiver::poll registers its waker before the deciding load; R6 flags is written by nothing else, the handles "
        "are not Clone, voter i owns bit 1<<i; R7 every caller compares the result with Unanimous, leaves its loop on Unanimous and keeps its "
        "own voted flag in step."
        " R10 downlink read task: taking on a consumer is followed by the test of the task's `voted` flag (and the rescind) before it waits again."),
    "does_not_decide": "weak-memory behaviour of the Relaxed orderings (needs a model checker - different family)",
}

RT = "swimos_runtime"
V = "timeout_coord::Voter"


def ret_blocks(b, adt, variant):
    return [(i, line) for i, j, p, rv, line in b.assigns() if p[0] == 0 and not p[1] and rv[0] == "agg" and rv[1].get("adt", "").endswith(adt) and rv[1].get("variant") == variant]


def run(ctx):
    rt = ctx.crate(RT)
    vote = ctx.saw(rt.fn(name="vote", self_adt=V))
    resc = ctx.saw(rt.fn(name="rescind", self_adt=V))

    # private helpers of Voter that vote()/drop() delegate to (e.g. `fn set_flag(&self) -> u8 { self.flags.fetch_or(..) }`)
    by_def = {b.defpath: b for b in rt.all_bodies() if "timeout_coord" in b.defpath}

    def helpers(b):
        return [(c, by_def[c.defpath]) for c in b.calls if c.defpath in by_def and _suffix_match(c.self_adt, V) and c.name not in ("vote", "rescind")]

    def is_flags_rmw(b, c):
        return bool(c.args) and ".flags" in describe_operand(b, c.args[0]) and "Atomic" in (c.callee.get("self_ty") or c.defpath)

    def returns_fetch_or(hb):
        """the helper's return value is the value returned by its fetch_or on flags"""
        fo = [c for c in hb.calls if c.name == "fetch_or" and is_flags_rmw(hb, c)]
        return bool(fo) and any(s_[0] == "call" and s_[1] is fo[0] for s_ in hb.sources(["c", [0, []]])) or any(c.dest[0] == 0 and not c.dest[1] for c in fo)

    def sets_voted(hb):
        sets_ = [c for c in hb.calls if c.name == "set" and ".voted" in describe_operand(hb, c.args[0]) and describe_operand(hb, c.args[1]) == "True"]
        ok_, _w = hb.must_pass([0], {c.block for c in sets_})
        return bool(sets_) and ok_

    with ctx.rule("C17.R1", "T7", "vote(): one fetch_or; unanimity decided from its returned value; wake before Unanimous; voted := true", floor=4) as r:
        hs = helpers(vote)
        atom = [(vote, c) for c in vote.calls if is_flags_rmw(vote, c)] + [(hb, c) for _, hb in hs for c in hb.calls if is_flags_rmw(hb, c)]
        r.check(len(atom) == 1 and atom[0][1].name == "fetch_or" and describe_operand(atom[0][0], atom[0][1].args[1]).endswith(".flag"), "vote/single-fetch_or", where(vote),
                "the only access to flags (in vote and the helpers it calls) is fetch_or(self.flag)", "vote() accesses flags with %s" % [c.name for _, c in atom])
        rmw_helpers = {hc.name for hc, hb in hs if returns_fetch_or(hb)}
        un = ret_blocks(vote, "VoteResult", "Unanimous")
        if not un:
            raise AnchorMissing("vote: no Unanimous return")
        for blk, line in un:
            g = guards(vote, blk)
            # (`prev == inverse` on its true edge, or `prev != inverse` on its false edge: the same decision)
            def eq_true(d, l, head):
                return (d.startswith("Eq(" + head) and l == "true") or (d.startswith("Ne(" + head) and l == "false")
            direct = any(eq_true(d, l, "fetch_or(") and d.endswith(".inverse)") for d, l, _ in g)
            via = any(any(eq_true(d, l, "%s(" % h) for h in rmw_helpers) and d.endswith(".inverse)") for d, l, _ in g)
            r.check(direct or via, "vote/unanimity-from-rmw", vote.loc(line),
                    "Unanimous is returned on `fetch_or(..) == inverse` (the value observed by the RMW itself)", "Unanimous is not decided from the fetch_or result: %s" % [(d, l) for d, l, _ in g])
            wk = [c for c in vote.calls if c.name == "wake" and ".waker" in describe_operand(vote, c.args[0])]
            r.check(any(vote.dominates(c.block, blk) for c in wk), "vote/wake-before-unanimous", vote.loc(line), "waker.wake() dominates the Unanimous return", "Unanimous returned without waking the receiver")
        sets = [c for c in vote.calls if c.name == "set" and ".voted" in describe_operand(vote, c.args[0]) and describe_operand(vote, c.args[1]) == "True"]
        through = {c.block for c in sets} | {hc.block for hc, hb in hs if sets_voted(hb)}
        ok, wit = vote.must_pass([0], through)
        r.check(ok and bool(through), "vote/voted:=true", where(vote), "voted.set(true) on every path", "a path of vote() leaves voted unset: %s" % wit)

    def rescind_updates():
        """Atomic read-modify-write sites of rescind(): (call, success_edge_block, failure_edge_block, kind)."""
        out = []
        for c in resc.calls:
            if not (c.args and ".flags" in describe_operand(resc, c.args[0]) and "Atomic" in (c.callee.get("self_ty") or c.defpath)):
                continue
            if c.name in ("compare_exchange", "compare_exchange_weak"):
                ok_edge = err_edge = None
                for t in resc.calls:
                    if t.name in ("is_ok", "is_err") and t.args and any(s_[0] == "call" and s_[1] is c for s_ in resc.sources(t.args[0])):
                        be = resc.bool_edges(t)
                        if not be and t.dest is not None and not t.dest[1]:
                            # the answer is handed on before it is branched on (`let rescinded = if two { helper_a() } else { helper_b() }; if rescinded`
                            # with the helpers spliced in): follow the plain copies to the test
                            flow = {t.dest[0]}
                            for _ in range(6):
                                for i_, j_, p_, rv_, l_ in resc.assigns():
                                    if not p_[1] and rv_[0] == "use" and rv_[1][0] in ("c", "m") and not rv_[1][1][1] and rv_[1][1][0] in flow:
                                        flow.add(p_[0])
                            for sb_ in range(resc.n):
                                tt_ = resc.term(sb_)
                                if tt_["k"] == "switch" and not resc.is_cleanup(sb_):
                                    pd_ = op_place(tt_["discr"])
                                    if pd_ is not None and not pd_[1] and pd_[0] in flow and len(tt_["arms"]) == 1 and int(tt_["arms"][0][0]) == 0:
                                        be = (tt_["otherwise"], tt_["arms"][0][1], sb_)
                        if be:
                            ok_edge, err_edge = (be[0], be[1]) if t.name == "is_ok" else (be[1], be[0])
                if ok_edge is None:
                    for si in resc.result_switches(c):
                        ve = resc.variant_edges(si["block"])
                        if ve and "Ok" in ve:
                            ok_edge, err_edge = ve["Ok"], ve.get("Err")
                out.append((c, ok_edge, err_edge, "cas"))
            elif c.name == "fetch_update":
                ok_edge = err_edge = None
                for si in resc.result_switches(c):
                    ve = resc.variant_edges(si["block"])
                    if ve and "Ok" in ve:
                        ok_edge, err_edge = ve["Ok"], ve.get("Err")
                out.append((c, ok_edge, err_edge, "fetch_update"))
            elif c.name != "load":
                out.append((c, None, None, "other"))
        return out

    with ctx.rule("C17.R2", "T1+T7", "rescind(): flags only changed by a conditional RMW that clears exactly the own bit and refuses once unanimous", floor=4) as r:
        ups = rescind_updates()
        if len(ups) != 2:
            raise AnchorMissing("rescind: expected 2 atomic update sites (two-party fast path + general path), found %d" % len(ups))
        def inverse_guard(g):
            """the guards on the voter's `inverse` mask as a predicate over mask values (None when there is none)"""
            import re as _re
            tests = []
            for d, l, _ in g:
                m = _re.match(r"^(Lt|Le|Gt|Ge|Eq|Ne)\(self\.inverse, (\d+)\)$", d)
                if m and l in ("true", "false"):
                    tests.append((m.group(1), int(m.group(2)), l == "true"))
            if not tests:
                return None
            ops = {"Lt": lambda a, b: a < b, "Le": lambda a, b: a <= b, "Gt": lambda a, b: a > b, "Ge": lambda a, b: a >= b, "Eq": lambda a, b: a == b, "Ne": lambda a, b: a != b}
            return lambda v: all(ops[o](v, k) == want for o, k, want in tests)

        def is_two_party(c, kind):
            # the fast path: a CAS from `only my bit` to `nothing`, which never looks at the other parties' bits
            return kind == "cas" and describe_operand(resc, c.args[1]).endswith(".flag") and describe_operand(resc, c.args[2]) == "0"
        # masks: a coordinator of n parties gives party i the flag 1 << i and inverse = all & !flag
        INV = {n: sorted(((1 << n) - 1) & ~(1 << i) for i in range(n)) for n in (2, 3)}
        for c, ok_e, err_e, kind in ups:
            g = guards(resc, c.block)
            pred = inverse_guard(g)
            two = is_two_party(c, kind) or (pred is not None and all(pred(v) for v in INV[2]) and not any(pred(v) for v in INV[3]))
            path = "two-party" if two else "general"
            if is_two_party(c, kind):
                sel = pred is not None and all(pred(v) for v in INV[2]) and not any(pred(v) for v in INV[3])
                r.check(sel, "rescind/two-party/only-for-two", c.loc(), "the fast path is selected exactly for the masks of a two-party coordinator %s, never for a three-party one %s" % (INV[2], INV[3]),
                        "the two-party fast path (compare_exchange(flag, 0), which fails whenever another party has voted and then reports Unanimous) is also taken by a voter of a three-party coordinator "
                        "(masks %s accepted by the guard): with one other vote outstanding its rescind does nothing and answers Unanimous" % [v for v in INV[3] if pred is not None and pred(v)])
            r.check(kind in ("cas", "fetch_update") and ok_e is not None, "rescind/%s/write-is-conditional-rmw" % path, c.loc(), "flags changed with %s whose outcome is examined" % c.name,
                    "rescind writes flags with %s (not a conditional read-modify-write whose result is examined)" % c.name)
            if kind == "cas":
                cur = describe_operand(resc, c.args[1])
                new = describe_operand(resc, c.args[2])
                if two:
                    r.check(cur.endswith(".flag") and new == "0", "rescind/two-party/cas-operands", c.loc(), "two-party CAS(flag, INIT)", "two-party CAS(%s, %s)" % (cur, new))
                else:
                    r.check(cur.startswith("load(") and new.startswith("BitAnd(load(") and new.endswith("not(self.flag))"), "rescind/general/update-clears-own-bit", c.loc(), "CAS(current, current & !flag)", "general path CAS(%s, %s)" % (cur, new))
                    r.check(any(d.startswith("Eq(load(") and "bitor(self.inverse, self.flag)" in d and l == "false" for d, l, _ in g), "rescind/general/refuse-when-unanimous", c.loc(),
                            "the CAS is attempted only when current != inverse | flag", "the CAS may clear a bit after unanimity was reached")
            elif kind == "fetch_update":
                cls = [rt.body(cd) for cd in c.callee.get("closure_args", ()) if cd in rt.by_def]
                okc = False
                refuse = False
                for cb in cls:
                    for i2, j2, p2, rv2, l2 in cb.assigns():
                        d2 = describe_rvalue(cb, rv2)
                        if d2.startswith("Option::Some(BitAnd(") and "not(" in d2 and "flag" in d2:
                            okc = True
                            refuse = refuse or any(dd.startswith("Eq(") and ll == "false" for dd, ll, _ in guards(cb, i2))
                r.check(okc, "rescind/%s/update-clears-own-bit" % path, c.loc(), "the update closure computes current & !flag", "the fetch_update closure does not clear exactly the own bit")
                if not two:
                    r.check(refuse, "rescind/general/refuse-when-unanimous", c.loc(), "the update closure refuses (None) when current == unanimity", "the update may clear a bit after unanimity was reached")
        for blk, line in ret_blocks(resc, "VoteResult", "Unanimous"):
            g = guards(resc, blk)
            good = any((d.startswith("Eq(load(") and l == "true") or (d.startswith("is_err(compare_exchange(") and l == "true") or (d.startswith("is_ok(compare_exchange(") and l == "false")
                       or (d.startswith("disc(fetch_update(") and l == "Err") or (d.startswith("disc(compare_exchange") and l == "Err") for d, l, _ in g)
            if not good:
                # the observation may have been made in a helper whose answer is tested here: what the tested value was computed from
                good = any(any(k_ in src for k_ in ("compare_exchange(", "compare_exchange_weak(", "fetch_update(", "load(")) and ".flags" in src for d, l, sb, src in guards_with_sources(resc, blk, control=True))
            r.check(good, "rescind/unanimous-guarded", resc.loc(line), "Unanimous is returned only after observing flags (equality with the mask, or a refused update)", "Unanimous returned without observing flags")
        g0 = [c for c in resc.calls if c.name == "get" and ".voted" in describe_operand(resc, c.args[0])]
        r.check(bool(g0) and all(any(d == "get(self.voted)" and l == "true" for d, l, _ in guards(resc, c.block)) for c, _, _, _ in ups), "rescind/only-if-voted", where(resc),
                "flags is touched only on the voted == true edge", "rescind touches flags without having voted")

    with ctx.rule("C17.R3", "T3", "`voted` mirrors the voter's own bit: cleared on every successful rescind", floor=2) as r:
        clears = {c.block for c in resc.calls if c.name in ("set", "replace") and ".voted" in describe_operand(resc, c.args[0]) and describe_operand(resc, c.args[1]) == "False"}
        n = 0
        for c, ok_e, err_e, kind in rescind_updates():
            if ok_e is None:
                continue
            n += 1
            g = guards(resc, c.block)
            path = "two-party" if (kind == "cas" and describe_operand(resc, c.args[1]).endswith(".flag") and describe_operand(resc, c.args[2]) == "0") else "general"
            ok, wit = resc.must_pass([ok_e], clears)
            r.check(ok and bool(clears), "rescind/%s/success=>voted:=false" % path, c.loc(),
                    "a successful rescind clears `voted`",
                    "a successful rescind leaves voted == true although the voter's bit is now clear: a later drop does not vote (the others wait for ever) and, on the "
                    "two-party path, a second rescind reports Unanimous on mere CAS failure")
        if n < 2:
            raise AnchorMissing("rescind: expected 2 update sites with an examined result, found %d" % n)

    with ctx.rule("C17.R4", "T2", "Drop for Voter votes when no vote is outstanding", floor=1) as r:
        d = ctx.saw(rt.fn(name="drop", self_adt=V, trait="core::ops::drop::Drop"))
        vs = [c for c in d.calls if c.is_method(V, "vote")]
        if not vs:
            # a helper is as good as vote() only if it also wakes the receiver when it completes the vote
            alt = [c for c, hb in helpers(d) if any(x.name == "fetch_or" and is_flags_rmw(hb, x) for x in hb.calls)]
            wakes = [c for c, hb in helpers(d) if any(x.name == "wake" for x in hb.calls)]
            r.bad("drop/votes", where(d), ("Drop for Voter sets its flag through %s() without the wake-up that vote() performs when the vote becomes unanimous: a receiver that is already waiting is never woken" % alt[0].name) if alt and not wakes
                  else "Drop for Voter no longer calls vote(): a task that disappears leaves the others waiting for ever")
        for c in vs:
            g = guards(d, c.block)
            r.check(any("get(self.voted)" in dd for dd, l, _ in g), "drop/votes-iff-not-voted", c.loc(), "vote() on the !voted edge (%s)" % [(dd, l) for dd, l, _ in g])
        # on the not-voted edge every path votes
        gets = [c for c in d.calls if c.name == "get" and ".voted" in describe_operand(d, c.args[0])]
        if gets and vs:
            be = d.bool_edges(gets[0])
            if be:
                ok, wit = d.must_pass([be[1]], {c.block for c in vs})
                r.check(ok, "drop/not-voted=>vote", where(d), "every path of the voted == false edge calls vote()", "drop can skip vote() although not voted")

    with ctx.rule("C17.R5", "T1", "Receiver::poll registers the waker before the deciding load; Pending only if that load != unanimity", floor=2) as r:
        p = ctx.saw(rt.fn(name="poll", self_adt="timeout_coord::Receiver"))
        regs = [c for c in p.calls if c.name == "register"]
        loads = [c for c in p.calls if c.name == "load" and ".flags" in describe_operand(p, c.args[0])]
        pend = ret_blocks(p, "Poll", "Pending")
        if not regs or not pend:
            raise AnchorMissing("Receiver::poll: register / Pending not found")
        for blk, line in pend:
            r.check(any(p.dominates(c.block, blk) for c in regs), "poll/Pending<=register", p.loc(line), "Pending is dominated by waker.register(cx.waker())", "Pending without registering the waker")
            after = [l for l in loads if any(p.dominates(c.block, l.block) for c in regs) and p.dominates(l.block, blk)]
            r.check(bool(after), "poll/recheck-after-register", p.loc(line), "flags is re-loaded after register and before Pending (closes the race with a concurrent final vote)",
                    "no load of flags between register and Pending: a vote landing in between is never noticed")
            g = guards(p, blk)
            r.check(any(d.startswith("Eq(load(") and d.endswith(".unanimity)") and l == "false" for d, l, _ in g), "poll/Pending-iff-not-unanimous", p.loc(line), "Pending only when flags != unanimity")

    with ctx.rule("C17.R6", "T4+T8", "flags is written only by vote/rescind; handles are not Clone; voter i owns bit 1 << i", floor=4) as r:
        for b in rt.all_bodies():
            if "timeout_coord" not in b.defpath:
                continue
            for c in b.calls:
                if c.args and ".flags" in describe_operand(b, c.args[0]) and "Atomic" in (c.callee.get("self_ty") or c.defpath) and c.name != "load":
                    callers = [x for x in rt.all_bodies() if "timeout_coord" in x.defpath and "::tests" not in x.defpath and any(y.defpath == b.defpath for y in x.calls)]
                    private_helper = bool(callers) and all(x.defpath.endswith("Voter::vote") or x.defpath.endswith("Voter::rescind") for x in callers) and "Voter::" in b.defpath
                    r.check(b.defpath.endswith("Voter::vote") or b.defpath.endswith("Voter::rescind") or private_helper, "flags-writer/" + owner_def(b).split("::")[-1] + "/" + c.name, c.loc(),
                            "flags written in %s" % b.defpath.split("::")[-1], "flags written outside vote/rescind: %s" % b.defpath)
        for adt in (V, "timeout_coord::Receiver"):
            r.check(rt.implements(adt, "core::clone::Clone") is None, adt.split("::")[-1] + "/not-Clone", "-", "%s is not Clone" % adt)
        mk = [b for b in rt.all_bodies() if "multi_party_coordinator::{closure" in b.defpath]
        if not mk:
            raise AnchorMissing("multi_party_coordinator closure not found")
        for b in mk:
            for i, j, p, rv, line in b.assigns():
                if rv[0] == "agg" and rv[1].get("adt", "").endswith("timeout_coord::Voter"):
                    m = dict(zip(rv[1]["fields"], [describe_operand(b, o) for o in rv[2]]))
                    r.check(m["flag"].startswith("Shl(1, ") or m["flag"].startswith("ShlUnchecked(1, "), "coordinator/flag=1<<i", b.loc(line), "flag = %s" % m["flag"], "flag is not 1 << i: %s" % m["flag"])
                    r.check(m["inverse"].startswith("BitXor(") and m["flag"] in m["inverse"], "coordinator/inverse=all^flag", b.loc(line), "inverse = %s" % m["inverse"][:80], "inverse is not all ^ flag: %s" % m["inverse"][:120])
                    r.check(m["voted"].startswith("new(False") or "False" in m["voted"], "coordinator/voted-init", b.loc(line), "voted starts false")
        for n_, want in ((2, 3), (3, 7)):
            es = [e for e in rt.index if e["def"].endswith("NumParties>::all") and "[swimos_runtime::timeout_coord::Voter; %d]" % n_ in e["def"]]
            if len(es) != 1:
                raise AnchorMissing("NumParties::all for %d voters not found" % n_)
            b = rt.body(es[0])
            rets = [describe_rvalue(b, rv) for i, j, p, rv, line in b.assigns() if p[0] == 0 and not p[1]]
            val = None
            for s in rets:
                # (1 << n) - 1 is folded by MIR building only partially; accept either the constant or the expression
                if s == str(want) or s.replace(" ", "") in ("SubWithOverflow(ShlUnchecked(1,%d),1).0" % n_, "Sub(Shl(1,%d),1)" % n_, "SubWithOverflow(Shl(1,%d),1).0" % n_):
                    val = want
            r.check(val == want, "NumParties/all-%d" % n_, where(b), "all() for %d parties is %d" % (n_, want), "all() for %d parties is %s" % (n_, rets))
        a = rt.adt("timeout_coord::Inner")
        fl = dict((f[0], f[1]) for f in a["variants"][0]["fields"])
        r.check("AtomicU8" in fl.get("flags", "") or "Atomic<u8>" in fl.get("flags", ""), "Inner/flags-type", "-", "flags: %s" % fl.get("flags"))

    with ctx.rule("C17.R7", "T2+T6", "callers compare with Unanimous, leave their loop on it, rescind only when they voted and track voted", floor=9) as r:
        sites = []
        for b in rt.all_bodies():
            for c in b.calls:
                if c.is_method(V, "vote") or c.is_method(V, "rescind"):
                    if "timeout_coord" in b.defpath:
                        continue
                    sites.append((b, c))
        if len(sites) < 9:
            raise AnchorMissing("expected >= 9 vote()/rescind() call sites in the agent and downlink tasks, found %d" % len(sites))
        def const_bool_locals(b):
            """bool locals that are only ever assigned the literals true / false: the task's own bookkeeping flags (whatever they are called)"""
            out = {}
            for loc, ds in b.defs.items():
                if loc < len(b.locals) and b.locals[loc] == "bool" and ds and all(d[0] == "assign" and d[3][0] == "use" and d[3][1][0] == "k" and d[3][1][1].get("b") in (True, False) for d in ds):
                    vals = {d[3][1][1].get("b") for d in ds}
                    if vals == {True, False}:
                        out[loc] = ds
            return out

        def voted_flags(b):
            """the flag(s) recording 'I have voted': a constant-only bool whose true edge guards a rescind() call; if the body never rescinds, one that is
            set to true next to a vote()"""
            flags = const_bool_locals(b)
            vl = set()
            for c in b.calls:
                if c.is_method(V, "rescind"):
                    for d, l, sb in guards(b, c.block):
                        if l != "true":
                            continue
                        pl = op_place(b.term(sb)["discr"])
                        if pl is None:
                            continue
                        root = b.copy_root(pl)
                        if root in flags:
                            vl.add(root)
            if not vl:
                for c in b.calls:
                    if c.is_method(V, "vote"):
                        for loc, ds in flags.items():
                            if any(d[3][1][1].get("b") is True and (b.dominates(d[1], c.block) or b.dominates(c.block, d[1])) for d in ds):
                                vl.add(loc)
            return vl
        for b, c in sites:
            ctx.saw(b)
            tag = "%s/%s@%s" % (owner_def(b).replace("swimos_runtime::", ""), c.name, "")
            vl = voted_flags(b)
            # result compared with VoteResult::Unanimous (== / != idiom) or matched on (match idiom)
            tr = fa = None
            for e in b.calls:
                if e.via_name in ("eq", "ne") and e.args and (c.block == e.block or b.dominates(c.block, e.block)):
                    srcs = b.sources(e.args[0])
                    if any(s[0] == "call" and s[1] is c for s in srcs):
                        other = describe_operand(b, e.args[1])
                        be = b.bool_edges(e)
                        if be is None or "VoteResult::" not in other:
                            continue
                        tr, fa = be[0], be[1]
                        if e.via_name == "ne":
                            tr, fa = fa, tr
                        if "UnanimityPending" in other:
                            tr, fa = fa, tr
                        break
            if tr is None:
                for si in b.result_switches(c):
                    ve = b.variant_edges(si["block"])
                    if ve and "Unanimous" in ve and "UnanimityPending" in ve:
                        tr, fa = ve["Unanimous"], ve["UnanimityPending"]
                        break
            if tr is None:
                r.bad(tag + "result-compared", c.loc(), "the result of %s() is neither compared with nor matched against VoteResult::Unanimous: a unanimous stop would be ignored" % c.name)
                continue
            r.ok(tag + "result-compared", c.loc(), "the result of %s() decides a branch (Unanimous -> bb%d, pending -> bb%d)" % (c.name, tr, fa))
            # Unanimous edge must not come back to this call (leaves the loop)
            # (constants decide the branches on the way: `if rescind_stop_vote(..) { break }` with the helper answering `true` on this edge)
            back = b.reachable_cp([tr]) & {c.block}
            r.check(not back, tag + "unanimous-leaves-loop", c.loc(), "on Unanimous the task leaves its loop (the vote site is not reachable again)",
                    "on Unanimous the task keeps running: it can dispatch work after the runtime decided to stop")
            if c.name == "rescind":
                g = guards(b, c.block)
                r.check(any(l == "true" and op_place(b.term(sb)["discr"]) is not None and b.copy_root(op_place(b.term(sb)["discr"])) in vl for d, l, sb in g), tag + "rescind-only-if-voted", c.loc(), "rescind() is called on the true edge of the task's voted flag",
                        "rescind() called without having voted: %s" % [(d, l) for d, l, _ in g][:4])
                # pending edge: voted := false before coming back
                clr = {i for i, j, p, rv, line in b.assigns() if p[0] in vl and not p[1] and rv[0] == "use" and rv[1][0] == "k" and rv[1][1].get("b") is False}
                ok, wit = b.must_pass([fa], clr, targets={c.block} | set(b.exits()))
                r.check(ok and bool(clr), tag + "pending=>voted:=false", c.loc(), "after a successful rescind the task's voted flag is cleared before the next iteration",
                        "voted stays true after rescind: %s" % wit)
            else:
                st = {i for i, j, p, rv, line in b.assigns() if p[0] in vl and not p[1] and rv[0] == "use" and rv[1][0] == "k" and rv[1][1].get("b") is True}
                r.check(any(b.dominates(i, c.block) or b.dominates(c.block, i) for i in st), tag + "vote=>voted:=true", c.loc(), "the task records voted = true around vote()", "vote() without recording voted = true")

    with ctx.rule("C17.R10", "T2", "downlink read task: taking on a consumer withdraws an outstanding vote before the task waits again", floor=2) as r:
        # A vote says "I am idle". A consumer that attaches - in whatever state the link is - gives the read task work: if it has voted, the vote
        # must be rescinded (the `voted` test) before the next wait; otherwise the write task's later vote makes the stop unanimous while a consumer
        # is attached and being served.
        rdt = [b for b in rt.all_bodies() if b.defpath.endswith("downlink::read_task::{closure#0}")]
        if len(rdt) != 1:
            raise AnchorMissing("downlink::read_task (found %d)" % len(rdt))
        rdt = ctx.saw(rdt[0])
        vl = voted_flags(rdt)
        tests = {sb for sb in range(rdt.n) if rdt.term(sb)["k"] == "switch" and op_place(rdt.term(sb)["discr"]) is not None and rdt.copy_root(op_place(rdt.term(sb)["discr"])) in vl}
        waits = {sb for sb in range(rdt.n) if rdt.term(sb)["k"] == "yield"}
        takes = [c for c in rdt.calls if c.name == "push" and len(c.args) > 1 and op_place(c.args[1]) is not None and "DownlinkSender" in rdt.locals[op_place(c.args[1])[0]]]
        # (a consumer moved from one phase vector to the next by a spliced helper is not a new one: only the arm that receives a new consumer counts)
        takes = [c for c in takes if any(l == "NewConsumer" for d, l, _ in dom_guards(rdt, c.block))]
        if len(takes) < 2 or not tests or not waits:
            raise AnchorMissing("downlink read_task: consumer pushes %d, voted tests %d, waits %d" % (len(takes), len(tests), len(waits)))
        for c in takes:
            ok, wit = rdt.must_pass(rdt.succ[c.block], tests, targets=waits | set(rdt.exits()))
            r.check(ok, "read_task/%s.push/vote-withdrawn-before-waiting" % describe_operand(rdt, c.args[0]), c.loc(), "after taking on the consumer the task tests `voted` (and rescinds) before it waits again",
                    "a consumer is taken on (%s.push) and the read task waits again without testing whether it has voted (path %s): with its vote outstanding, the write task's next vote stops the "
                    "runtime for inactivity while a consumer is attached" % (describe_operand(rdt, c.args[0]), (wit or [])[:10]))

    with ctx.rule("C17.R8", "T2", "a task's own inactivity timeout ends it only through a unanimous vote", floor=5) as r:
        # the first task to finish triggers the kill switch of its runtime, so a task that leaves its loop on its own timeout without
        # voting stops the runtime although the other tasks never agreed
        n = 0
        for b in rt.all_bodies():
            if "timeout_coord" in b.defpath:
                continue
            for c in b.calls:
                if not c.is_method(V, "vote"):
                    continue
                n += 1
                ctx.saw(b)
                tag = owner_def(b).replace("swimos_runtime::", "")
                g = [x for x in dom_guards(b, c.block) if x[0].startswith("disc(")]
                if not g:
                    raise AnchorMissing("%s: vote() is not inside an event arm" % tag)
                d, l, blk = g[-1]
                ve = b.variant_edges(blk)
                if not ve or l not in ve:
                    raise AnchorMissing("%s: cannot find the arm of vote()" % tag)
                t = ve[l]
                reach = b.reachable_from([t])
                heads = {x for x in reach if b.dominates(x, blk)}
                w = b.path_avoiding([t], set(b.exits()), avoid={c.block} | heads)
                r.check(w is None, "%s/%s-arm/exit-only-after-vote" % (tag, l), c.loc(), "from the `%s` arm the task returns only through vote()" % l,
                        "the `%s` arm can leave the task's loop without calling vote() (path through blocks %s): the runtime stops although the other tasks have not voted, e.g. an agent that is only serving HTTP requests" % (l, (w or [])[:8]))
        r.check(n >= 5, "scope/vote-sites", "-", "%d tasks vote" % n)

    with ctx.rule("C17.R9", "T2+T8", "every coordinator's Receiver is handed to a task of the runtime that awaits it (someone acts on unanimity)", floor=3) as r:
        # Voters only learn `Unanimous` / `UnanimityPending`; the parties told `UnanimityPending` rely on the Receiver being polled by the task that
        # stops the runtime. A coordinator whose Receiver is dropped (or parked in a variable) leaves them waiting for ever whenever the deciding
        # vote comes from a task whose exit does not itself stop the others.
        n_sites = 0
        for b in rt.all_bodies():
            if "::tests" in b.defpath or "timeout_coord" in b.defpath:
                continue
            for c in b.calls:
                if not (c.defpath or "").startswith("swimos_runtime::timeout_coord::") or "coordinator" not in (c.name or ""):
                    continue
                ty = b.locals[c.dest[0]] if not c.dest[1] else ""
                comps = [x.strip() for x in ty.strip("()").split(",")]
                ks = [i for i, x in enumerate(comps) if x.endswith("timeout_coord::Receiver")]
                if len(ks) != 1:
                    raise AnchorMissing("%s: the coordinator's result has no single Receiver component (%s)" % (b.defpath, ty[:80]))
                k = ks[0]
                n_sites += 1
                ctx.saw(b)
                tag = owner_def(b).replace("swimos_runtime::", "")
                # forward flow of the Receiver: moves, aggregates (tuples, closures, futures), calls that take it and return something holding it
                taint = set()
                sinks = []
                changed = True

                def mentions(op):
                    pl = op_place(op)
                    if pl is None:
                        return False
                    if pl[0] == c.dest[0]:
                        fl = [x for x in pl[1] if isinstance(x, list) and x[0] == "f"]
                        return bool(fl) and fl[0][1] == k
                    return pl[0] in taint
                rounds = 0
                while changed and rounds < 30:
                    changed = False
                    rounds += 1
                    for i, j, p_, rv, line in b.assigns():
                        ops = []
                        if rv[0] in ("use",):
                            ops = [rv[1]]
                        elif rv[0] == "cast":
                            ops = [rv[2]]
                        elif rv[0] == "agg":
                            ops = list(rv[2])
                        elif rv[0] == "ref":
                            ops = [["c", rv[2]]]
                        if any(mentions(o) for o in ops) and p_[0] not in taint and p_[0] != c.dest[0]:
                            taint.add(p_[0])
                            changed = True
                    for x in b.calls:
                        if x is c or x.exp:
                            continue
                        if any(mentions(a) for a in x.args):
                            if x not in sinks:
                                sinks.append(x)
                            if x.dest and x.dest[0] not in taint:
                                taint.add(x.dest[0])
                                changed = True
                tasks = [x for x in sinks if (x.defpath or "").startswith("swimos_runtime::") and "timeout_coord" not in (x.defpath or "") and x.name not in ("drop", "select")]
                awaited = [x for x in sinks if x.name in ("poll", "into_future")]
                r.check(bool(tasks) or bool(awaited), "%s/receiver-reaches-a-task" % tag, c.loc(),
                        "the Receiver flows into %s" % sorted({x.name for x in tasks} | {x.name for x in awaited}),
                        "the Receiver of the coordinator is never handed to a task or awaited (it reaches only %s): when the deciding vote is cast by a party whose exit does not stop the others, nobody observes unanimity and the parties told `UnanimityPending` wait for ever" % (sorted({x.name or "?" for x in sinks}) or "nothing"))
        if n_sites < 3:
            raise AnchorMissing("coordinator construction sites: expected 3 (agent, value downlink, map downlink), found %d" % n_sites)
