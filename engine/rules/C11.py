"""C11 WARP envelopes cross the socket unchanged and reach only their addressee."""
from mirlib import AnchorMissing, describe_call, describe_operand, describe_place, describe_rvalue, dom_guards, guards, _suffix_match
from rules.common import ty_of, named_argument_rule, aggregates, callers_by_name, owner_def, panic_sites, where

META = {
    "explanation": (
        "C11: R1 the four tables an envelope kind passes through (encoder header literal, header peeler tag -> EnvelopeKind, EnvelopeKind -> "
        "RawEnvelope, RawEnvelope -> Request/ResponseMessage constructor) compose to the identity on kinds, and the slot names agree; R2 both "
        "path components are escaped with escape_if_needed and quoted exactly when is_identifier of the same string is false, and the reader "
        "passes both through parse_text_token; R3 every body carried by an envelope is forwarded (the body operand of the message derives "
        "from the envelope's body and is dropped only when empty); R4 a response is offered only to the subscription registered for the "
        "envelope's own node and lane, a request only to the route for its node; an invalid envelope is never delivered, and after a failed delivery exactly the failed writers are evicted (R4b); R5 the multiplexer "
        "re-queues a stream after every item, removes it on end, and signals readiness before waking."
        ' R10 (= C09.R11) no envelope header makes the reader panic.'),
    "does_not_decide": "equality of node/lane/body for all strings (C09's law); per-source ordering through the multiplexer under all interleavings",
}

RM = "swimos_remote"
MS = "swimos_messages"
KIND_OF_HEADER = {"@link(": "Link", "@sync(": "Sync", "@unlink(": "Unlink", "@command(": "Command",
                  "@linked(": "Linked", "@synced(": "Synced", "@unlinked(": "Unlinked", "@event(": "Event"}


def run(ctx):
    rm = ctx.crate(RM)
    ms = ctx.crate(MS)

    with ctx.rule("C11.R1", "T5", "header tables compose to the identity on envelope kinds", floor=30) as r:
        # (a) encoder: variant -> header literal
        enc = {}
        for e in rm.entries(regex=r"envelopes::ReconEncoder as tokio_util::codec::encoder::Encoder<swimos_messages::protocol::(Request|Response)Message.*::encode$"):
            b = ctx.saw(rm.body(e))
            whs = [c for c in b.calls if c.name == "write_header"]
            # the literal handed to write_header, per envelope variant: written at the call (`Link => write_header(LINK_HEADER, ..)`) or chosen by the
            # match and written once (`let header = match envelope { Link => LINK_HEADER, .. }; write_header(header, ..)`)
            flows = set()
            for c in whs:
                d0 = describe_operand(b, c.args[0]).strip("'")
                if d0 in KIND_OF_HEADER:
                    flows.add(d0)
                for x in b.sources(c.args[0], stop_at_calls=False):
                    if x[0] == "const":
                        flows.add(describe_operand(b, ["k", x[2]]).strip("'"))
            def note(blk, op):
                if op[0] != "k":
                    return
                lit = describe_operand(b, op).strip("'")
                if lit in KIND_OF_HEADER and lit in flows:
                    v = [l for d, l, _ in dom_guards(b, blk) if d == "disc(item.envelope)"]
                    for k_ in (v[0].split("|") if v else ["?"]):
                        enc.setdefault(k_, lit)
            for blk in range(b.n):
                if b.is_cleanup(blk):
                    continue
                for s_ in b.stmts(blk):
                    if s_[0] == "A":
                        rv = s_[2]
                        for o in ([rv[1]] if rv[0] == "use" else (rv[2] if rv[0] == "agg" else ([rv[2]] if rv[0] == "cast" else []))):
                            if isinstance(o, list):
                                note(blk, o)
                cl_ = b.call_at(blk)
                if cl_ is not None:
                    for a in cl_.args:
                        note(blk, a)
        enc.pop("?", None)
        if len(enc) != 8:
            raise AnchorMissing("ReconEncoder: expected 8 write_header sites under the envelope match, found %d" % len(enc))
        # (b) peeler tag: literal -> EnvelopeKind
        tag = ctx.saw(ms.fn(name="tag", self_adt="warp::EnvelopeHeaderPeeler"))
        tag_tbl = {}
        for a in aggregates(tag, "warp::EnvelopeKind"):
            lits = [d for d, l, _ in guards(tag, a[0]) if l == "true" and d.startswith("eq(name, ")]
            if lits:
                tag_tbl[lits[0][len("eq(name, "):-1].strip("'")] = a[4]
        # (c) done: EnvelopeKind -> RawEnvelope variant
        done = ctx.saw(ms.fn(name="done", self_adt="warp::EnvelopeHeaderPeeler"))
        done_tbl = {}
        for c in done.calls:
            if c.name in ("with_path", "with_rate_prio"):
                k = [l for d, l, _ in dom_guards(done, c.block) if d.startswith("disc(self.kind<Some>")]
                for cd in c.callee.get("closure_args", ()):
                    if cd not in ms.by_def:
                        continue
                    cb = ms.body(cd)
                    for i, j, p, rv, line in cb.assigns():
                        if rv[0] == "agg" and rv[1].get("adt", "").endswith("warp::RawEnvelope"):
                            done_tbl[k[0] if k else "?"] = rv[1]["variant"]
        # (d) interpret_envelope: RawEnvelope variant -> constructor
        ie = ctx.saw(rm.fn(suffix="task::interpret_envelope"))
        ctor = {}
        for c in ie.calls:
            if ("RequestMessage" in c.defpath or "ResponseMessage" in c.defpath) and c.name in ("link", "sync", "unlink", "command", "linked", "synced", "unlinked", "event"):
                v = [l for d, l, _ in dom_guards(ie, c.block) if d == "disc(envelope)"]
                ctor[v[0] if v else "?"] = (c.name, "Request" if "RequestMessage" in c.defpath else "Response")
        for variant, header in sorted(enc.items()):
            w = where(ie)
            lit = header[1:-1] if header.startswith("@") and header.endswith("(") else header
            r.check(KIND_OF_HEADER.get(header) == variant, "encoder/%s/header" % variant, "-", "%s is written as %s" % (variant, header), "%s is written with header %r" % (variant, header))
            k = tag_tbl.get(lit)
            r.check(k == variant, "peeler-tag/%s" % variant, where(tag), "tag '%s' -> EnvelopeKind::%s" % (lit, k), "tag '%s' is read as EnvelopeKind::%s (written for %s)" % (lit, k, variant))
            raw = done_tbl.get(variant)
            r.check(raw == variant, "peeler-done/%s" % variant, where(done), "EnvelopeKind::%s -> RawEnvelope::%s" % (variant, raw), "EnvelopeKind::%s builds RawEnvelope::%s" % (variant, raw))
            cn = ctor.get(variant)
            want_side = "Request" if variant in ("Link", "Sync", "Unlink", "Command") else "Response"
            r.check(cn == (variant.lower(), want_side), "interpret/%s" % variant, w, "RawEnvelope::%s -> %sMessage::%s" % (variant, want_side, variant.lower()), "RawEnvelope::%s is interpreted as %s" % (variant, cn))
        # slot names
        wh = ctx.saw(rm.fn(suffix="envelopes::write_header"))
        slots = [describe_operand(wh, c.args[1]).strip("'") for c in wh.calls if c.name == "put_slice" and describe_operand(wh, c.args[1]).strip("'") in ("node:", "lane:")]
        fh = ctx.saw(ms.fn(name="feed_header_slot", self_adt="warp::EnvelopeHeaderPeeler"))
        rd = {}
        for i, j, p, rv, line in fh.assigns():
            dp = describe_place(fh, p)
            if p[1] and (dp.endswith("node_uri") or dp.endswith("lane_uri")):
                lits = [d for d, l, _ in guards(fh, i) if l == "true" and d.startswith("eq(name, ")]
                if lits:
                    rd[lits[0][len("eq(name, "):-1].strip("'")] = dp.split(".")[-1]
        r.check(slots == ["node:", "lane:"], "slots/written", where(wh), "the header writes node: then lane:", "header slots written: %s" % slots)
        r.check(rd == {"node": "node_uri", "lane": "lane_uri"}, "slots/read", where(fh), "slot 'node' -> node_uri, 'lane' -> lane_uri", "slots read: %s" % rd)

    with ctx.rule("C11.R2", "T7", "path components: escaped, quoted iff not an identifier, unescaped by the reader", floor=6) as r:
        wh = rm.fn(suffix="envelopes::write_header")
        wl = [c for c in wh.calls if c.name == "write_lit"]
        if len(wl) != 2:
            raise AnchorMissing("write_header: expected two write_lit calls")
        for c, which, argn in ((wl[0], "node", 2), (wl[1], "lane", 3)):
            lit = describe_operand(wh, c.args[0])
            flag = describe_operand(wh, c.args[1])
            direct = lit.startswith("as_ref(escape_if_needed(%s" % which) or ("escape_if_needed(%s)" % which) in lit
            via = None
            if not direct:
                # a local helper `h(text, is_identifier(text))` that escapes unless the flag says the text is an identifier
                import re as _re
                m_ = _re.search(r"([a-z_0-9]+)\((\w+), is_identifier\((\w+)\)\)", lit)
                if m_:
                    hb = [b for b in rm.all_bodies() if b.defpath.endswith("envelopes::" + m_.group(1))]
                    esc = hb and [x for x in hb[0].calls if x.name in ("escape_if_needed", "escape_text")]
                    esc_ok = bool(esc) and all(any(l == "false" for d, l, _ in dom_guards(hb[0], x.block)) or not dom_guards(hb[0], x.block) for x in esc)
                    via = (m_.group(2) == which and m_.group(3) == which and esc_ok, m_.group(1), m_.group(2), m_.group(3))
            r.check(direct or (via is not None and via[0]), "write_header/%s/escaped" % which, c.loc(), "%s is written escaped (%s)" % (which, "escape_if_needed" if direct else via[1] + " with its own identifier flag"),
                    ("%s is escaped by %s(%s, ..) only when is_identifier(%s) is false - the flag belongs to a different string: when %s is an identifier, quotes and backslashes in %s are written raw and the envelope no longer parses (or names another lane)" % (which, via[1], via[2], via[3], via[3], which)) if via is not None else "%s literal is %s" % (which, lit))
            r.check(flag == "is_identifier(%s)" % which, "write_header/%s/quote-flag" % which, c.loc(), "quoting of %s is decided by is_identifier(%s)" % (which, which), "quoting of %s is decided by %s" % (which, flag))
        wlit = ctx.saw(rm.fn(suffix="envelopes::write_lit"))
        q = [c for c in wlit.calls if c.name == "put_u8" and describe_operand(wlit, c.args[1]) in ("34", "'\"'")]
        ok = len(q) == 2 and all(any(d == "ident" and l == "false" for d, l, _ in dom_guards(wlit, c.block)) for c in q)
        r.check(ok, "write_lit/quotes-iff-not-ident", where(wlit), "the literal is wrapped in quotes exactly on the !ident edge", "write_lit quoting is not tied to !ident (%d quote writes)" % len(q))
        wp = ctx.saw(ms.fn(suffix="warp::with_path"))
        pt = [c for c in wp.calls if c.name == "parse_text_token"]
        args = sorted(describe_operand(wp, c.args[0]) for c in pt)
        r.check(len(pt) == 2 and any("node_uri" in a for a in args) and any("lane_uri" in a for a in args), "with_path/unescape-both", where(wp), "both node and lane go through parse_text_token", "parse_text_token applied to %s" % args)

    with ctx.rule("C11.R3", "T6+T11", "envelope bodies are forwarded", floor=3) as r:
        ie = rm.fn(suffix="task::interpret_envelope")
        for c in ie.calls:
            if c.name in ("command", "event", "unlinked") and ("RequestMessage" in c.defpath or "ResponseMessage" in c.defpath):
                v = [l for d, l, _ in dom_guards(ie, c.block) if d == "disc(envelope)"][0]
                body = c.args[2]
                srcs = ie.sources(body, stop_at_calls=False)
                from_body = any(s[0] == "field" and "body" in s[1].fields and v in s[1].variants for s in srcs)
                r.check(from_body, "interpret_envelope/%s/body-derives-from-envelope" % v, c.loc(), "the message body derives from the envelope's body", "the body passed to %s does not come from the envelope" % c.name)
                if c.name == "unlinked":
                    # Option body: Some(body) exactly on the non-empty edge
                    somes = [(i, dom_guards(ie, i)) for i, j, p, rv, line in ie.assigns() if rv[0] == "agg" and rv[1].get("variant") == "Some" and describe_rvalue(ie, rv).startswith("Option::Some(envelope<Unlinked>.body") and any(l == "Unlinked" for d, l, _ in dom_guards(ie, i))]
                    good = bool(somes) and all(any(d.startswith("is_empty(") and l == "false" for d, l, _ in g) for i, g in somes)
                    if not good:
                        # `Some(body).filter(|text| !text.is_empty())`: kept exactly when the predicate says non-empty
                        for fc in ie.calls:
                            if fc.name == "filter" and any(x is fc for k_, x in [(s_[0], s_[1]) for s_ in srcs if s_[0] == "call"]) and "Option::Some(" in describe_operand(ie, fc.args[0]):
                                for cd in fc.callee.get("closure_args", ()):
                                    if cd in rm.by_def:
                                        cb = rm.body(cd)
                                        rets = [describe_rvalue(cb, rv) for i, j, p, rv, line in cb.assigns() if p[0] == 0 and not p[1]]
                                        if rets and all(x.startswith("Not(is_empty(") for x in rets):
                                            good = True
                    r.check(good, "interpret_envelope/Unlinked/body-forwarded", c.loc(), "a non-empty unlinked body is forwarded as Some(body)",
                            "the unlinked body is kept only when it is empty: a non-empty body (e.g. @laneNotFound) is replaced by None")
        for e in rm.entries(regex=r"envelopes::ReconEncoder as tokio_util::codec::encoder::Encoder<swimos_messages::protocol::(Request|Response)Message.*::encode$"):
            b = rm.body(e)
            pbs = [c for c in b.calls if c.name == "put_body"]
            for c in pbs:
                v = [l for d, l, _ in dom_guards(b, c.block) if d == "disc(item.envelope)"]
                g = dom_guards(b, c.block)
                r.check(any(d.startswith("is_empty(") and l == "false" for d, l, _ in g), "encoder/%s/body-written-unless-empty" % (v[0] if v else "?"), c.loc(), "the body is written whenever it is not empty")
        pb = ctx.saw(rm.fn(suffix="envelopes::put_body"))
        sp = [c for c in pb.calls if c.name == "put_u8"]
        r.check(len(sp) == 1 and any(d.startswith("starts_with(") and l == "false" for d, l, _ in dom_guards(pb, sp[0].block)), "put_body/space-unless-attr", where(pb), "a separating space is inserted unless the body starts with '@'")

    with ctx.rule("C11.R4", "T7", "an envelope is offered only to the addressee registered for its own node and lane", floor=3) as r:
        it = [b for b in rm.all_bodies() if "IncomingTask" in b.defpath and b.defpath.endswith("run::{closure#0}")]
        if len(it) != 1:
            raise AnchorMissing("IncomingTask::run coroutine (found %d)" % len(it))
        b = ctx.saw(it[0])
        gm = [c for c in b.calls if c.name in ("get_mut", "get") and (describe_operand(b, c.args[0]).endswith("client_subscriptions") or describe_operand(b, c.args[0]).endswith("agent_routes"))]
        r.check(len(gm) >= 2, "incoming/lookups", where(b), "%d look-ups in client_subscriptions / agent_routes" % len(gm), "routing look-ups not found")
        for c in gm:
            tbl = "client_subscriptions" if "client_subscriptions" in describe_operand(b, c.args[0]) else "agent_routes"
            key = describe_operand(b, c.args[1])
            r.check("path.node" in key or "node" in key, "incoming/%s/keyed-by-envelope-node" % tbl, c.loc(), "%s looked up by the envelope's node (%s)" % (tbl, key[:60]), "%s looked up by %s" % (tbl, key[:80]))
        lane_l = [c for c in b.calls if c.name in ("get_mut", "get") and "lane" in describe_operand(b, c.args[1]) and "get" in describe_operand(b, c.args[0])]
        r.check(bool(lane_l), "incoming/client-subscription-keyed-by-lane", where(b), "the per-node subscription map is then looked up by the envelope's lane", "no second-level look-up by lane")
        pe = [c for c in b.calls if c.name in ("peel_envelope_header_str", "peel_envelope_header")]
        r.check(len(pe) == 1, "incoming/peel-site", where(b), "one envelope parse site")
        if pe:
            sws = b.result_switches(pe[0])
            err = [b.variant_edges(si["block"]).get("Err") for si in sws if b.variant_edges(si["block"])]
            if err:
                reach = b.reachable_from([err[0]])
                sends = {c.block for c in b.calls if c.via_name in ("send", "feed", "send_all")}
                # the error edge leaves the loop: no envelope send reachable before the function ends
                loop_heads = {c.block for c in b.calls if c.name in ("peel_envelope_header_str", "peel_envelope_header")}
                r.check(not (reach & loop_heads), "incoming/invalid-envelope-stops", pe[0].loc(), "an invalid envelope ends the task (never delivered, no further frames processed)",
                        "after an invalid envelope the task keeps routing frames")

    with ctx.rule("C11.R4b", "T7", "send_response evicts exactly the writers whose send failed (positions refer to the original sequence)", floor=3) as r:
        sr = [b for b in rm.all_bodies() if b.defpath.endswith("task::send_response::{closure#0}")]
        if len(sr) != 1:
            raise AnchorMissing("send_response coroutine body")
        b = ctx.saw(sr[0])
        cls = rm.closures_of(b.defpath)
        # producer side: the index reported for a failed send is the enumerate() index of that sender
        prod = [cb for cb in cls if cb.meta.get("coroutine") and any(c.via_name == "send" for c in cb.calls)]
        okp = False
        for cb in prod:
            for i, j, p, rv, line in cb.assigns():
                if rv[0] == "agg" and rv[1].get("variant") == "Some" and rv[2]:
                    g = guards(cb, i)
                    # on the failure edge of the send, however it is examined: `.is_err()`, `!.is_ok()`, `match .. { Err(_) => Some(i) }`
                    if any((d.startswith("is_err(") and l == "true") or (d.startswith("is_ok(") and l == "false") or (d.startswith("disc(") and l == "Err") for d, l, _ in g) \
                            and not any(d.startswith("disc(") and l == "Ok" for d, l, _ in g[-1:]):
                        okp = True
        en = [c for c in b.calls if c.via_name == "enumerate"]
        r.check(okp and len(en) >= 1, "send_response/failed-index-is-enumerate-index", where(b), "a failed send reports Some(i) with i from iter_mut().enumerate()", "failed sends are no longer identified by their enumerate() index")
        # consumer side: closures that test membership in `failed`
        dec = []
        for cb in cls:
            if cb.meta.get("coroutine"):
                continue
            # (the collection of failed positions is recognised by what it holds - positions, usize - not by what it is called)
            tests = [c for c in cb.calls if c.name in ("contains", "peek", "binary_search", "any") and c.args and
                     ("failed" in describe_operand(cb, c.args[0]) or (len(c.args) > 1 and ty_of(cb, c.args[1]) == "usize"))]
            if tests:
                dec.append((cb, tests))
        if not dec:
            raise AnchorMissing("send_response: no closure tests membership in `failed`")
        for cb, tests in dec:
            ctx.saw(cb)
            # the position compared: a closure parameter (enumerate item) or a captured counter
            upv_writes = [(i, describe_place(cb, p)) for i, j, p, rv, line in cb.assigns() if p[1] and cb.resolve(p).root == 1 and rv[0] in ("use", "bin") and ("index" in describe_place(cb, p) or "Add" in describe_rvalue(cb, rv))]
            if upv_writes:
                blocks = {i for i, _ in upv_writes}
                ok, wit = cb.must_pass([0], blocks)
                r.check(ok, "send_response/position-counter-advanced-for-every-element", where(cb), "the position counter is advanced on every call of the retain/filter closure",
                        "the position counter is only advanced for some elements (%s): after the first eviction positions no longer refer to the original sequence and a healthy writer is evicted instead of a failed one" % wit)
            else:
                enum2 = [c for c in b.calls if c.via_name == "enumerate"]
                flt = [c for c in b.calls if c.via_name in ("filter", "retain", "filter_map") and cb.defpath in (c.callee.get("closure_args") or [])]
                okc = len(enum2) >= 2 and bool(flt) and any(b.dominates(e.block, flt[0].block) for e in enum2[1:]) if flt else False
                r.check(okc, "send_response/position-from-enumerate", where(cb), "eviction is decided on the enumerate() position of the original sequence", "eviction position is neither an enumerate() index nor a counter")
        r.check(any(c.name in ("is_empty",) for c in b.calls), "send_response/reports-whether-any-left", where(b), "the result says whether any writer is left for the lane")

    with ctx.rule("C11.R5", "T2+T1", "MultiReader: re-queue after each item, remove on end, set ready before waking", floor=5) as r:
        mr = ctx.crate("swimos_multi_reader")
        pn = ctx.saw(mr.fn(name="poll_next", self_adt="reader::MultiReader"))
        sf = [c for c in pn.calls if c.name == "set_flag" and "queue_flags" in describe_operand(pn, c.args[0])]
        rdy = [a for a in aggregates(pn, "core::task::poll::Poll", "Ready") if a[5][0] == 0]
        some_ret = [a for a in rdy if "Option::Some(" in describe_operand(pn, a[2][0])]
        r.check(len(sf) == 1 and bool(some_ret) and all(pn.dominates(sf[0].block, a[0]) for a in some_ret), "poll_next/item=>requeue", where(pn), "a stream that yielded an item is put back in the queue before the item is returned",
                "a stream can yield an item without being re-queued: the source is never polled again")
        rmv = [c for c in pn.calls if c.name == "remove" and "streams" in describe_operand(pn, c.args[0])]
        r.check(len(rmv) == 1 and any(l == "None" for d, l, _ in dom_guards(pn, rmv[0].block)), "poll_next/end=>remove", where(pn), "a finished stream is removed")
        pend = [a for a in aggregates(pn, "core::task::poll::Poll", "Pending") if a[5][0] == 0]
        gns = [c for c in pn.calls if c.name == "get_next_stream"]
        r.check(bool(pend) and bool(gns) and all(any(d.startswith("disc(get_next_stream(") and l == "None" for d, l, _ in dom_guards(pn, a[0])) for a in pend), "poll_next/Pending-only-when-nothing-ready", where(pn),
                "Pending only after get_next_stream() returned None")
        wk = [b for b in mr.closures_of(pn.defpath) if any(c.name in ("wake_by_ref", "wake") for c in b.calls)]
        if len(wk) != 1:
            raise AnchorMissing("MultiReader waker closure")
        fo = [c for c in wk[0].calls if c.name == "fetch_or"]
        wb = [c for c in wk[0].calls if c.name in ("wake_by_ref", "wake")]
        r.check(len(fo) == 1 and wk[0].dominates(fo[0].block, wb[0].block) and describe_operand(wk[0], fo[0].args[1]).startswith("Shl(1, "), "waker/ready-bit-before-wake", where(wk[0]),
                "ready.fetch_or(1 << index) precedes waker.wake_by_ref()", "the task is woken before the ready bit is set (the wake-up can be lost)")
        gn = ctx.saw(mr.fn(name="get_next_stream", self_adt="reader::MultiReader"))
        fa = [c for c in gn.calls if c.name == "fetch_and"]
        fo2 = [c for c in gn.calls if c.name == "fetch_or"]
        r.check(len(fa) == 1 and describe_operand(gn, fa[0].args[1]) == "0", "get_next_stream/take-flags-atomically", where(gn), "bucket flags are taken with fetch_and(0) (nothing set concurrently is lost)")
        r.check(len(fo2) == 1 and "get_and_clear(" in describe_operand(gn, fo2[0].args[1]), "get_next_stream/requeue-flags-merged", where(gn), "queued flags are merged back with fetch_or(get_and_clear())")

    with ctx.rule("C11.R6", "T5", "named arguments are passed in their parameters' positions (no two flags or ids change places at a call site)", floor=5) as r:
        named_argument_rule(ctx, r, [("swimos_remote", "swimos_remote::")], allow={})

    with ctx.rule("C11.R7", "T2", "one envelope per frame: a frame buffer that is reused is emptied between any two encodes, and every encoded frame is written", floor=4) as r:
        n = 0
        for b in rm.all_bodies():
            if "::tests" in b.defpath:
                continue
            enc = [c for c in b.calls if c.via_name == "encode" and len(c.args) == 3 and "ReconEncoder" in (c.defpath + describe_operand(b, c.args[0]))]
            if not enc:
                continue
            ctx.saw(b)
            bufs = sorted({describe_operand(b, c.args[2]) for c in enc})
            for bn in bufs:
                es = [c for c in enc if describe_operand(b, c.args[2]) == bn]
                clr = {c.block for c in b.calls if c.name in ("clear", "split", "split_to") and c.args and describe_operand(b, c.args[0]) == bn}
                clr |= {c.block for c in b.calls if c.name == "truncate" and c.args and describe_operand(b, c.args[0]) == bn and describe_operand(b, c.args[1]) == "0"}
                wr = {c.block for c in b.calls if c.name in ("write", "write_text", "send", "feed", "write_all") and any(describe_operand(b, a) == bn for a in c.args)}
                home = b.defpath.split("swimos_remote::")[-1].split("::{closure")[0]
                for k_, e in enumerate(sorted(es, key=lambda x: x.line)):
                    n += 1
                    what = describe_operand(b, e.args[1]).split("<")[-1].split(">")[0] if "<" in describe_operand(b, e.args[1]) else describe_operand(b, e.args[1])[:20]
                    ok, wit = b.must_pass(b.succ[e.block], clr, targets={x.block for x in es})
                    r.check(ok, "%s/%s/encode(%s)/buffer-emptied-before-next-encode" % (home, bn, what), e.loc(), "after this frame is encoded the buffer is emptied before anything else is encoded into it",
                            "a frame can be encoded into `%s` while it still holds this one (path %s): two envelopes go out as one frame - the second is read as part of the first's body and never reaches its node and lane" % (bn, (wit or [])[:6] + ["..."] + (wit or [])[-4:]))
                    if wr:
                        ok2, wit2 = b.must_pass_edges(b.succ[e.block], wr, targets=set(b.exits()) | {x.block for x in es} | clr)
                        r.check(ok2, "%s/%s/encode(%s)/frame-written" % (home, bn, what), e.loc(), "the encoded frame is handed to the socket before the buffer is reused or the task ends",
                                "an encoded frame can be discarded without being written (path %s)" % (wit2,))
        if n < 3:
            raise AnchorMissing("expected the three encode sites of OutgoingTask::run (found %d)" % n)

    with ctx.rule("C11.R8", "T7", "node and lane names written into an envelope are escaped character by character (nothing but the escapes changes)", floor=1) as r:
        from rules.common import escape_text_rule
        escape_text_rule(r, ctx)

    # node and lane names are read back by the Recon tokenizer's unescape: it must undo exactly what escape_text did (C09.R2)
    from rules import C09 as _C09
    ctx.borrow(_C09, {"C09.R2": ("C11.R9", "the reader unescapes node and lane names exactly as the writer escaped them (escape tables inverse, \\uXXXX of four digits; C09.R2)"),
                      "C09.R11": ("C11.R10", "no envelope header makes the reader panic: finish() is applied only where the parser cannot have answered Incomplete (C09.R11)")})

