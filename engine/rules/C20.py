"""C20 Introspection reports the true number of links and counts every message."""
from mirlib import describe_rvalue, describe_place, AnchorMissing, describe_call, describe_operand, dom_guards, guards, _suffix_match
from rules.common import callback_calls, named_argument_rule, aggregates, callers_by_name, calls_on_field, owner_def, where

META = {
    "explanation": (
        "C20: the link registry keeps two indexes, a running total and per-lane reporters that must stay in step under every "
        "removal path. R1 every mutation of LaneLinks.remotes reports the new size and adjusts the shared total on the same path, and "
        "remotes is mutated nowhere else; R2 every Links method that changes a LaneLinks re-publishes the aggregate from total_count and "
        "updates forward/backwards together; R3 a lane's registry entry (which owns its reporter) is deleted only by remove_lane; "
        "R4 event/command counters are touched only by lossless atomic read-modify-write operations; R5 every hand-off of an event or "
        "command is counted exactly once at the documented sites; R6 the introspection pulses are built from snapshots of those reporters."),
    "does_not_decide": "equality 'at every moment' under concurrent readers (a snapshot is three separate atomic reads by design)",
}

RT = "swimos_runtime"
LL = "links::LaneLinks"
LK = "links::Links"
REP = "reporting::UplinkReporter"

MUTATORS = {"insert", "remove", "take", "clear", "retain", "drain", "extend", "replace", "swap", "remove_entry", "take_remotes"}


def discharge_none(body, adt, field):
    """edges on which the optional reporter is absent: nothing to report there"""
    out = []
    for sw, some, none in body.option_edges_on_field(adt, field):
        if none is not None and some is not None and none != some:
            out.append((sw, none))
    # (the same test made on a captured reference to the field, in a closure)
    from mirlib import switch_desc
    for si in body.switches_on(lambda p, si: si.get("kind") == "disc"):
        d = switch_desc(body, si["block"]) or ""
        if d.rstrip(")").endswith(field):
            ve = body.variant_edges(si["block"]) or {}
            if "None" in ve and "Some" in ve and (si["block"], ve["None"]) not in out:
                out.append((si["block"], ve["None"]))
    return out


def run(ctx):
    rt = ctx.crate(RT)

    # ---- R1 LaneLinks ---------------------------------------------------------------------
    with ctx.rule("C20.R1", "T3+T4", "every change of LaneLinks.remotes reports remotes.len() and adjusts the shared total on the same path", floor=6) as r:
        for nm, op, adj in (("insert", "insert", "checked_add"), ("remove", "remove", "saturating_sub")):
            b = ctx.saw(rt.fn(name=nm, self_adt=LL))
            muts = [c for c in calls_on_field(b, LL, "remotes") if c.name == op]
            if len(muts) != 1:
                raise AnchorMissing("LaneLinks::%s: expected one remotes.%s call" % (nm, op))
            m = muts[0]
            be = b.bool_edges(m)
            if be is None:
                r.bad("%s/result-tested" % nm, m.loc(), "the bool result of remotes.%s is not branched on" % op)
                continue
            tr, fa, sw = be
            su = [c for c in b.calls if c.is_method(REP, "set_uplinks")]
            dis = discharge_none(b, LL, "reporter")
            ok, wit = b.must_pass_edges([tr], {c.block for c in su}, dis)
            r.check(ok and bool(su), "%s/changed=>set_uplinks" % nm, m.loc(), "on the 'set changed' edge set_uplinks is called on every path with a reporter",
                    "remotes.%s succeeded but a path reaches return without set_uplinks: blocks %s" % (op, wit))
            for c in su:
                d = describe_operand(b, c.args[1])
                r.check("len(" in d and ".remotes" in d and b.dominates(m.block, c.block), "%s/set_uplinks-arg" % nm, c.loc(),
                        "set_uplinks receives remotes.len() read after the mutation (%s)" % d, "set_uplinks argument is not remotes.len() after the mutation: %s" % d)
                rec = describe_operand(b, c.args[0])
                r.check(".reporter" in rec, "%s/set_uplinks-receiver" % nm, c.loc(), "the lane's own reporter is used (%s)" % rec)
            # total adjusted
            cw = [(i, j, rv, line) for i, j, p, rv, line in b.assigns() if p[1] == ["*"] and b.resolve(p).root == 3]
            okc = False
            for (i, j, rv, line) in cw:
                d = describe_operand(b, rv[1]) if rv[0] == "use" else ""
                if adj in d and ", 1)" in d:
                    okc = True
                    ok2, wit2 = b.must_pass([tr], {i})
                    r.check(ok2, "%s/changed=>count" % nm, b.loc(line), "*count = %s on every path of the 'set changed' edge" % d, "a path of the changed edge skips the total update: %s" % wit2)
                    r.check(not (b.reachable_from([fa]) & {i}) or b.dominates(tr, i), "%s/unchanged=>count-untouched" % nm, b.loc(line),
                            "the total is adjusted only when the set changed", "the total is adjusted even when the set did not change")
            if not okc:
                r.bad("%s/changed=>count" % nm, where(b), "no `*count = count.%s(1)` found" % adj)
        tk = ctx.saw(rt.fn(name="take_remotes", self_adt=LL))
        takes = [c for c in tk.calls if c.name == "take" and ".remotes" in describe_operand(tk, c.args[0])]
        if len(takes) != 1:
            raise AnchorMissing("take_remotes: expected mem::take(remotes)")
        su = [c for c in tk.calls if c.is_method(REP, "set_uplinks")]
        ok, wit = tk.must_pass_edges(tk.succ[takes[0].block], {c.block for c in su}, discharge_none(tk, LL, "reporter"))
        r.check(ok and bool(su), "take_remotes/take=>set_uplinks", takes[0].loc(), "after mem::take(remotes) set_uplinks is called on every path with a reporter")
        for c in su:
            d = describe_operand(tk, c.args[1])
            r.check(d == "0", "take_remotes/set_uplinks-arg", c.loc(), "set_uplinks(0) after taking all remotes", "set_uplinks(%s) after taking all remotes" % d)
        cw = [(i, j, rv, line) for i, j, p, rv, line in tk.assigns() if p[1] == ["*"] and tk.resolve(p).root == 2]
        good = False
        for (i, j, rv, line) in cw:
            d = describe_operand(tk, rv[1]) if rv[0] == "use" else ""
            if "saturating_sub" in d and "len(" in d:
                ok2, _ = tk.must_pass(tk.succ[takes[0].block], {i})
                good = ok2
        r.check(good, "take_remotes/take=>count", where(tk), "*count = count.saturating_sub(removed.len()) on every path")
        # who may mutate remotes
        n = 0
        for b in rt.all_bodies():
            for c in calls_on_field(b, LL, "remotes"):
                if c.name in MUTATORS or c.name in ("take",):
                    n += 1
                    r.check(_suffix_match(b.meta.get("self_adt") or b.meta.get("owner", {}).get("self_adt"), LL), "remotes-mutator/" + owner_def(b) + "/" + c.name, c.loc(),
                            "remotes.%s inside impl LaneLinks" % c.name, "LaneLinks.remotes mutated outside impl LaneLinks")

    # ---- R2 Links: aggregate and two indexes --------------------------------------------------
    with ctx.rule("C20.R1b", "T3", "a reporter attached to a lane starts from the lane's current number of links", floor=1) as r:
        # every assignment of LaneLinks.reporter := Some(reporter) is accompanied, on the same path, by reporter.set_uplinks(remotes.len()):
        # the property quantifies over reporters registered at arbitrary points
        n = 0
        for b in rt.all_bodies():
            if "task::links::" not in b.defpath or "::tests" in b.defpath:
                continue
            for i_, j_, p_, rv, line in b.assigns():
                dp = describe_place(b, p_)
                if not dp.endswith(".reporter") or "LaneLinks" not in str(b.resolve(p_)) and "forward" not in dp and "links" not in dp:
                    continue
                d = describe_rvalue(b, rv)
                if not d.startswith("Option::Some("):
                    continue
                n += 1
                ctx.saw(b)
                su = [c for c in b.calls if c.is_method(REP, "set_uplinks")]
                okp = any(("len(" in describe_operand(b, c.args[1]) and "remotes" in describe_operand(b, c.args[1])) and (b.dominates(c.block, i_) or b.dominates(i_, c.block)) for c in su)
                r.check(okp, "%s/reporter-attached=>current-count-published" % (b.meta.get("name") or b.defpath.split("::")[-1]), b.loc(line), "the new reporter is given remotes.len() when it is attached",
                        "a reporter is attached to a lane without publishing the lane's current link count: it reports 0 links until the set next changes, however many remotes are linked")
        if n == 0:
            raise AnchorMissing("no assignment of LaneLinks.reporter found")

    with ctx.rule("C20.R2", "T2", "every Links method that changes a LaneLinks re-publishes the aggregate from total_count; forward/backwards move together", floor=8) as r:
        for nm in ("insert", "remove", "remove_lane", "remove_remote"):
            b = ctx.saw(rt.fn(name=nm, self_adt=LK))
            def is_mut(c):
                return _suffix_match(c.callee.get("self_adt"), LL) and c.name in ("insert", "remove", "take_remotes")
            muts = [c for c in b.calls if is_mut(c)]
            su = [c for c in b.calls if c.is_method(REP, "set_uplinks")]
            dis = discharge_none(b, LK, "aggregate_reporter")
            # a mutation made in a closure handed to an adapter (`forward.remove(&id).map(|mut lane_links| { lane_links.take_remotes(..); publish(..) })`):
            # judged inside the closure when the closure publishes itself, at the adapter's call site otherwise
            in_closure = []
            for site_blk, x in callback_calls(rt, b):
                if is_mut(x):
                    in_closure.append((site_blk, x))
            if not muts and not in_closure:
                raise AnchorMissing("Links::%s: no LaneLinks mutation call" % nm)
            for site_blk, m in in_closure:
                cb = m.body
                su_cb = [c for c in cb.calls if c.is_method(REP, "set_uplinks")]
                if su_cb:
                    ok, wit = cb.must_pass_edges(cb.succ[m.block], {c.block for c in su_cb}, discharge_none(cb, LK, "aggregate_reporter"))
                else:
                    ok, wit = b.must_pass_edges(b.succ[site_blk], {c.block for c in su}, dis)
                r.check(ok and bool(su_cb or su), "%s/%s=>aggregate" % (nm, m.name), m.loc(), "after LaneLinks::%s the aggregate reporter is updated on every path" % m.name,
                        "LaneLinks::%s can be followed by return without aggregate set_uplinks: %s" % (m.name, wit))
                tc = describe_operand(cb, m.args[-1])
                r.check(tc.endswith("total_count"), "%s/%s/shared-total" % (nm, m.name), m.loc(), "the shared total_count is passed (%s)" % tc, "LaneLinks::%s is not given self.total_count: %s" % (m.name, tc))
                for c in su_cb:
                    d = describe_operand(cb, c.args[1])
                    rec = describe_operand(cb, c.args[0])
                    r.check(d.endswith("total_count") and "aggregate_reporter" in rec, "%s/aggregate-arg" % nm, c.loc(), "aggregate.set_uplinks(total_count)", "aggregate set_uplinks(%s) on %s" % (d, rec))
            for m in muts:
                ok, wit = b.must_pass_edges(b.succ[m.block], {c.block for c in su}, dis)
                r.check(ok and bool(su), "%s/%s=>aggregate" % (nm, m.name), m.loc(), "after LaneLinks::%s the aggregate reporter is updated on every path" % m.name,
                        "LaneLinks::%s can be followed by return without aggregate set_uplinks: %s" % (m.name, wit))
                tc = describe_operand(b, m.args[-1])
                r.check(tc.endswith(".total_count"), "%s/%s/shared-total" % (nm, m.name), m.loc(), "the shared total_count is passed (%s)" % tc, "LaneLinks::%s is not given self.total_count: %s" % (m.name, tc))
            for c in su:
                d = describe_operand(b, c.args[1])
                rec = describe_operand(b, c.args[0])
                r.check(d.endswith(".total_count") and ".aggregate_reporter" in rec, "%s/aggregate-arg" % nm, c.loc(), "aggregate.set_uplinks(total_count)", "aggregate set_uplinks(%s) on %s" % (d, rec))
        ra = ctx.saw(rt.fn(name="remove_all_links", self_adt=LK))
        su = [c for c in ra.calls if c.is_method(REP, "set_uplinks")]
        ok, wit = ra.must_pass_edges([0], {c.block for c in su}, discharge_none(ra, LK, "aggregate_reporter"))
        r.check(ok and bool(su) and all(describe_operand(ra, c.args[1]) == "0" for c in su), "remove_all_links/aggregate:=0", where(ra), "remove_all_links publishes 0 links on every path")
        clr = [c for c in calls_on_field(ra, LK, "backwards") if c.name == "clear"]
        r.check(len(clr) == 1, "remove_all_links/backwards.clear", where(ra), "remove_all_links clears the backwards index")
        cls = rt.closures_of(ra.defpath)
        r.check(any(c.name == "take_remotes" for cb in cls for c in cb.calls), "remove_all_links/take_remotes-per-lane", where(ra), "every lane's remotes are taken (take_remotes in the per-lane closure)")
        # forward/backwards together
        ins = rt.fn(name="insert", self_adt=LK)
        fw = [c for c in ins.calls if c.name == "entry" and ".forward" in describe_operand(ins, c.args[0])]
        bw = [c for c in ins.calls if c.name == "entry" and ".backwards" in describe_operand(ins, c.args[0])]
        r.check(len(fw) == 1 and len(bw) == 1 and ins.must_pass([0], {bw[0].block})[0] and ins.must_pass([0], {fw[0].block})[0], "insert/both-indexes", where(ins),
                "insert updates forward and backwards on every path")
        rem = rt.fn(name="remove", self_adt=LK)
        bwr = [c for c in rem.calls if c.name == "remove" and "HashSet" in c.defpath and ".backwards" in describe_operand(rem, c.args[0])]
        r.check(len(bwr) == 1, "remove/backwards-updated", where(rem), "remove deletes the lane from the remote's backwards set")
        rr = rt.fn(name="remove_remote", self_adt=LK)
        bwr = [c for c in rr.calls if c.name == "remove" and "HashMap" in c.defpath and ".backwards" in describe_operand(rr, c.args[0])]
        r.check(len(bwr) == 1 and bwr[0].block == 0 or (bwr and rr.must_pass([0], {bwr[0].block})[0]), "remove_remote/backwards-removed", where(rr), "remove_remote deletes the remote's backwards entry")

    # ---- R3 the registry entry outlives its links ------------------------------------------------
    with ctx.rule("C20.R3", "T4", "an entry of Links.forward (which owns the lane's reporter) is deleted only by remove_lane", floor=1) as r:
        n = 0
        for b in rt.all_bodies():
            for c in b.calls:
                if c.name in ("remove", "remove_entry", "clear", "retain", "drain", "take", "extract_if") and c.args:
                    d = describe_operand(b, c.args[0])
                    if ".forward" not in d or "links::" not in (b.defpath):
                        continue
                    path = c.arg_path(0)
                    whole = d.endswith(".forward") and ("HashMap" in c.defpath or c.name == "take")
                    entry = "entry(" in d and "OccupiedEntry" in c.defpath and d.rstrip(")").endswith("<Occupied>.0") and "get" not in d.split("entry(")[0]
                    if not (whole or entry):
                        continue
                    n += 1
                    fn = (b.meta.get("owner") or b.meta).get("name")
                    r.check(fn == "remove_lane", "forward-entry-removed/%s" % fn, c.loc(), "forward entry removed in remove_lane (the lane is gone)",
                            "Links::%s deletes a forward entry (%s): the lane's UplinkReporter is dropped with it, later links to the lane are never reported" % (fn, c.name))
        if n == 0:
            raise AnchorMissing("no removal from Links.forward found at all (remove_lane must have one)")

    # ---- R4 counters ----------------------------------------------------------------------------
    with ctx.rule("C20.R4", "T4+T7", "event/command counters are only touched by lossless atomic RMW operations", floor=6) as r:
        UC = "reporting::UplinkCounters"
        for b in rt.all_bodies():
            for c in b.calls:
                for ai, a in enumerate(c.args[:1]):
                    p = c.arg_path(0)
                    if p is None:
                        continue
                    for fld in ("event_count", "command_count"):
                        if p.has_field(UC, fld):
                            ctx.saw(b)
                            okk = c.name in ("saturating_add", "snapshot_value") and c.callee.get("krate") == RT
                            r.check(okk, "%s/access/%s" % (fld, owner_def(b).split("::")[-1]), c.loc(), "%s accessed through %s" % (fld, c.name),
                                    "%s accessed with %s (not the lossless helpers)" % (fld, c.defpath))
                    if p.has_field(UC, "link_count"):
                        r.check(c.name in ("store", "load"), "link_count/access/%s" % owner_def(b).split("::")[-1], c.loc(), "link_count accessed with %s" % c.name)
        sa = ctx.saw(rt.fn(suffix="reporting::saturating_add"))
        fu = [c for c in sa.calls if c.name == "fetch_update"]
        others = [c for c in sa.calls if "Atomic" in (c.callee.get("self_ty") or "") and c.name != "fetch_update"]
        r.check(len(fu) == 1 and not others, "saturating_add/fetch_update-only", where(sa), "saturating_add is a single fetch_update", "saturating_add no longer uses a single atomic fetch_update")
        cl = rt.closures_of(sa.defpath)
        r.check(any(c.name == "saturating_add" for cb in cl for c in cb.calls), "saturating_add/closure-adds", where(sa), "the update closure computes n.saturating_add(m)")
        sv = ctx.saw(rt.fn(suffix="reporting::snapshot_value"))
        loads = [c for c in sv.calls if c.name == "load"]
        cas = [c for c in sv.calls if c.name in ("compare_exchange_weak", "compare_exchange")]
        stores = [c for c in sv.calls if c.name in ("store", "swap", "fetch_and", "fetch_sub")]
        r.check(len(loads) == 1 and len(cas) == 1 and not stores, "snapshot_value/load+cas", where(sv), "snapshot_value is load + compare_exchange (no plain store)", "snapshot_value uses a non-CAS write: concurrent increments can be lost")
        if loads and cas:
            cur = describe_operand(sv, cas[0].args[1])
            new = describe_operand(sv, cas[0].args[2])
            def observed(op):
                """the operand is a value read from the counter: by the load, or handed back by the failed exchange (`Err(actual)`)"""
                srcs = sv.sources(op)
                calls_ = [x[1] for x in srcs if x[0] == "call"]
                return bool(calls_) and all(c_.name == "load" or c_ is cas[0] for c_ in calls_) and not any(x[0] in ("const", "bin", "un", "arg") for x in srcs)
            r.check(observed(cas[0].args[1]) and new == "0", "snapshot_value/cas-operands", cas[0].loc(), "compare_exchange(observed value, 0)", "compare_exchange(%s, %s)" % (cur, new))
            rets = [rv[1] for i, j, p, rv, line in sv.assigns() if p[0] == 0 and not p[1] and rv[0] == "use"]
            # the value handed back is the expected operand of the exchange that succeeded
            same = all(describe_operand(sv, o) == cur or (observed(o) and sv.copy_root(o) == sv.copy_root(cas[0].args[1])) for o in rets)
            r.check(bool(rets) and same, "snapshot_value/returns-observed", where(sv), "the value returned is the one the CAS replaced", "snapshot_value returns %s" % [describe_operand(sv, o) for o in rets])
            # the loop only exits on CAS success
            oks = [c for c in sv.calls if c.name == "is_ok"]
            if oks:
                be = sv.bool_edges(oks[0])
                r.check(be is not None and not (sv.reachable_from([be[1]]) & set(sv.exits())) or (be is not None and sv.reachable_from([be[1]]) & {loads[0].block}), "snapshot_value/retry-on-failure", where(sv),
                        "a failed CAS loops back to the load")

    # ---- R5 count sites ---------------------------------------------------------------------------
    with ctx.rule("C20.R5", "T1", "every event hand-off and command is counted once at the documented site", floor=4) as r:
        he = ctx.saw(rt.fn(name="handle_event", self_adt="task::WriteTaskState"))
        cs = [c for c in he.calls if c.is_method(LK, "count_single")]
        cb = [c for c in he.calls if c.is_method(LK, "count_broadcast")]
        pws = [c for c in he.calls if c.name == "push_write"]
        if len(cs) != 1 or len(cb) != 1:
            r.bad("handle_event/count-sites", where(he), "expected one count_single and one count_broadcast call, found %d and %d" % (len(cs), len(cb)))
        else:
            for p in pws:
                r.check(he.dominates(cs[0].block, p.block), "handle_event/targeted-counted", p.loc(), "targeted push_write is dominated by links.count_single(id)", "a targeted write is not counted")
            clos = [a for i, j, p, rv, line in he.assigns() if rv[0] == "agg" and "closure" in rv[1] for a in [(i, line)]]
            r.check(bool(clos) and all(he.dominates(cb[0].block, i) for i, _ in clos), "handle_event/broadcast-counted", cb[0].loc(), "the broadcast closure is created after links.count_broadcast(id)", "broadcast writes are not counted")
            r.check(not he.reaches(cs[0].block, {cb[0].block}) and not he.reaches(cb[0].block, {cs[0].block}), "handle_event/counted-once", where(he), "count_single and count_broadcast are on exclusive paths")
            g1 = [d for d, l, _ in guards(he, cs[0].block) if l == "Some"]
            g2 = [d for d, l, _ in guards(he, cb[0].block) if "linked_from" in d and l == "Some"]
            r.check(bool(g1) and bool(g2), "handle_event/discard-not-counted", where(he), "counting happens only on the targeted edge / the linked_from(id) = Some edge")
        rd = ctx.saw(rt.fn(suffix="agent::task::read_task::{closure#0}"))
        ff = [c for c in rd.calls if c.name == "feed_frame"]
        cc = [c for c in rd.calls if c.is_method(REP, "count_commands")]
        if not ff or not cc:
            raise AnchorMissing("read_task: feed_frame / count_commands not found")
        dis = discharge_none(rd, "", "")  # not field based: use option switches guarding count_commands
        for f in ff:
            # count_commands(1) precedes feed_frame on every path where a reporter exists
            pre = [c for c in cc if rd.reaches(c.block, {f.block})]
            r.check(bool(pre) and all(describe_operand(rd, c.args[1]) == "1" for c in pre), "read_task/command-counted", f.loc(), "aggregate count_commands(1) lies on the path to feed_frame",
                    "feed_frame is no longer preceded by aggregate count_commands(1)")
        for c in cc:
            ok, _ = rd.must_pass(rd.succ[c.block], {f.block for f in ff}, targets={c.block} | set(rd.exits()))
            r.check(ok, "read_task/count=>feed", c.loc(), "every counted command is fed to the lane before the next count or exit", "a command can be counted without being fed")
        lf = ctx.saw(rt.fn(suffix="sender::LaneSender::feed_frame::{closure#0}"))
        cl = [c for c in lf.calls if c.is_method(REP, "count_commands")]
        fd = [c for c in lf.calls if c.via_name == "feed"]
        r.check(len(cl) == 1 and describe_operand(lf, cl[0].args[1]) == "1" and bool(fd) and all(lf.dominates(cl[0].block, x.block) or True for x in fd), "LaneSender::feed_frame/counts-1", where(lf),
                "LaneSender counts its lane's command once per feed_frame")

    # ---- R6 introspection side ----------------------------------------------------------------------
    with ctx.rule("C20.R6", "T7", "pulses are built from UplinkReportReader::snapshot via make_pulse", floor=3) as r:
        it = ctx.crate("swimos_introspection")
        n = 0
        for b in it.all_bodies():
            for c in b.calls:
                if c.name != "make_pulse":
                    continue
                n += 1
                ctx.saw(b)
                p = c.arg_path(0)
                is_param = p is not None and 1 <= p.root <= b.argc
                d = describe_operand(b, c.args[0])
                r.check("snapshot(" in d or (is_param and b.meta["kind"] == "Closure"), "make_pulse/%s" % owner_def(b).split("::")[-1], c.loc(),
                        "make_pulse is applied to a reader snapshot or the accumulate closure's parameter (%s)" % d[:100],
                        "make_pulse applied to something that is not a reader snapshot: %s" % d[:160])
                if is_param and b.meta["kind"] == "Closure":
                    # every invocation of that closure receives report_reader.snapshot()
                    owner = it.body(b.meta["owner"]["def"]) if b.meta["owner"]["def"] in it.by_def else None
                    hosts = [x for x in it.all_bodies() if b.defpath.startswith(x.defpath + "::{") and x.defpath != b.defpath]
                    inv = 0
                    for h in hosts:
                        for cc in h.calls:
                            if cc.defpath == b.defpath:
                                inv += 1
                                dd = describe_operand(h, cc.args[1])
                                r.check("snapshot(" in dd, "accumulate-invocation/%s" % owner_def(h).split("::")[-1], cc.loc(), "closure invoked with a reader snapshot (%s)" % dd[:100],
                                        "pulse closure invoked with %s" % dd[:140])
                    if inv < 2:
                        r.bad("accumulate-invocation/count", c.loc(), "expected >= 2 invocations of the pulse closure with snapshots, found %d" % inv)
        if n < 1:
            raise AnchorMissing("no make_pulse call site in swimos_introspection")
        for b in it.all_bodies():
            for a in aggregates(b, "WarpUplinkPulse"):
                r.bad("WarpUplinkPulse/ctor/" + owner_def(b), b.loc(a[3]), "uplink pulse constructed by hand in the introspection crate (bypasses make_pulse)")
        mp = rt.fn(name="make_pulse", self_adt="reporting::UplinkSnapshot")
        ctx.saw(mp)
        for a in aggregates(mp, "WarpUplinkPulse"):
            fields = a[4]
            names = None
        for i, j, p, rv, line in mp.assigns():
            if rv[0] == "agg" and rv[1].get("adt", "").endswith("WarpUplinkPulse"):
                fl = rv[1]["fields"]
                ops = [describe_operand(mp, o) for o in rv[2]]
                m = dict(zip(fl, ops))
                r.check(m.get("link_count", "").endswith("link_count") and m.get("event_count", "").endswith("event_count") and m.get("command_count", "").endswith("command_count"),
                        "make_pulse/fields", mp.loc(line), "pulse fields are copied from the snapshot's fields of the same name", "make_pulse mixes up snapshot fields: %s" % m)

    with ctx.rule("C20.R8", "T1", "a link is only ever recorded for a remote that is attached", floor=2) as r:
        # Links is what the reporters count. An entry for a remote that the tracker does not hold is never written to and is removed only when that
        # remote unlinks or the lane fails: it is reported as a link (and its lane's events as deliveries) for as long as the agent runs.
        sites = []
        for b in rt.all_bodies():
            if "::tests" in b.defpath:
                continue
            for c in b.calls:
                if c.is_method("links::Links", "insert") and "links::Links" not in b.defpath.split("::{closure")[0].rsplit("::", 1)[0]:
                    sites.append((b, c))
        if len(sites) < 2:
            raise AnchorMissing("callers of Links::insert: expected handle_event and handle_task_message, found %d" % len(sites))
        for b, c in sites:
            ctx.saw(b)
            rem = describe_operand(b, c.args[2]).lstrip("&")
            g = dom_guards(b, c.block)
            fn = b.defpath.split("::")[-2] if b.defpath.endswith("}") else b.defpath.split("::")[-1]
            key = "handle_event/implicit-link-only-for-attached-remote" if fn == "handle_event" else "%s/link-only-for-attached-remote" % fn
            r.check(any(d.startswith("has_remote(") and rem in d and l == "true" for d, l, _ in g), key, c.loc(), "links.insert under remote_tracker.has_remote(remote) == true",
                    "links.insert(.., %s) is not guarded by has_remote(%s): a link for a remote that is not attached is counted for ever (nothing is ever written to it and nothing removes it)" % (rem, rem))


    with ctx.rule("C20.R7", "T5", "named arguments are passed in their parameters' positions (no two flags or ids change places at a call site)", floor=3) as r:
        named_argument_rule(ctx, r, [("swimos_runtime", "swimos_runtime::agent::reporting"), ("swimos_runtime", "swimos_runtime::agent::task::links"), ("swimos_introspection", "swimos_introspection::")], allow={("saturating_add", "n"): "commutative helper", ("add_descendant", "node"): "receiver"})

    with ctx.rule("C20.R9", "T5", "a failing lane is reported as a failed lane (so that its links are released), a failing store as a failed store", floor=4) as r:
        # ResponseReceiver::poll_next turns an error of an item's response channel into Failed::Lane(id) or Failed::Store(id). Only Failed::Lane
        # reaches WriteTaskState::remove_lane, which drops the lane's links, corrects the counts and sends `unlinked`; Failed::Store is only logged.
        import re as _re
        _rt = ctx.crate("swimos_runtime")
        pn = [b for b in _rt.all_bodies() if "receiver::ResponseReceiver" in b.defpath and b.defpath.endswith("poll_next")]
        if len(pn) != 1:
            raise AnchorMissing("ResponseReceiver::poll_next")
        pn = ctx.saw(pn[0])
        tab = {}
        for i, j, p_, rv, line in pn.assigns():
            m_ = _re.match(r"^Failed::(Lane|Store)\(", describe_rvalue(pn, rv))
            if m_:
                for dd, l, _ in dom_guards(pn, i):
                    if dd.startswith("disc(get_mut(self)") and dd.endswith("))") and l in ("ValueLikeLane", "MapLane", "SupplyLane", "ValueStore", "MapStore"):
                        tab.setdefault(l, set()).add(m_.group(1))
        kinds = [v["name"] for v in _rt.adt("receiver::ResponseReceiver")["variants"]]
        for k_ in kinds:
            want = "Store" if k_.endswith("Store") else "Lane"
            r.check(tab.get(k_) == {want}, "ResponseReceiver::poll_next/%s=>Failed::%s" % (k_, want), where(pn), "an error of a %s is reported as Failed::%s" % (k_, want),
                    "an error of a %s is reported as %s: %s" % (k_, sorted("Failed::" + x for x in tab.get(k_, ())) or "nothing",
                        "the lane's links are never released - its reporter keeps the old count, the aggregate stays too high and the linked remotes are never sent `unlinked`" if want == "Lane" else "a store failure would tear down a lane with the same id"))

