"""C06 Event handlers run one at a time, depth-first, in the documented order."""
from mirlib import op_place, AnchorMissing, edge_label, switch_desc, describe_call, describe_operand, describe_place, describe_rvalue, dom_guards, guards, _suffix_match
from rules.common import named_argument_rule, aggregates, callers_by_name, owner_def, where

META = {
    "explanation": (
        "C06: R1 run_handler recurses into the triggered handler before the interrupted handler is stepped again or completes, on both the "
        "Continue and the Complete arm, propagating failure with `?`; the dirty id is recorded iff DIRTY; R2 after Fail (or a failed "
        "consequence) nothing more of the handler is stepped; R3 every combinator whose step() drives an inner handler forwards the inner "
        "step's modification (a swallowed modification suppresses both the publish and the triggered handler) and steps at most one inner "
        "handler per step; R5 value items trigger on_event followed by on_set with the previous value taken at that moment, map items dispatch "
        "update/remove/clear to the matching callback; R6 the previous value is taken exactly once; R7 on_start is the first handler run and "
        "on_stop the last. R10 (shared with C01.R3) a completed write runs the lane's handlers exactly when the lane asked for it (write-back table per WriteResult)."
),
    "does_not_decide": "the semantics of arbitrary generated handler programs against a reference interpreter; that user lifecycles are acyclic",
}

AG = "swimos_agent"
HA = "event_handler::HandlerAction"

# combinators that legitimately do not forward the inner modification unchanged, with the reason
R3_EXCEPTIONS = {
}


def run(ctx):
    ag = ctx.crate(AG)

    with ctx.rule("C06.R1", "T2", "run_handler: triggered handlers run to completion before the interrupted handler continues", floor=9) as r:
        rh = ctx.saw(ag.fn(suffix="agent_model::run_handler"))
        DIRTY = ag.const("ModificationFlags::DIRTY")["v"]
        TRIG = ag.const("ModificationFlags::TRIGGER_HANDLER")["v"]
        steps = [c for c in rh.calls if c.via_name == "step" and _suffix_match(c.trait, HA)]
        recs = [c for c in rh.calls if c.is_fn("agent_model::run_handler")]
        ies = [c for c in rh.calls if c.via_name == "item_event"]
        adds = [c for c in rh.calls if c.via_name == "add_id"]
        if len(steps) != 1:
            raise AnchorMissing("run_handler: expected one handler.step call, found %d" % len(steps))
        if not recs or not ies or not adds:
            raise AnchorMissing("run_handler: recursion %d / item_event %d / add_id %d call sites" % (len(recs), len(ies), len(adds)))
        stepb = steps[0].block
        sws = rh.result_switches(steps[0])
        ve = rh.variant_edges(sws[0]["block"]) if sws else None
        if not ve or not {"Continue", "Complete", "Fail"} <= set(ve):
            raise AnchorMissing("run_handler: match on the StepResult of handler.step")
        # successful returns: Ok(..) assigned to the return place (possibly through one local)
        ret_locals = {0} | {rv[1][1][0] for i, j, p, rv, line in rh.assigns() if p[0] == 0 and not p[1] and rv[0] == "use" and rv[1][0] in ("c", "m") and not rv[1][1][1]}
        ok_ret = {i for i, j, p, rv, line in rh.assigns() if not p[1] and p[0] in ret_locals and describe_rvalue(rh, rv).startswith("Result::Ok(")}
        targets = {stepb} | set(rh.exits())

        def edges(pred):
            out = []
            for sb in range(rh.n):
                if rh.is_cleanup(sb) or rh.term(sb)["k"] != "switch":
                    continue
                d = switch_desc(rh, sb)
                for t_ in rh.succ[sb]:
                    l = {"0": "false", "1": "true"}.get(edge_label(rh, sb, t_), edge_label(rh, sb, t_))
                    if pred(d, l):
                        out.append((sb, t_))
            return out

        no_item = edges(lambda d, l: d.startswith("disc(and_then(") and "modified_item" in d and l == "None") or edges(lambda d, l: d.startswith("disc(") and "modified_item" in d and l == "None")
        if not no_item:
            # merged form: the modification is first moved out of the StepResult
            no_item = edges(lambda d, l: d.startswith("disc(and_then(") and l == "None")
        no_trig = edges(lambda d, l: d.startswith("contains(") and d.endswith(".flags, %d)" % TRIG) and l == "false")
        no_dirty = edges(lambda d, l: d.startswith("contains(") and d.endswith(".flags, %d)" % DIRTY) and l == "false")
        no_cons = edges(lambda d, l: d.startswith("disc(item_event(") and l == "None")
        r.check(bool(no_item) and bool(no_trig) and bool(no_dirty) and bool(no_cons), "run_handler/tests-present", where(rh), "the item lookup, the DIRTY and TRIGGER_HANDLER flag tests and the item_event result are inspected",
                "missing test: lookup %d, TRIGGER %d, DIRTY %d, consequence %d" % (len(no_item), len(no_trig), len(no_dirty), len(no_cons)))
        for V in ("Continue", "Complete"):
            ok, wit = rh.must_pass_edges([ve[V]], {c.block for c in ies}, no_item + no_trig, targets)
            r.check(ok, "run_handler/%s/trigger=>item_event" % V, steps[0].loc(), "after %s with a TRIGGER_HANDLER modification of a known item, the lifecycle is asked for its handler before the next step / return" % V,
                    "after %s a triggering modification can be passed over without consulting the lifecycle (%s): the state change fires no handler" % (V, [rh.blocks[q]["t"].get("line") for q in (wit or [])][:8]))
            ok, wit = rh.must_pass_edges([ve[V]], {c.block for c in adds}, no_item + no_dirty, targets)
            r.check(ok, "run_handler/%s/dirty=>add_id" % V, steps[0].loc(), "after %s with a DIRTY modification the item id is collected" % V, "after %s a dirty item is not collected (%s)" % (V, [rh.blocks[q]["t"].get("line") for q in (wit or [])][:8]))
        for k_, ie in enumerate(sorted(ies, key=lambda x: x.line)):
            ok, wit = rh.must_pass_edges([ie.target], {c.block for c in recs}, [e for e in no_cons if rh.reaches(ie.block, {e[0]}) or e[0] == ie.block], targets)
            r.check(ok, "run_handler/item_event#%d/consequence-is-run" % k_, ie.loc(), "a handler produced by the lifecycle is run (recursively) before the next step / return", "a produced consequence can be skipped: %s" % wit)
            g = dom_guards(rh, ie.block)
            r.check(any(d.startswith("contains(") and "modified_item" in d and d.endswith(".flags, %d)" % TRIG) and l == "true" for d, l, _ in g) or any(d.startswith("contains(") and d.endswith(".flags, %d)" % TRIG) and l == "true" for d, l, _ in g),
                    "run_handler/item_event#%d/only-for-TRIGGER_HANDLER" % k_, ie.loc(), "the lifecycle is consulted only for modifications flagged TRIGGER_HANDLER")
        for k_, c in enumerate(sorted(recs, key=lambda x: x.line)):
            g = dom_guards(rh, c.block)
            r.check(any(d.startswith("disc(item_event(") and l == "Some" for d, l, _ in g), "run_handler/recursion#%d/iff-consequence" % k_, c.loc(), "recursion exactly when the lifecycle produced a handler")
            cons = describe_operand(rh, c.args[4]) if len(c.args) > 4 else ""
            r.check("item_event(" in cons, "run_handler/recursion#%d/runs-the-consequence" % k_, c.loc(), "the recursive call runs the handler returned by item_event")
            # the result of the nested run: every way on to the next step or to a successful return inspects it and takes the success edge
            good, bad = [], []
            for sb in range(rh.n):
                if rh.is_cleanup(sb) or rh.term(sb)["k"] != "switch":
                    continue
                v2 = rh.variant_edges(sb)
                si = rh.switch_info(sb)
                if not v2 or not ({"Continue", "Break"} == set(v2) or {"Ok", "Err"} == set(v2)):
                    continue
                if any(s_[0] == "call" and s_[1] is c for s_ in rh.sources(["c", si["place"]], stop_at_calls=True)):
                    good.append((sb, v2.get("Continue", v2.get("Ok"))))
                    bad.append(v2.get("Break", v2.get("Err")))
            ok, wit = rh.must_pass_edges([c.target], set(), good, {stepb} | ok_ret)
            r.check(bool(good) and ok, "run_handler/recursion#%d/failure-propagates" % k_, c.loc(), "the interrupted handler is stepped again, or reported complete, only after the nested run is known to have succeeded",
                    "the result of the nested run_handler can be ignored on the way to %s (%s): after a triggered handler fails the interrupted handlers carry on" % ("the next step or a successful return", [rh.blocks[q]["t"].get("line") for q in (wit or [])][:10]))
            for e in bad:
                # (what is reachable when the failure value decides the `?` and matches it meets on the way out - e.g. in a caller of a helper)
                reach = rh.reachable_cp([e])
                r.check(stepb not in reach and not (reach & ok_ret) and bool(reach & set(rh.exits())), "run_handler/recursion#%d/error-edge-returns" % k_, c.loc(), "the error edge returns the error: no further step, no successful return")
        for k_, c in enumerate(sorted(adds, key=lambda x: x.line)):
            g = dom_guards(rh, c.block)
            r.check(any(d.startswith("contains(") and d.endswith(".flags, %d)" % DIRTY) and l == "true" for d, l, _ in g) and ("modified_item" in describe_operand(rh, c.args[1]) or "item_id" in describe_operand(rh, c.args[1])),
                    "run_handler/add_id#%d/only-for-DIRTY" % k_, c.loc(), "the id collected is the modification's item id, only when DIRTY")

    with ctx.rule("C06.R2", "T2", "after Fail nothing further is executed; after Complete the handler is not stepped again", floor=3) as r:
        rh = ag.fn(suffix="agent_model::run_handler")
        step = [c for c in rh.calls if c.via_name == "step" and _suffix_match(c.trait, HA)][0]
        sws = rh.result_switches(step)
        ve = rh.variant_edges(sws[0]["block"]) if sws else None
        if not ve or "Fail" not in ve:
            raise AnchorMissing("run_handler: match on StepResult")
        reach = rh.reachable_from([ve["Fail"]])
        bad = [c for c in rh.calls if c.block in reach and (c.via_name in ("step", "item_event") or c.is_fn("agent_model::run_handler"))]
        r.check(not bad and bool(reach & set(rh.exits())), "run_handler/Fail-stops", step.loc(), "the Fail edge returns without stepping or triggering anything", "after Fail the loop still reaches %s" % [c.via_name for c in bad])
        errs = [i for i, j, p, rv, line in rh.assigns() if i in reach and describe_rvalue(rh, rv).startswith("Result::Err(")]
        r.check(bool(errs), "run_handler/Fail-returns-Err", step.loc(), "Fail is turned into Err(err)")
        ok, wit = rh.must_pass([ve["Complete"]], set(), targets={step.block})
        r.check(ok, "run_handler/Complete-leaves-loop", step.loc(), "after Complete the handler is never stepped again", "after Complete the handler can be stepped again: %s" % [rh.blocks[q]["t"].get("line") for q in (wit or [])][:8])

    with ctx.rule("C06.R3", "T7+T11", "combinators forward the inner step's modification and drive one inner handler per step", floor=20) as r:
        n = 0
        for b in ag.all_bodies():
            if b.meta.get("name") != "step" or not _suffix_match(b.meta.get("trait"), HA):
                continue
            inner = [c for c in b.calls if c.via_name == "step" and _suffix_match(c.trait, HA)]
            if not inner:
                continue
            st = b.meta.get("self_ty") or "?"
            tag = "::".join(st.split("<")[0].split("::")[-3:]).replace("swimos_agent::", "")
            if st.startswith("&"):
                tag = "RefMut"
            n += 1
            ctx.saw(b)
            # (a) at most one inner step on any path
            multi = [(x, y) for x in inner for y in inner if x is not y and b.reaches(x.block, {y.block})]
            # loops over several handlers (Sequentially, Join) re-enter step() from the caller, not inside one call
            r.check(not multi, "%s/one-inner-step-per-step" % tag, where(b), "no path of step() drives two inner steps", "a single step() can drive two inner steps (%s -> %s): handlers would overlap" % (multi[0][0].line, multi[0][1].line) if multi else "")
            # (b) modification forwarded
            for k_, c in enumerate(sorted(inner, key=lambda x: x.line)):
                ord_ = "#%d" % k_
                # `inner.step(..).map(f)`: StepResult::map is checked on its own below
                mapped = [m for m in b.calls if m.is_method("event_handler::StepResult", "map") and any(s_[0] == "call" and s_[1] is c for s_ in b.sources(m.args[0]))]
                whole = any((m.dest[0] == 0 and not m.dest[1]) or any(p[0] == 0 and not p[1] and any(s_[0] == "call" and s_[1] is m for s_ in b.sources(rv[1])) for i, j, p, rv, line in b.assigns() if rv[0] == "use") for m in mapped) or \
                    any(p[0] == 0 and not p[1] and any(s_[0] == "call" and s_[1] is c for s_ in b.sources(rv[1])) for i, j, p, rv, line in b.assigns() if rv[0] == "use") or (c.dest[0] == 0 and not c.dest[1])
                sws = b.result_switches(c)
                ve = None
                for si in sws:
                    v2 = b.variant_edges(si["block"])
                    if v2 and ("Continue" in v2 or "Complete" in v2):
                        ve = v2
                if ve is None:
                    r.check(whole, "%s/%s/result-returned-whole" % (tag, ord_), c.loc(), "the inner StepResult is returned as is", "the inner step's result is neither matched nor returned")
                    continue
                for var in ("Continue", "Complete"):
                    if var not in ve:
                        continue
                    start = ve[var]
                    outs = []
                    for i, j, p, rv, line in b.assigns():
                        if rv[0] == "agg" and rv[1].get("adt", "").endswith("event_handler::StepResult") and rv[1].get("variant") in ("Continue", "Complete") and b.dominates(start, i):
                            fields = rv[1]["fields"]
                            mi = rv[2][fields.index("modified_item")]
                            outs.append((i, line, describe_operand(b, mi), b.sources(mi)))
                    if not outs:
                        # e.g. `step_result` returned whole after inspecting it, or delegating constructors
                        r.check(whole or any(x.name in ("done", "cont") for x in b.calls if b.dominates(start, x.block)) is False, "%s/%s/%s/forwarded" % (tag, ord_, var), c.loc(),
                                "on %s the inner result is passed on whole" % var, "on %s no StepResult is built from the inner result and it is not returned whole" % var)
                        continue
                    for i, line, d, srcs in outs:
                        fw = any(s_[0] == "field" and "modified_item" in s_[1].fields for s_ in srcs) or any(s_[0] == "call" and s_[1] is c for s_ in srcs) or "modified_item" in d
                        key = "%s/%s/%s/modification-forwarded" % (tag, ord_, var)
                        why = R3_EXCEPTIONS.get(tag)
                        if not fw and any(d_.startswith("is_none(") and "modified_item" in d_ and l_ == "true" for d_, l_, _ in guards(b, i)):
                            fw = True
                            d = "own modification, only where the inner one is None: nothing is swallowed"
                        r.check(fw or why is not None, key, b.loc(line), "modified_item of the result derives from the inner step's modified_item (%s)" % d[:50] if fw else "exception: %s" % why,
                                "on the inner %s the outer StepResult's modified_item is `%s`: the inner modification is swallowed (the change is neither published nor handled)" % (var, d[:60]))
        # StepResult::map (used by Discard, Option, AddDownlinkAction, ...) must itself forward the modification
        sm = [x for x in ag.all_bodies() if x.meta.get("name") == "map" and x.defpath.endswith("::map") and "StepResult" in x.defpath and x.meta["kind"] != "Closure"]
        if len(sm) != 1:
            raise AnchorMissing("StepResult::map (found %d)" % len(sm))
        sm = ctx.saw(sm[0])
        for var in ("Continue", "Complete"):
            ags = [(i, line, rv) for i, j, p, rv, line in sm.assigns() if rv[0] == "agg" and rv[1].get("adt", "").endswith("event_handler::StepResult") and rv[1].get("variant") == var]
            okv = len(ags) == 1
            if okv:
                i, line, rv = ags[0]
                mi = rv[2][rv[1]["fields"].index("modified_item")]
                pth = sm.resolve(mi[1]) if mi[0] in ("c", "m") else None
                okv = pth is not None and pth.root == 1 and pth.fields[-1:] == ("modified_item",) and var in pth.variants and any(d_ == "disc(self)" and l_ == var for d_, l_, _ in guards(sm, i))
            r.check(okv, "StepResult::map/%s/modification-forwarded" % var, where(sm), "map keeps %s's modified_item" % var, "StepResult::map does not carry %s's modified_item over" % var)
        if n < 25:
            raise AnchorMissing("expected >= 25 step() functions that drive an inner handler, found %d" % n)

    with ctx.rule("C06.R4", "T10", "lane operations pair with the right Modification flags (state change => trigger, sync => no trigger)", floor=28) as r:
        MUT = {"set", "update", "remove", "clear", "transform_entry", "command", "cue"}
        # expected constructor per (operation kind); demand lanes hold no state: their sync must run the on_cue handler to produce a value
        SYNC_TRIGGERS = {"lanes::demand::DemandLaneSync": "a demand lane has no state: sync runs on_cue to compute the value",
                         "lanes::demand_map::DemandMapLaneSync": "a demand-map lane has no state: sync runs the keys handler"}
        STRICT = ("swimos_agent::lanes::value::", "swimos_agent::lanes::map::", "swimos_agent::stores::value::", "swimos_agent::stores::map::", "swimos_agent::lanes::command::", "swimos_agent::lanes::supply::")
        for b in ag.all_bodies():
            if b.meta.get("name") != "step" or not _suffix_match(b.meta.get("trait"), HA):
                continue
            sa = b.meta.get("self_adt") or ""
            tag = "::".join(sa.split("::")[-3:]).replace("swimos_agent::", "")
            ops = [c for c in b.calls if c.name in MUT | {"sync", "push"} and str(c.self_adt).startswith("swimos_agent::") and ("lanes::" in str(c.self_adt) or "stores::" in str(c.self_adt)) and "queues" not in str(c.self_adt)]
            ctors = [c for c in b.calls if c.name in ("of", "no_trigger", "trigger_only") and _suffix_match(c.self_adt, "event_handler::Modification")]
            if not ops:
                continue
            kinds = {("mut" if c.name in MUT else c.name) for c in ops}
            if len(kinds) != 1:
                r.bad("%s/mixed-operations" % tag, where(b), "step mixes lane operations %s: not classifiable" % sorted(c.name for c in ops))
                continue
            kind = kinds.pop()
            if not ctors:
                # a lane mutation that yields no Modification is never published and never triggers the handlers
                if sa.startswith(STRICT):
                    r.bad("%s/%s-without-modification" % (tag, ops[0].name), ops[0].loc(), "%s.%s() in a step that builds no Modification: the change triggers no handler and is not written out" % (str(ops[0].self_adt).split("::")[-1], ops[0].name))
                else:
                    ctx.notes.append("C06.R4: %s performs %s on %s without a Modification (join-lane downlink removal; outside the value/map lane scope of the property)" % (tag, ops[0].name, str(ops[0].self_adt).split("::")[-1]))
                continue
            ctx.saw(b)
            want = "of" if kind == "mut" else "no_trigger"
            why = None
            for k_, v_ in SYNC_TRIGGERS.items():
                if _suffix_match(sa, k_) and kind == "sync":
                    want, why = "of", v_
            got = sorted({c.name for c in ctors})
            r.check(got == [want], "%s/%s=>%s" % (tag, kind if kind != "mut" else ops[0].name, want), ctors[0].loc(), "%s => Modification::%s%s" % (ops[0].name, want, " (%s)" % why if why else ""),
                    "%s is reported with Modification::%s, expected ::%s: %s" % (ops[0].name, got, want, "the lane's handlers do not run for this state change" if want == "of" else "the lane's handlers run although no state changed"))
            # the modification names the lane that was operated on and ends up in the returned StepResult
            recv = describe_operand(b, ops[0].args[0]).replace(".inner", "")
            for m in ctors:
                ida = describe_operand(b, m.args[0]).replace(".inner", "")
                r.check(recv[:40] in ida, "%s/%s/names-same-item" % (tag, m.name), m.loc(), "Modification id is the id of the item operated on (%s)" % ida[:40], "Modification id `%s` is not the id of the item operated on `%s`" % (ida[:60], recv[:60]))
                used = False
                for i, j, p, rv, line in b.assigns():
                    if rv[0] == "agg" and rv[1].get("adt", "").endswith("event_handler::StepResult") and rv[1].get("variant") in ("Continue", "Complete"):
                        mi = rv[2][rv[1]["fields"].index("modified_item")]
                        if any(s_[0] == "call" and s_[1] is m for s_ in b.sources(mi)):
                            used = True
                r.check(used, "%s/%s/returned" % (tag, m.name), m.loc(), "the Modification is returned in the StepResult", "the Modification is built but not returned in a StepResult")
        ht = [b for b in ag.all_bodies() if b.meta.get("name") == "step" and "HttpLaneAccept" in (b.meta.get("self_adt") or "")]
        if len(ht) != 1:
            raise AnchorMissing("HttpLaneAccept::step")
        hc = [c.name for c in ht[0].calls if c.name in ("of", "no_trigger", "trigger_only") and _suffix_match(c.self_adt, "event_handler::Modification")]
        r.check(hc == ["trigger_only"], "lanes::http::HttpLaneAccept/request=>trigger_only", where(ht[0]), "an HTTP request triggers the lane handler without marking the lane dirty", "HttpLaneAccept builds Modification::%s" % hc)
        # the constructors themselves
        DIRTY = ag.const("ModificationFlags::DIRTY")["v"]
        TRIG = ag.const("ModificationFlags::TRIGGER_HANDLER")["v"]
        r.check(DIRTY != TRIG and DIRTY & TRIG == 0 and DIRTY and TRIG, "ModificationFlags/distinct-bits", "-", "DIRTY=%s TRIGGER_HANDLER=%s are distinct bits" % (DIRTY, TRIG))

        def flag_value(cb, op):
            if op[0] == "k":
                return op[1].get("v")
            d = cb.single_def(op[1][0]) if not op[1][1] else None
            if d and d[0] == "call":
                c = d[2]
                if c.name == "all":
                    return DIRTY | TRIG
                if c.name == "empty":
                    return 0
                if c.name == "complement":
                    v = flag_value(cb, c.args[0])
                    return None if v is None else (DIRTY | TRIG) & ~v
                if c.name == "union" or c.name == "bitor":
                    a, b_ = flag_value(cb, c.args[0]), flag_value(cb, c.args[1])
                    return None if a is None or b_ is None else a | b_
            if d and d[0] == "assign" and d[3][0] == "use":
                return flag_value(cb, d[3][1])
            return None

        for nm, fl in (("of", DIRTY | TRIG), ("no_trigger", DIRTY), ("trigger_only", TRIG)):
            cb = ag.fn(suffix="event_handler::Modification::" + nm)
            ctx.saw(cb)
            ags = aggregates(cb, "event_handler::Modification")
            v = flag_value(cb, ags[0][2][1]) if len(ags) == 1 else None
            r.check(v == fl, "Modification::%s/flags" % nm, where(cb), "Modification::%s sets flags %s" % (nm, bin(fl)), "Modification::%s sets flags %s, expected %s" % (nm, v, bin(fl)))

    with ctx.rule("C06.R5", "T7", "value items: on_event then on_set(prev); map items: update/remove/clear -> matching callback", floor=4) as r:
        nv = 0
        for b in ag.all_bodies():
            if "item_event::value" in b.defpath and b.meta["kind"] == "Closure" and any(c.via_name == "followed_by" for c in b.calls):
                nv += 1
                ctx.saw(b)
                fb = [c for c in b.calls if c.via_name == "followed_by"][0]
                a0 = describe_operand(b, fb.args[0])
                a1 = describe_operand(b, fb.args[1])
                r.check(a0.startswith("on_event(") and a1.startswith("on_set("), "value-item/%s/on_event-then-on_set" % (b.meta.get("owner") or b.meta).get("trait", "?").split("::")[-1], fb.loc(), "on_event(..).followed_by(on_set(..))", "handlers are combined as %s .followed_by( %s )" % (a0[:30], a1[:30]))
                ons = [c for c in b.calls if c.via_name == "on_set"]
                r.check(bool(ons) and any(b.resolve(a[1]).root == 2 for a in ons[0].args if a[0] in ("c", "m")), "value-item/%s/on_set-gets-prev" % (b.meta.get("owner") or b.meta).get("trait", "?").split("::")[-1], ons[0].loc() if ons else where(b), "on_set receives the closure's `prev` argument (the value taken by read_with_prev)",
                        "on_set does not receive the previous value taken by read_with_prev")
        if nv < 2:
            raise AnchorMissing("expected 2 value item_event closures (plain and shared), found %d" % nv)
        nm = 0
        for b in ag.all_bodies():
            if "item_event::map" in b.defpath and any(c.via_name in ("on_update", "on_remove", "on_clear") for c in b.calls):
                tb = {}
                for c in b.calls:
                    if c.via_name in ("on_update", "on_remove", "on_clear"):
                        v = [l for d, l, _ in guards(b, c.block) if d.startswith("disc(") and l in ("Update", "Remove", "Clear")]
                        tb[c.via_name] = v[0] if v else "?"
                if len(tb) == 3:
                    nm += 1
                    for c in b.calls:
                        if c.via_name in ("on_update", "on_remove", "on_clear"):
                            var = {"on_update": "Update", "on_remove": "Remove", "on_clear": "Clear"}[c.via_name]
                            ds = [describe_operand(b, a) for a in c.args]
                            need = 2 if var != "Clear" else 1
                            got = len([d for d in ds if d.startswith("event<%s>." % var)])
                            r.check(got == need, "map-item/%s/%s-payload" % (b.meta.get("name"), c.via_name), c.loc(), "%s receives the event's payload (%s)" % (c.via_name, [d for d in ds if d.startswith("event<")]), "%s does not receive the %s event's payload: %s" % (c.via_name, var, ds))
                    ctx.saw(b)
                    r.check(tb == {"on_update": "Update", "on_remove": "Remove", "on_clear": "Clear"}, "map-item/%s/dispatch-table" % b.meta.get("name"), where(b), "MapLaneEvent::Update/Remove/Clear -> on_update/on_remove/on_clear", "dispatch table %s" % tb)
        if nm < 2:
            raise AnchorMissing("expected 2 map item_event dispatchers, found %d" % nm)

    with ctx.rule("C06.R6", "T4", "the previous value / entry is consumed exactly once, by read_with_prev", floor=2) as r:
        for adt, fld in (("stores::value::Inner", "previous"), ("map_storage::MapStoreInner", "previous")):
            n = 0
            for b in ag.all_bodies():
                for c in b.calls:
                    if c.args and c.name in ("take", "replace", "as_ref", "clone", "is_some", "as_mut", "unwrap", "map"):
                        p = c.arg_path(0)
                        if p is not None and p.has_field(adt, fld) and p.fields[-1:] == (fld,):
                            n += 1
                            r.check(c.name == "take" and b.meta.get("name") == "read_with_prev", "%s.previous/%s/%s" % (adt.split("::")[-1], ("trait:" if b.meta.get("trait") else "inherent:") + str(b.meta.get("name")), c.name), c.loc(), "previous.take() in read_with_prev",
                                    "%s.previous accessed with %s in %s: the previous value can be observed twice or not at all" % (adt.split("::")[-1], c.name, b.defpath))
            if n == 0:
                raise AnchorMissing("no access of %s.previous found" % adt)

    with ctx.rule("C06.R6b", "T7+T2", "the recorded previous value / entry is the one displaced by the mutation", floor=8) as r:
        def rv_sources(b, rv):
            if rv[0] == "use":
                return b.sources(rv[1])
            if rv[0] == "agg":
                out = [("agg", rv[1].get("adt", ""), rv[1].get("variant"))] if "adt" in rv[1] else []
                for o in rv[2]:
                    out.extend(b.sources(o))
                return out
            return []

        def content_calls(b, adt):
            out = []
            for c in b.calls:
                p = c.arg_path(0) if c.args else None
                if p is not None and p.has_field(adt, "content") and p.fields[-1:] == ("content",):
                    out.append(c)
            return out

        def prev_writes(b, adt):
            out = []
            for i, j, p, rv, line in b.assigns():
                if not p[1]:
                    continue
                pt = b.resolve(p)
                if pt.has_field(adt, "previous") and pt.fields[-1:] == ("previous",):
                    out.append((i, j, rv, line))
            return out

        # value stores / lanes
        VI = "stores::value::Inner"
        nset = 0
        for b in ag.all_bodies():
            pw = prev_writes(b, VI)
            cc = [c for c in content_calls(b, VI) if c.name == "replace"]
            direct = [(i, line) for i, j, p, rv, line in b.assigns() if p[1] and b.resolve(p).has_field(VI, "content") and b.resolve(p).fields[-1:] == ("content",)]
            if not (pw or cc or direct) or b.meta.get("name") in ("new", "fmt"):
                continue
            ctx.saw(b)
            nm = ("trait:" if b.meta.get("trait") else "") + str(b.meta.get("name"))
            for i, line in direct:
                r.check(b.meta.get("name") == "init", "value/%s/direct-content-write" % nm, b.loc(line), "content is overwritten without a previous value only by init (before on_start)", "content overwritten in %s without recording the previous value" % b.defpath)
            for i, j, rv, line in pw:
                nset += 1
                d = describe_rvalue(b, rv)
                srcs = rv_sources(b, rv)
                okp = any(s_[0] == "agg" and s_[2] == "Some" for s_ in srcs) and any(s_[0] == "call" and s_[1] in cc for s_ in srcs)
                r.check(okp, "value/%s/previous=displaced-content" % nm, b.loc(line), "previous = %s" % d[:70], "previous is set to `%s`, not to the value displaced from content" % d[:80])
            for c in cc:
                ok, wit = b.must_pass([c.target], {i for i, j, rv, line in pw})
                r.check(ok, "value/%s/replace-records-previous" % nm, c.loc(), "every content replacement records the displaced value", "content replaced without recording previous: %s" % wit)
        if nset < 2:
            raise AnchorMissing("expected >= 2 writes of Inner.previous, found %d" % nset)
        # map storage
        MI = "map_storage::MapStoreInner"
        EXPECT = {"Update": ("insert", "remove"), "Remove": ("remove",), "Clear": ("take",)}
        nmap = 0
        for b in ag.all_bodies():
            if "map_storage::MapStoreInner" not in b.defpath or b.meta["kind"] == "Closure":
                continue
            pw = prev_writes(b, MI)
            cc = [c for c in content_calls(b, MI) if c.via_name in ("insert", "remove", "take")]
            if not (pw or cc):
                continue
            ctx.saw(b)
            nm = str(b.meta.get("name"))
            for k_, (i, j, rv, line) in enumerate(sorted(pw, key=lambda x: x[3])):
                nmap += 1
                d = describe_rvalue(b, rv)
                ev = None
                srcs = rv_sources(b, rv)
                evs = {s_[2] for s_ in srcs if s_[0] == "agg" and s_[1].endswith("MapLaneEvent")}
                if len(evs) == 1 and any(s_[0] == "agg" and s_[2] == "Some" for s_ in srcs):
                    ev = evs.pop()
                from_calls = {s_[1].via_name for s_ in srcs if s_[0] == "call" and s_[1] in cc}
                okp = ev in EXPECT and bool(from_calls & set(EXPECT[ev]))
                if ev == "Update" and not okp and "Option::None()" in d:
                    # inserting where nothing was: legitimate only under the None result of content.remove
                    okp = any(dd.startswith("disc(remove(") and ".content" in dd and l_ == "None" for dd, l_, _ in guards(b, i))
                r.check(okp, "map/%s/#%d/previous=displaced-entry" % (nm, k_), b.loc(line), "previous = %s" % d[:90], "previous is set to `%s`, which is not the entry displaced from the map" % d[:100])
            ins_blocks = {c.block for c in cc if c.via_name == "insert"}
            for k_, c in enumerate(sorted(cc, key=lambda x: x.line)):
                starts = [c.target]
                discharge = set()
                extra = set()
                if c.via_name == "remove":
                    # only a removal that found an entry displaces one: paths that take the None edge of a match on the removed value are excused,
                    # whichever way the value reached the match; a removed entry that is re-inserted is the insert's obligation
                    for sb, ve in b.option_edges_from(c):
                        if ve and "None" in ve:
                            discharge.add((sb, ve["None"]))
                    extra = {x for x in ins_blocks if b.reaches(c.block, {x})}
                ok, wit = b.must_pass_edges(starts, {i for i, j, rv, line in pw} | extra, discharge)
                r.check(ok, "map/%s/%s#%d/records-previous" % (nm, c.via_name, k_), c.loc(), "a changed entry is always recorded as the pending event (previous)",
                        "the map is changed by %s without recording the pending event (%s): on_update/on_remove is never run for this change" % (c.via_name, wit))
        if nmap < 4:
            raise AnchorMissing("expected >= 4 writes of MapStoreInner.previous, found %d" % nmap)

    with ctx.rule("C06.R7", "T1", "on_start runs before any other handler, on_stop last", floor=3) as r:
        ia = [b for b in ag.all_bodies() if b.defpath.endswith("initialize_agent::{closure#0}") and "AgentModel" in b.defpath]
        if len(ia) != 1:
            raise AnchorMissing("initialize_agent coroutine (found %d)" % len(ia))
        b = ctx.saw(ia[0])
        rhs = [c for c in b.calls if c.is_fn("agent_model::run_handler")]
        starts = [c for c in b.calls if c.via_name == "on_start"]
        first = [c for c in rhs if all(c is o or b.dominates(c.block, o.block) for o in rhs)]
        if len(first) != 1:
            raise AnchorMissing("initialize_agent: no run_handler call dominates the others (%d calls)" % len(rhs))
        hd = describe_operand(b, first[0].args[4])
        r.check(len(starts) == 1 and hd.startswith("on_start("), "initialize_agent/on_start-first", first[0].loc(),
                "the first run_handler call of the agent runs exactly lifecycle.on_start()", "the first handler run by the agent is `%s`, not on_start" % hd[:80])
        rhs = first + [c for c in rhs if c is not first[0]]
        inits = [c for c in b.calls if c.via_name in ("call_once", "call") and "init" in describe_operand(b, c.args[0])]
        r.check(all(b.dominates(c.block, rhs[0].block) or not b.reaches(rhs[0].block, {c.block}) for c in inits) if rhs else False, "initialize_agent/items-initialised-before-on_start", where(b), "item state is restored (init_fn) before on_start runs (%d init applications)" % len(inits))
        ra = [x for x in ag.all_bodies() if x.defpath.endswith("run_agent::{closure#0}")][0]
        ctx.saw(ra)
        stops = [c for c in ra.calls if c.via_name == "on_stop"]
        r.check(len(stops) == 1, "run_agent/on_stop-site", where(ra), "one on_stop site")
        if stops:
            after = ra.reachable_from(ra.succ[stops[0].block])
            later = [c for c in ra.calls if c.block in after and c.is_fn("agent_model::run_handler")]
            steps_after = [c for c in ra.calls if c.block in after and (c.via_name in ("item_event", "on_start", "on_command", "on_sync", "on_timer"))]
            r.check(len(later) == 1 and "on_stop(" in describe_operand(ra, later[0].args[4]) and not steps_after, "run_agent/on_stop-last", stops[0].loc(), "after on_stop is created only its own run_handler call follows",
                    "handlers can run after on_stop (%s)" % [c.via_name for c in steps_after])
            sel = [c for c in ra.calls if c.via_name == "retain"]
            r.check(bool(sel) and not (after & {sel[0].block}), "run_agent/on_stop-after-loop", stops[0].loc(), "on_stop is outside the event loop")

    with ctx.rule("C06.R8", "T5", "named arguments are passed in their parameters' positions (no two flags or ids change places at a call site)", floor=10) as r:
        named_argument_rule(ctx, r, [("swimos_agent", "swimos_agent::agent_model::"), ("swimos_agent", "swimos_agent::event_handler"), ("swimos_agent", "swimos_agent::agent_lifecycle")], allow={})

    with ctx.rule("C06.R10", "T5", "a completed write runs the lane's handlers exactly when the lane asked for it (write-back table, shared with C01.R3)", floor=6) as r:
        # `each state change triggers its handlers exactly once`: the only other root of a handler cascade is the completion of a lane write, and only
        # for WriteResult::RequiresEvent; a write that is merely continued (DataStillAvailable) or finished (Done) must not start one
        from rules.C01 import write_back_table
        ag_ = ctx.crate("swimos_agent")
        cl = [b for b in ag_.all_bodies() if "run_agent::{closure#0}::{closure" in b.defpath and any(c.via_name == "write_event" for c in b.calls)]
        if len(cl) != 1:
            raise AnchorMissing("run_agent: the dirty_items.retain closure was not found")
        b = ctx.saw(cl[0])
        we = [c for c in b.calls if c.via_name == "write_event"]
        write_back_table(r, b, we[0])

    with ctx.rule("C06.R11", "T5", "an item's lifecycle handlers are looked up under the item's lifecycle name (the id -> name table handed to run_handler)", floor=1) as r:
        # run_handler turns the id of a modified item into a name and asks the lifecycle for `item_event(name)`. The table it uses is filled from the
        # item specs: the name must be `ItemSpec::lifecycle_name` (the field name the lifecycle was derived for), not the external name of the lane,
        # which differs for every renamed lane (`#[item(name = ..)]`, a naming convention) - for those the lookup would find nothing and the lane's
        # on_event / on_set and everything they trigger would silently never run.
        inits = [b for b in ag.all_bodies() if "agent_model::AgentModel" in b.defpath and "initialize_agent" in b.defpath]
        if not inits:
            raise AnchorMissing("AgentModel::initialize_agent")
        n = 0
        for b in inits:
            pairs = []
            for i, j, p_, rv, line in b.assigns():
                if rv[0] == "agg" and rv[1].get("tuple") and len(rv[2]) == 2 and b.locals[p_[0]].replace(" ", "").startswith("(u64,swimos_model::text::Text)"):
                    pairs.append((rv[2][0], rv[2][1], line))
            for c in b.calls:
                if c.name == "insert" and len(c.args) == 3 and "HashMap" in (c.callee.get("self_ty") or c.defpath or ""):
                    k_ty = b.locals[op_place(c.args[1])[0]] if op_place(c.args[1]) is not None else ""
                    v_ty = b.locals[op_place(c.args[2])[0]] if op_place(c.args[2]) is not None else ""
                    if k_ty == "u64" and v_ty.endswith("text::Text"):
                        pairs.append((c.args[1], c.args[2], c.line))
            for k_op, v_op, line in pairs:
                kd = describe_operand(b, k_op)
                # the key is the id of a static item spec
                k_src = b.sources(k_op, stop_at_calls=False)
                if not (kd.endswith(".id") and any(x[0] == "field" and x[1].has_field("ItemSpec", "id") for x in k_src)):
                    continue
                ctx.saw(b)
                n += 1
                v_src = b.sources(v_op, stop_at_calls=False)
                good = any(x[0] == "field" and x[1].has_field("ItemSpec", "lifecycle_name") for x in v_src)
                r.check(good, "initialize_agent/id->name/uses-lifecycle_name", b.loc(line), "the name recorded for a spec's id is its lifecycle_name",
                        "the name recorded for the id of an item spec is `%s`, not the spec's lifecycle_name: for a lane whose external name differs from its field name run_handler finds no lifecycle handlers - the lane is set and written, but its on_event / on_set and their consequences never run" % describe_operand(b, v_op)[:60])
        if n < 1:
            raise AnchorMissing("initialize_agent: the id -> lifecycle name entries built from the item specs")

