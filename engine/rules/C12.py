"""C12 Byte channels are lossless bounded FIFO pipes with no lost wake-ups."""
import re

from mirlib import AnchorMissing, describe_operand, guards, switch_desc, _suffix_match
from rules.common import aggregates, callers_by_name, calls_on_field, crate_aggregates, field_writes, owner_def, where

META = {
    "explanation": (
        "C12: the channel is a monitor (one parking_lot::Mutex<Conduit>). The rules are the classic sufficient discipline for "
        "'no lost wake-up' plus boundedness and close semantics: R1 every mutation of data/closed is followed by wake() on every path; "
        "R2 every Poll::Pending is dominated by storing the caller's waker, and is returned only under the empty/full guard; "
        "R3 every access of the Conduit happens under self.inner.lock() in the same function, the halves are not Clone and the Conduit is "
        "built in one place; R4 the only growth of data is bounded by capacity - len; R5 order of tests (data before closed in poll_read, "
        "closed first in poll_write); R6 Drop/shutdown close the channel under the lock; R7 coop: forced yields self-wake and happen before "
        "the lock. Thorough tier repeats R3/R6/R7 on the --no-default-features build. R8 read side of the data path: bytes leave data only in Conduit::read from the front, the reader's ReadBuf is append-only, appended = removed = count."
),
    "does_not_decide": "memory ordering of the waker hand-off (delegated to parking_lot::Mutex); fairness of the scheduler",
    "level_text": "Structural obligations that add up to the standard monitor argument for a single-slot waker channel; decided on every path of the five functions involved.",
}

CONFIGS = {"thorough": ["nocoop"]}
BC = "swimos_byte_channel"
COND = "channel::Conduit"


def must_follow(body, block, through_blocks):
    """Every path from the end of `block` to a normal return passes one of through_blocks."""
    if block in through_blocks:
        return True, None
    return body.must_pass(body.succ[block], through_blocks)


def waker_store_positions(body, prog, depth):
    """Positions (block, idx) at which the caller's waker is certainly stored in Conduit.waker: a direct
    `self.waker = Some(cx.waker().clone())`, or a call of a local helper that does so on every path."""
    out = []
    for w in field_writes(body, COND, "waker"):
        rv = w[2]
        src = body.sources(rv[1]) if rv[0] == "use" else []
        deep = body.sources(rv[1], stop_at_calls=False) if rv[0] == "use" else []
        if any(s[0] == "call" and s[1].via_name == "clone" for s in src) and any(s[0] == "call" and s[1].name == "waker" for s in deep) and any(s[0] == "agg" and s[2] == "Some" for s in src):
            out.append((w[0], w[1], w[3], "direct"))
    if depth > 0:
        for c in body.calls:
            cb = prog.body_of_call(c)
            if cb is None or cb.defpath == body.defpath:
                continue
            inner = waker_store_positions(cb, prog, depth - 1)
            if inner:
                ok, _ = cb.must_pass([0], {p[0] for p in inner})
                if ok:
                    out.append((c.block, len(body.stmts(c.block)), c.line, "via " + cb.defpath.split("::")[-1]))
    return out


def conduit_rules(ctx, c, cfg):
    sfx = "" if cfg == "default" else "[%s]" % cfg
    from mirlib import Program
    prog = Program(c.facts, [BC])

    with ctx.rule("C12.R1" + sfx, "T3", "every mutation of Conduit.data / closed is followed by Conduit::wake on every path", floor=3) as r:
        n = 0
        # (the Conduit's own methods, and any other function of the crate that reaches into the locked Conduit - `self.inner.lock().closed = true`)
        own = list(c.fns(self_adt=COND))
        outside = [b for b in c.all_bodies() if b not in own and "::tests" not in b.defpath and (field_writes(b, COND, "closed") or field_writes(b, COND, "data"))]
        for b in own + outside:
            ctx.saw(b)
            wakes = {x.block for x in b.calls if x.is_method(COND, "wake") or x.is_method(COND, "close_channel") or x.is_method(COND, "read") or x.is_method(COND, "write")}
            if b.meta.get("name") == "wake":
                continue
            muts = []
            for x in calls_on_field(b, COND, "data"):
                if x.via_name in ("extend_from_slice", "advance", "put_slice", "put", "clear", "truncate", "split_to", "split_off", "split", "resize", "reserve", "unsplit", "set_len", "put_u8", "extend"):
                    if x.via_name == "reserve":
                        continue
                    muts.append((x.block, "data.%s" % x.via_name, x.line))
            for (i, j, rv, line) in field_writes(b, COND, "closed"):
                muts.append((i, "closed := %s" % describe_operand(b, rv[1]) if rv[0] == "use" else "closed write", line))
            for (i, j, rv, line) in field_writes(b, COND, "data"):
                if b.meta.get("name") != "new":
                    muts.append((i, "data := ..", line))
            for blk, what, line in muts:
                if b.meta.get("name") == "new":
                    continue
                n += 1
                # the wake must be the Conduit::wake of *self*
                # wake() itself, or a local helper that calls wake() on every path (interprocedural must-summary)
                direct = prog.blocks_must_calling(b, lambda x: x.is_method(COND, "wake"), depth=ctx.depth)
                ok, wit = must_follow(b, blk, direct)
                if not ok:
                    # the same thing spelled out: the stored waker is taken (under the lock) and woken, possibly after the lock was released
                    takes_ = {x.block for x in calls_on_field(b, COND, "waker") if x.name == "take"}
                    wk_ = [x for x in b.calls if x.is_method("core::task::wake::Waker", "wake") or x.is_method("Waker", "wake_by_ref") or (x.name in ("wake", "wake_by_ref") and "Waker" in (x.defpath or ""))]
                    if takes_ and wk_:
                        ok2, wit2 = must_follow(b, blk, set(direct) | takes_)
                        # a taken waker is woken on its Some edge
                        woken = all(any(b.reaches(t_, {w_.block}) for w_ in wk_) for t_ in takes_)
                        if ok2 and woken:
                            ok, wit = True, None
                fnm = b.meta.get("name") if b in own else "%s::%s" % ((b.meta.get("self_adt") or "?").split("::")[-1], b.meta.get("name"))
                r.check(ok, "%s/%s=>wake" % (fnm, what.split(" ")[0]), b.loc(line),
                        "%s is followed by self.wake() on every path to return" % what,
                        "%s can reach return without wake(): blocks %s — a waiting peer is never woken" % (what, wit))
        wake = ctx.saw(c.fn(name="wake", self_adt=COND))
        takes = [x for x in calls_on_field(wake, COND, "waker") if x.name == "take"]
        wk = [x for x in wake.calls if x.is_method("core::task::wake::Waker", "wake") or x.is_method("Waker", "wake_by_ref")]
        r.check(len(takes) == 1 and len(wk) >= 1, "wake/take-and-wake", where(wake), "wake() takes the stored waker and calls Waker::wake on it",
                "wake() no longer takes self.waker and wakes it")
        if takes and wk:
            sws = wake.result_switches(takes[0])
            some_ok = False
            for si in sws:
                ve = wake.variant_edges(si["block"])
                if ve and "Some" in ve and all(wake.dominates(ve["Some"], w.block) for w in wk):
                    ok2, _ = wake.must_pass([ve["Some"]], {w.block for w in wk})
                    some_ok = ok2
            r.check(some_ok, "wake/Some=>Waker::wake", where(wake), "on the Some edge Waker::wake is called on every path", "a taken waker can be dropped without being woken")

    with ctx.rule("C12.R2" + sfx, "T1", "every Poll::Pending of Conduit::poll_* is dominated by self.waker = Some(cx.waker().clone()) and guarded by empty/full", floor=2) as r:
        for nm, guard_field, other in (("poll_read", "data", "closed"), ("poll_write", "capacity", "closed")):
            b = ctx.saw(c.fn(name=nm, self_adt=COND))
            pend = [a for a in aggregates(b, "core::task::poll::Poll", "Pending") if a[5][0] == 0]
            if not pend:
                raise AnchorMissing("%s: no Poll::Pending return" % nm)
            ws = field_writes(b, COND, "waker")
            stores = waker_store_positions(b, prog, ctx.depth)
            for (blk, idx, ops, line, _, _) in pend:
                good = any(b.pos_dominates((st[0], st[1]), (blk, idx)) for st in stores)
                r.check(good, "%s/Pending<=waker-store" % nm, b.loc(line),
                        "Pending is dominated by self.waker = Some(cx.waker().clone()) (%s)" % ", ".join(sorted({st[3] for st in stores})),
                        "Pending can be returned without (unconditionally) registering the caller's waker (lost wake-up)")
                g = guards(b, blk)
                txt = "; ".join("%s=%s" % (d, l) for d, l, _ in g)
                r.check(any("." + guard_field in d for d, l, _ in g), "%s/Pending-guard" % nm, b.loc(line),
                        "Pending is control dependent on a test of self.%s [%s]" % (guard_field, txt),
                        "Pending is not guarded by a test of self.%s [%s]" % (guard_field, txt))
                r.check(any(("." + other) in d and l == "false" for d, l, _ in g), "%s/Pending-not-closed" % nm, b.loc(line),
                        "Pending only on the closed == false edge", "Pending can be returned on a closed channel (waits for ever) [%s]" % txt)
            # the waker is stored nowhere else: one slot, only on the waiting edge
            for w in stores:
                r.check(any(b.pos_dominates((w[0], w[1]), (p[0], p[1])) for p in pend), "%s/waker-store-only-when-pending" % nm, b.loc(w[2]),
                        "the waker slot is written only on a path that returns Pending", "waker stored on a path that does not return Pending: may overwrite the peer's waker")

    with ctx.rule("C12.R3" + sfx, "T4+T8", "monitor discipline: Conduit is only touched under self.inner.lock(); halves are not Clone; one constructor", floor=6) as r:
        for adt in ("channel::ByteReader", "channel::ByteWriter"):
            r.check(c.implements(adt, "core::clone::Clone") is None, "%s/not-Clone" % adt.split("::")[-1], "-", "%s does not implement Clone (single producer / single consumer)" % adt,
                    "%s implements Clone: two handles could interleave poll calls" % adt)
            a = c.adt(adt)
            fld = dict((f[0], f[1]) for f in a["variants"][0]["fields"])
            r.check("Mutex<" in fld.get("inner", "") and "Conduit" in fld.get("inner", "") and "Arc<" in fld.get("inner", ""), "%s/inner-type" % adt.split("::")[-1], "-",
                    "inner: %s" % fld.get("inner"), "inner is no longer Arc<Mutex<Conduit>>: %s" % fld.get("inner"))
        for b in c.fns(self_adt="channel::ByteReader") + c.fns(self_adt="channel::ByteWriter"):
            touches = [x for x in b.calls if _suffix_match(x.callee.get("self_adt"), COND) and x.name in ("poll_read", "poll_write", "poll_flush", "poll_shutdown", "close_channel", "read", "write", "wake")]
            locks = [x for x in b.calls if x.name == "lock" and "Mutex" in (x.callee.get("self_ty") or x.callee.get("arg0_ty") or "")]
            if not touches:
                continue
            ctx.saw(b)
            for t in touches:
                r.check(any(b.dominates(l.block, t.block) for l in locks), "%s::%s/lock<=%s" % (b.meta.get("self_adt", "").split("::")[-1], b.meta.get("name"), t.name), t.loc(),
                        "Conduit::%s runs under self.inner.lock() taken in the same function" % t.name,
                        "Conduit::%s is reached without self.inner.lock()" % t.name)
        ctors = crate_aggregates(c, COND)
        for b, a in ctors:
            r.check(b.meta.get("name") == "new" and _suffix_match(b.meta.get("self_adt"), COND), "Conduit/ctor/" + owner_def(b), b.loc(a[3]), "Conduit constructed in Conduit::new",
                    "Conduit constructed outside Conduit::new")
        news = callers_by_name(c, "new", self_adt=COND)
        for b, cl in news:
            r.check(b.meta.get("name") == "byte_channel", "Conduit::new/caller/" + owner_def(b), cl.loc(), "Conduit::new called from byte_channel",
                    "Conduit::new has another caller: a Conduit could escape the mutex")

    with ctx.rule("C12.R4" + sfx, "T7", "the only growth of data is extend_from_slice(&buf[..min(buf.len(), capacity - data.len())])", floor=3) as r:
        grow = []
        for b in c.all_bodies():
            for x in calls_on_field(b, COND, "data"):
                if x.via_name in ("extend_from_slice", "put_slice", "put", "extend", "put_u8", "resize", "unsplit", "set_len", "reserve"):
                    grow.append((b, x))
        if not grow:
            raise AnchorMissing("no growth of Conduit.data found")
        for b, x in grow:
            ctx.saw(b)
            inw = b.meta.get("name") == "write" and _suffix_match(b.meta.get("self_adt"), COND)
            r.check(inw and x.via_name == "extend_from_slice", "data-growth/%s::%s" % (b.meta.get("name"), x.via_name), x.loc(), "data grows only in Conduit::write via extend_from_slice",
                    "data grows in %s via %s" % (b.defpath, x.via_name))
            if inw:
                # what is appended must be a prefix of the caller's slice whose length is *exactly* min(buf.len(), avail) - however the prefix is taken
                # (&buf[..n], &buf[0..n], buf.split_at(n).0, buf.get(..n)) and however the minimum is written (Ord::min, cmp::min, an `if`)
                arg = describe_operand(b, x.args[1])
                mprefix = None
                for pat in (r"^index\(buf, RangeTo::RangeTo\((?P<n>.+)\)\)$", r"^index\(buf, Range::Range\(0, (?P<n>.+)\)\)$", r"^split_at(?:_checked)?\(buf, (?P<n>.+)\)(?:<Some>\.0)?\.0$",
                            r"^(?:unwrap|expect|unwrap_or_default)\(get\(buf, RangeTo::RangeTo\((?P<n>.+?)\)\)(?:, .*)?\)$", r"^get\(buf, RangeTo::RangeTo\((?P<n>.+)\)\)<Some>\.0$",
                            r"^split_first_chunk\(buf\).*$"):
                    mm = re.match(pat, arg)
                    if mm and "n" in mm.groupdict():
                        mprefix = mm.group("n")
                        break
                good = mprefix is not None and _is_min_of(b, mprefix, x)
                r.check(good, "write/len=min(buf.len,avail)", x.loc(),
                        "the slice written is &buf[..min(buf.len(), avail)]", "the slice end is not exactly min(buf.len(), avail): the buffer can exceed its capacity")
        pw = c.fn(name="poll_write", self_adt=COND)
        ws = [x for x in pw.calls if x.is_method(COND, "write")]
        if len(ws) != 1:
            raise AnchorMissing("poll_write: expected one Conduit::write call")
        d = describe_operand(pw, ws[0].args[2]) if len(ws[0].args) > 2 else "(write is not told how much space is free)"
        r.check("Sub" in d and ".capacity" in d and "len(" in d and ".data" in d, "poll_write/avail=capacity-len", ws[0].loc(), "avail = %s" % d, "avail is not capacity - data.len(): %s" % d)
        g = guards(pw, ws[0].block)
        r.check(any(".capacity" in dd and "0" in dd for dd, l, _ in g), "poll_write/write-only-when-space", ws[0].loc(), "write is reached only on the available != 0 edge",
                "write not guarded by the available test")
        for b, cl in callers_by_name(c, "write", self_adt=COND):
            r.check(b is pw or b.defpath == pw.defpath, "Conduit::write/caller/" + owner_def(b), cl.loc(), "Conduit::write called only from poll_write", "Conduit::write has another caller")

    with ctx.rule("C12.R8" + sfx, "T3+T4", "read side of the data path: the bytes taken out of Conduit.data are exactly the bytes appended to the reader's buffer", floor=4) as r:
        SHRINK = ("advance", "split_to", "split_off", "truncate", "clear", "copy_to_slice", "copy_to_bytes", "get_u8", "take", "split", "freeze", "set_len")
        shr = [(b, x) for b in c.all_bodies() for x in calls_on_field(b, COND, "data") if x.via_name in SHRINK]
        if not shr:
            raise AnchorMissing("no call removes bytes from Conduit.data")
        for b, x in shr:
            ctx.saw(b)
            inr = b.meta.get("name") == "read" and _suffix_match(b.meta.get("self_adt"), COND)
            r.check(inr and x.via_name in ("advance", "copy_to_slice", "split_to"), "data-removal/%s::%s" % (b.meta.get("name"), x.via_name), x.loc(), "bytes leave data only in Conduit::read, from the front",
                    "bytes are removed from the channel's buffer in %s via %s: they are lost to the reader, or taken from the wrong end" % (b.defpath, x.via_name))
        # the reader's ReadBuf is only ever appended to: put_slice / (initialize_unfilled*, advance); an absolute position (set_filled, clear) discards
        # what an earlier poll_read already delivered into the same buffer (read_exact, read_buf loops)
        rb = [(b, x) for b in c.all_bodies() if "::tests" not in b.defpath for x in b.calls if (x.self_adt or "").endswith("read_buf::ReadBuf")]
        for b, x in rb:
            if x.name in ("set_filled", "clear", "assume_init", "take", "unfilled_mut", "inner_mut"):
                r.bad("ReadBuf/%s::%s" % (b.meta.get("name"), x.name), x.loc(), "the reader's buffer is repositioned with %s: bytes a previous poll_read put there are dropped or garbage is exposed, so the bytes read are no longer a prefix of the bytes written" % x.name)
        r.check(bool(rb), "ReadBuf/append-only", "-", "%d ReadBuf calls, none repositions the filled mark" % len(rb))
        rd = ctx.saw(c.fn(name="read", self_adt=COND))
        def amount(x):
            # the local that says how many bytes this call moves
            if x.name in ("advance", "split_to", "initialize_unfilled_to"):
                return rd.copy_root(x.args[1])
            if x.name in ("put_slice", "copy_to_slice"):
                d = describe_operand(rd, x.args[1])
                if "RangeTo" in d:
                    for a in aggregates(rd, "core::ops::range::RangeTo"):
                        return rd.copy_root(a[2][0])
                for y in rd.calls:
                    if y.name == "initialize_unfilled_to" and "initialize_unfilled_to(" in d:
                        return rd.copy_root(y.args[1])
            return None
        put = [x for x in rd.calls if (x.self_adt or "").endswith("read_buf::ReadBuf") and x.name in ("put_slice", "advance")]
        take = [x for b, x in shr if b.defpath == rd.defpath]
        r.check(len(put) == 1 and len(take) == 1, "read/one-append-one-removal", where(rd), "Conduit::read appends once to the reader's buffer and removes once from data", "Conduit::read: %d appends, %d removals" % (len(put), len(take)))
        if len(put) == 1 and len(take) == 1:
            a1, a2 = amount(put[0]), amount(take[0])
            cnt = [i for i in range(1, rd.argc + 1) if rd.locals[i] == "usize"]
            r.check(a1 is not None and a1 == a2 and a1 in cnt, "read/appended=removed=count", put[0].loc(), "the number of bytes appended, the number removed and the `count` argument are the same value",
                    "Conduit::read appends %s bytes but removes %s: bytes are duplicated or skipped" % (describe_operand(rd, ["c", [a1, []]]) if a1 else "?", describe_operand(rd, ["c", [a2, []]]) if a2 else "?"))
            if put[0].name == "put_slice":
                d = describe_operand(rd, put[0].args[1])
                r.check(d.startswith("index(") and ".data" in d and "RangeTo" in d, "read/appended-is-front-of-data", put[0].loc(), "what is appended is data[..count] (%s)" % d[:60], "what is appended is %s, not the front of data" % d[:80])
        pr = ctx.saw(c.fn(name="poll_read", self_adt=COND))
        rc = [x for x in pr.calls if x.is_method(COND, "read")]
        if len(rc) != 1:
            raise AnchorMissing("poll_read: expected one Conduit::read call, found %d" % len(rc))
        d = describe_operand(pr, rc[0].args[2])
        srcs = pr.sources(rc[0].args[2], stop_at_calls=False)
        rem = [s_[1] for s_ in srcs if s_[0] == "call" and s_[1].name in ("remaining", "len", "remaining_mut", "capacity")]
        on_data = any(".data" in describe_operand(pr, c_.args[0]) for c_ in rem if c_.args)
        on_buf = any((c_.self_adt or "").endswith("read_buf::ReadBuf") for c_ in rem)
        # however it is written (min, a comparison, clamp): the amount depends on what the channel holds and on the room the reader offers
        r.check(on_data and on_buf, "poll_read/count=min(data.remaining,buf.remaining)", rc[0].loc(), "count = %s (bounded by the buffered bytes and by the reader's free space)" % d[:80],
                "the number of bytes moved (%s) does not depend on %s: %s" % (d[:80], "the bytes buffered in the channel" if not on_data else "the free space of the reader's buffer",
                                                                     "bytes that were never written are delivered" if not on_data else "put_slice panics when the reader's buffer is smaller than the buffered data"))
        for b, cl in callers_by_name(c, "read", self_adt=COND):
            r.check(b.defpath == pr.defpath, "Conduit::read/caller/" + owner_def(b), cl.loc(), "Conduit::read called only from poll_read", "Conduit::read has another caller")

    with ctx.rule("C12.R5" + sfx, "T6", "poll_read delivers remaining bytes before end-of-stream; poll_write fails first when closed", floor=2) as r:
        pr = c.fn(name="poll_read", self_adt=COND)
        sw = [si for si in pr.switches_on(lambda p, si: p is not None and p.fields[-1:] == ("closed",))]
        if not sw:
            raise AnchorMissing("poll_read: no branch on self.closed")
        for si in sw:
            g = guards(pr, si["block"])
            r.check(any(".data" in d for d, l, _ in g), "poll_read/closed-after-data", where(pr), "the closed test is control dependent on the data test (%s)" % g,
                    "poll_read tests closed without first testing for remaining data: buffered bytes are lost at close")
        pw = c.fn(name="poll_write", self_adt=COND)
        sw = [si for si in pw.switches_on(lambda p, si: p is not None and p.fields[-1:] == ("closed",))]
        if not sw:
            raise AnchorMissing("poll_write: no branch on self.closed")
        wr = [x for x in pw.calls if x.is_method(COND, "write")]
        for x in wr:
            r.check(any(pw.dominates(si["block"], x.block) for si in sw) and any(".closed" in d and l == "false" for d, l, _ in guards(pw, x.block)),
                    "poll_write/closed-before-write", x.loc(), "write happens only on the closed == false edge", "poll_write can write into a closed channel")

    with ctx.rule("C12.R6" + sfx, "T2", "dropping either half and poll_shutdown close the channel", floor=3) as r:
        # Closing is "closed := true, then wake the peer" - in whatever functions that is written. Summaries over the crate-local call graph:
        # a body *must close* if every path sets Conduit.closed := true (directly or through a callee that must close); a wake is *late enough*
        # if a close dominates it. A peer woken before `closed` is set can poll, still see an open channel and park again: nobody wakes it after.
        memo = {}

        def summary(b, depth=0):
            if b.defpath in memo:
                return memo[b.defpath]
            memo[b.defpath] = {"must_close": False, "may_wake": False, "early_wakes": []}
            close_blocks = set()
            for w in field_writes(b, COND, "closed"):
                if w[2][0] == "use" and w[2][1][0] == "k" and w[2][1][1].get("b") is True:
                    close_blocks.add(w[0])
            wakes = []
            any_wake = False
            for x in b.calls:
                if x.name in ("wake", "wake_by_ref") and ("Waker" in x.defpath or "task::wake" in x.defpath):
                    wakes.append((x, "the peer's waker"))
                    any_wake = True
                    continue
                if depth < 4:
                    for cb in local_bodies(x):
                        sm = summary(cb, depth + 1)
                        any_wake = any_wake or sm["may_wake"]
                        if sm["must_close"]:
                            close_blocks.add(x.block)
                        if sm["may_wake"] and not sm["must_close"]:
                            wakes.append((x, cb.defpath.split("::")[-1] + "()"))
                        elif sm["may_wake"] and sm["early_wakes"]:
                            wakes.append((x, cb.defpath.split("::")[-1] + "() (which wakes before closing)"))
            early = []
            for x, what in wakes:
                # a direct write in the same block precedes the block's call terminator
                if not any(cbk == x.block and cbk in {w[0] for w in field_writes(b, COND, "closed")} or (cbk != x.block and b.dominates(cbk, x.block)) for cbk in close_blocks):
                    early.append((x, what))
            ok, _ = b.must_pass([0], close_blocks) if close_blocks else (False, None)
            memo[b.defpath] = {"must_close": bool(close_blocks) and ok, "may_wake": any_wake, "early_wakes": early}
            return memo[b.defpath]

        def local_bodies(call):
            out = []
            dp = call.defpath or ""
            if "swimos_byte_channel" not in dp:
                return out
            for cb in c.all_bodies():
                if cb.defpath == dp:
                    out.append(cb)
            return out

        ends = [("ByteReader::drop", ctx.saw(c.fn(name="drop", self_adt="channel::ByteReader", trait="core::ops::drop::Drop"))),
                ("ByteWriter::drop", ctx.saw(c.fn(name="drop", self_adt="channel::ByteWriter", trait="core::ops::drop::Drop"))),
                ("Conduit::poll_shutdown", ctx.saw(c.fn(name="poll_shutdown", self_adt=COND)))]
        for nm, d in ends:
            sm = summary(d)
            r.check(sm["must_close"], "%s=>closed" % nm, where(d), "%s marks the channel closed on every path" % nm, "%s can return without marking the channel closed" % nm)
            r.check(sm["may_wake"], "%s=>wakes-peer" % nm, where(d), "%s wakes a parked peer" % nm, "%s closes the channel without waking a parked peer" % nm)
            ew = sm["early_wakes"]
            r.check(not ew, "%s/closed-before-wake" % nm, where(d), "the peer is woken only after `closed` has been set",
                    "%s wakes %s before the channel is marked closed: a peer polled in between sees an open channel, parks again, and is never woken (no EOF / BrokenPipe)" % (nm, ", ".join(w for _, w in ew)))
        for dp, sm in sorted(memo.items()):
            for x, what in sm["early_wakes"]:
                if sm["must_close"] and not any(dp == d.defpath for _, d in ends):
                    r.bad("%s/closed-before-wake" % dp.split("::")[-1], x.loc(), "%s wakes %s before (or without) setting `closed` on a closing path" % (dp.split("::")[-1], what))
        cl = ctx.saw(c.fn(name="close_channel", self_adt=COND))
        ws = field_writes(cl, COND, "closed")
        r.check(any(w[2][0] == "use" and w[2][1][0] == "k" and w[2][1][1].get("b") is True for w in ws), "close_channel/closed:=true", where(cl), "close_channel sets closed = true")
        allw = []
        for b in c.all_bodies():
            for w in field_writes(b, COND, "closed"):
                allw.append((b, w))
        for b, w in allw:
            if b.meta.get("name") == "new":
                continue
            val = w[2][1][1].get("b") if w[2][0] == "use" and w[2][1][0] == "k" else None
            r.check(val is True, "closed-write/" + owner_def(b), b.loc(w[3]), "closed is only ever set to true (closing is permanent)", "closed is written with a non-true value: a closed channel can reopen")


def coop_rules(ctx, c, cfg):
    sfx = "" if cfg == "default" else "[%s]" % cfg
    with ctx.rule("C12.R7" + sfx, "T1", "coop: a forced yield self-wakes, track_progress is the identity on its argument, budget check precedes the lock", floor=4) as r:
        cb = ctx.saw(c.fn(suffix="coop::consume_budget::{closure#0}"))
        pend = [a for a in aggregates(cb, "core::task::poll::Poll", "Pending") if a[5][0] == 0]
        if not pend:
            raise AnchorMissing("consume_budget: no Pending")
        wk = [x for x in cb.calls if x.name in ("wake_by_ref", "wake")]
        for p in pend:
            r.check(any(cb.dominates(w.block, p[0]) for w in wk), "consume_budget/Pending<=wake_by_ref", cb.loc(p[3]), "the forced Pending is dominated by waker().wake_by_ref()",
                    "consume_budget returns Pending without waking itself: the task is never polled again")
        tp = ctx.saw(c.fn(suffix="coop::track_progress"))
        ret_src = []
        for i, j, p, rv, line in tp.assigns():
            if p[0] == 0 and not p[1]:
                ret_src.append(rv)
        r.check(all(rv[0] == "use" and rv[1][0] in ("c", "m") and tp.resolve(rv[1][1]).root == 1 for rv in ret_src) and ret_src, "track_progress/identity", where(tp),
                "track_progress returns its argument unchanged", "track_progress no longer returns its argument unchanged")
        n = 0
        for b in c.fns(self_adt="channel::ByteReader") + c.fns(self_adt="channel::ByteWriter"):
            cbs = [x for x in b.calls if x.name == "consume_budget"]
            locks = [x for x in b.calls if x.name == "lock"]
            if not cbs:
                continue
            n += 1
            for l in locks:
                r.check(any(b.dominates(x.block, l.block) for x in cbs), "%s::%s/budget-before-lock" % (b.meta["self_adt"].split("::")[-1], b.meta["name"]), l.loc(),
                        "consume_budget precedes the lock (a forced yield cannot happen inside the critical section)", "lock taken before the budget check")
            # the Pending edge of consume_budget returns Pending without touching the conduit
            for x in cbs:
                for si in b.result_switches(x):
                    ve = b.variant_edges(si["block"])
                    if ve and "Pending" in ve:
                        reach = b.reachable_from([ve["Pending"]])
                        r.check(not (reach & {l.block for l in locks}), "%s::%s/yield-skips-conduit" % (b.meta["self_adt"].split("::")[-1], b.meta["name"]), x.loc(),
                                "on a forced yield the conduit is not touched", "forced yield path still touches the conduit")
        if cfg == "default" and n < 4:
            raise AnchorMissing("expected 4 coop poll methods calling consume_budget, found %d" % n)



def _is_min_of(b, desc, at):
    """Is the value described by `desc` exactly min(buf.len(), avail)?"""
    if desc in ("min(len(buf), avail)", "min(avail, len(buf))"):
        return True
    # `let n = if buf.len() < avail { buf.len() } else { avail }`: a local assigned one of the two under the comparison that selects the smaller
    from mirlib import describe_call, describe_place, describe_rvalue, dom_guards
    cand = [l for l in range(len(b.locals)) if len(b.defs.get(l, ())) == 2 and describe_place(b, [l, []]) == desc]
    for loc in cand:
        ds = [df for df in b.defs.get(loc, ()) if df[0] in ("assign", "call")]
        if len(ds) != 2 or len(b.defs.get(loc, ())) != 2:
            continue
        vals = {(describe_rvalue(b, df[3]) if df[0] == "assign" else describe_call(b, df[2])): df for df in ds}
        if set(vals) != {"len(buf)", "avail"}:
            continue
        g = dom_guards(b, vals["len(buf)"][1])
        for d, l, _ in g:
            m = re.match(r"^(Lt|Le|Gt|Ge)\((.+), (.+)\)$", d)
            if not m or l not in ("true", "false"):
                continue
            op, a1, a2 = m.groups()
            if {a1, a2} != {"len(buf)", "avail"}:
                continue
            len_first = a1 == "len(buf)"
            less = op in ("Lt", "Le")
            # the edge on which len(buf) is chosen must be the one where len(buf) <= avail
            if (less == len_first) == (l == "true"):
                return True
    return False

def run(ctx):
    c = ctx.crate(BC)
    conduit_rules(ctx, c, "default")
    coop_rules(ctx, c, "default")
    for cfg in ctx.alt:
        c2 = ctx.crate(BC, cfg)
        conduit_rules(ctx, c2, cfg)
