"""C10 Binary frames decode to what was encoded under any fragmentation."""
import collections
import re

from mirlib import AnchorMissing, edge_label, switch_desc, describe_call, describe_operand, describe_place, describe_rvalue, dom_guards, guards, op_place, _suffix_match
from rules.common import aggregates, owner_def, panic_sites, where, implied_by_variant

META = {
    "explanation": (
        "C10: every hand-written resumable frame decoder of the protocol crates. R1 consume-automaton: no path consumes from `src` and then "
        "returns Ok(None) without recording its progress in the decoder state, and after an inner decoder produced a result or an error the "
        "state is rewritten before returning; R2 tag tables: per codec pair, the tag an encoder writes for a variant is a tag the decoder maps "
        "back to that variant, and unknown tags end in Err; R4 tainted length arithmetic: a 64-bit length read from the wire never enters an "
        "unchecked +,* or - nor a split/advance length without a dominating bound (a corrupt length must give an error, not a panic); "
        "R5 panic audit of the decode bodies; R6 discard accounting: when a decoder drops the buffered part of a body it measures the dropped size before clearing the buffer; R7 bytes split off for the following frames are put back on every exit; R8 a delegating decoder waits for a header only at a frame boundary; R9 a size test against a length read through a peek cursor is made on the cursor or adds the peeked header size; R10 abandoning a frame on an error skips every outstanding part recorded in the state; R11 whole-frame decoders consume the frame before validating it; R12 an exhausted body length without a result is an error. R13 a decoder that takes its state out of `self` puts a state back before it asks for more input."
        " R14 (= C09.R3b) the incremental Recon parser never decides a token before its end is in sight; R15 consume_bounded always consults the inner decoder and ends a complete body with decode_eof; R16 fixed-width reads after a size test take no more than the test established (walk under constant propagation with byte accounting); R17 what consume_bounded took is written into the decoder's state on every way out; R18 RecognizerDecoder resets after every finished result, value or error; R4 also in its path form (a lower bound established through a kept comparison)."
),
    "does_not_decide": "equality of decoded and encoded messages for all values (bodies are Recon, C09); silently wrong messages produced by mutated valid streams inside a body",
}

CRATES = ["swimos_agent_protocol", "swimos_messages", "swimos_encoding", "swimos_recon"]
CONSUME = {"advance", "get_u8", "get_u16", "get_u32", "get_u64", "get_u128", "get_i8", "get_i32", "get_i64", "get_f64", "split_to", "split_off", "split", "truncate", "clear",
           "copy_to_bytes", "copy_to_slice", "get_uint", "get_int", "freeze"}
TAINT = ("get_u64(", "get_u128(", "get_i64(", "get_uint(")
LENGTH_SINKS = {"split_to", "split_off", "advance", "truncate", "with_capacity", "reserve", "resize", "take"}


def decoders(ctx):
    out = []
    for cn in CRATES:
        c = ctx.crate(cn)
        for e in c.entries(name="decode", trait="tokio_util::codec::decoder::Decoder"):
            if e["nblocks"] > 5:
                out.append((c, c.body(e)))
    return out


def src_root(body, operand, through_calls=True):
    p = op_place(operand)
    if p is None:
        return None
    return body.resolve(p, through_calls=through_calls).root


def wire_reads(body, operand):
    """get_u64-like calls the operand derives from (through casts and arithmetic, not through other calls)."""
    # a masked / shifted / divided value is bounded by construction (e.g. `len_and_tag & !OP_MASK` is < 2^61)
    return [s[1] for s in body.sources(operand, stop_bin=("BitAnd", "Shr", "ShrUnchecked", "Rem", "Div")) if s[0] == "call" and s[1].name in ("get_u64", "get_u128", "get_i64", "get_uint", "get_u64_le")]


def cmp_bounds(body, block):
    """For every dominating comparison: (set of wire reads bounded above, set bounded below)."""
    up, lo = [], []
    for d, l, a in dom_guards(body, block):
        si = body.switch_info(a)
        rv = si.get("rvalue") if si else None
        if not rv or rv[0] != "bin" or rv[1] not in ("Lt", "Le", "Gt", "Ge") or l not in ("true", "false"):
            continue
        t = l == "true"
        x, y = rv[2], rv[3]
        if (rv[1] in ("Lt", "Le") and t) or (rv[1] in ("Gt", "Ge") and not t):
            hi, low = x, y      # x <(=) y : x bounded above, y bounded below
        else:
            hi, low = y, x
        up.append(set(id(c) for c in wire_reads(body, hi)))
        lo.append(set(id(c) for c in wire_reads(body, low)))
    return up, lo


def lower_bounded_on_every_path(body, site_block, ids, budget=150000):
    """Is the wire length (its reads: `ids`) bounded from below on every way to `site_block`? The comparison may be acted on where it is made, or its
    answer may be kept first (`let bad = if tag == CLEAR { len != min } else { len < min }; if bad { return Err(..) }`): walked from the entry
    under constant propagation, remembering for each kept answer on which of its two values the length is at least something."""
    import collections as _c
    kept, copies = _c.defaultdict(list), _c.defaultdict(list)
    for i_, j_, p_, rv_, l_ in body.assigns():
        if p_[1]:
            continue
        if rv_[0] == "bin" and rv_[1] in ("Lt", "Le", "Gt", "Ge", "Ne", "Eq"):
            x_ids = set(id(c) for c in wire_reads(body, rv_[2]))
            y_ids = set(id(c) for c in wire_reads(body, rv_[3]))
            # value of the flag on which `length >= something` holds
            if x_ids & ids and not (y_ids & ids):
                good = {"Lt": 0, "Le": 0, "Ge": 1, "Gt": 1, "Ne": 0, "Eq": 1}[rv_[1]]
            elif y_ids & ids and not (x_ids & ids):
                good = {"Gt": 0, "Ge": 0, "Le": 1, "Lt": 1, "Ne": 0, "Eq": 1}[rv_[1]]
            else:
                continue
            kept[i_].append((p_[0], good))
        elif rv_[0] == "use" and rv_[1][0] in ("c", "m") and not rv_[1][1][1]:
            copies[i_].append((p_[0], rv_[1][1][0]))
    if not kept:
        return False
    seen_, work = set(), [(0, frozenset(), frozenset(), False)]
    while work and budget > 0:
        budget -= 1
        blk, env, pend, have = work.pop()
        if blk == site_block:
            if not have:
                return False
            continue
        key_ = (blk, env, pend, have)
        if key_ in seen_:
            continue
        seen_.add(key_)
        if blk in kept or (pend and blk in copies):
            pd = dict(pend)
            for loc_, g_ in kept.get(blk, ()):
                pd[loc_] = g_
            for dst_, src_ in copies.get(blk, ()):
                if src_ in pd:
                    pd[dst_] = pd[src_]
                else:
                    pd.pop(dst_, None)
            pend = frozenset(pd.items())
        t_ = body.term(blk)
        dl = op_place(t_["discr"]) if t_["k"] == "switch" else None
        for s_, e_ in body.cp_successors(blk, env):
            h2 = have
            if dl is not None and not dl[1] and dl[0] in dict(pend) and len(t_["arms"]) == 1 and int(t_["arms"][0][0]) == 0:
                val = 0 if s_ == t_["arms"][0][1] else 1
                if val == dict(pend)[dl[0]]:
                    h2 = True
            work.append((s_, e_, pend, h2))
    return budget > 0


def tainted(desc):
    return any(t in desc for t in TAINT)


def parse_cmp(desc):
    m = re.match(r"^(Lt|Le|Gt|Ge)\((.*)\)$", desc)
    if not m:
        return None
    inner = m.group(2)
    depth = 0
    for i, ch in enumerate(inner):
        if ch == "(":
            depth += 1
        elif ch == ")":
            depth -= 1
        elif ch == "," and depth == 0:
            return m.group(1), inner[:i].strip(), inner[i + 1:].strip()
    return None


def bounds(body, block):
    """(upper-bounded descriptions, lower-bounded descriptions) established by dominating comparisons."""
    up, lo = [], []
    for d, l, _ in dom_guards(body, block):
        pc = parse_cmp(d)
        if not pc or l not in ("true", "false"):
            continue
        op, a, b = pc
        t = l == "true"
        # a < b / a <= b true: a bounded above by b, b bounded below by a
        if (op in ("Lt", "Le") and t) or (op in ("Gt", "Ge") and not t):
            up.append((a, b))
            lo.append((b, a))
        else:
            up.append((b, a))
            lo.append((a, b))
    return up, lo


def is_upper_bounded(body, block, desc):
    up, _ = bounds(body, block)
    for x, by in up:
        if (x == desc or desc in x) and ("remaining(" in by or "len(" in by or by.isdigit() or "capacity" in by or not tainted(by) or True):
            return True
    # equality with a constant also bounds
    for d, l, _ in dom_guards(body, block):
        if d.startswith("Eq(") and l == "true" and desc in d:
            return True
    return False


def is_lower_bounded(body, block, desc):
    _, lo = bounds(body, block)
    return any(x == desc or desc in x for x, by in lo)


def run(ctx):
    decs = decoders(ctx)
    if len(decs) < 14:
        raise AnchorMissing("expected >= 14 non-trivial Decoder::decode bodies in the protocol crates, found %d" % len(decs))

    with ctx.rule("C10.R1", "T12", "resumable decoders: consumption followed by Ok(None) records progress; inner results reset the state", floor=14) as r:
        for c, b in decs:
            ctx.saw(b)
            tag = (b.meta.get("self_adt") or "?").split("::")[-1]
            # consuming calls on the src parameter (arg index 2)
            cons = [x for x in b.calls if x.name in CONSUME and x.args and src_root(b, x.args[0], through_calls=False) == 2 and "Iterator" not in (x.trait or "")]
            nones = [i for i, j, p, rv, line in b.assigns() if p[0] == 0 and not p[1] and describe_rvalue(b, rv) == "Result::Ok(Option::None())"]
            nones += [i for i, j, p, rv, line in b.assigns() if describe_rvalue(b, rv) == "Result::Ok(Option::None())" and i not in nones]
            # state writes: assignments through self (arg 1) or field-rooted refs of self
            sw = set()
            for i, j, p, rv, line in b.assigns():
                if p[1]:
                    pa = b.resolve(p)
                    if pa.root == 1:
                        sw.add(i)
            for x in b.calls:
                # mem::replace / take on state, inner decoder calls mutate their own state
                if x.args and src_root(b, x.args[0]) == 1 and x.name in ("set", "insert", "push", "reset", "decode", "decode_eof", "consume_bounded", "feed_event"):
                    sw.add(x.block)
                if x.name in ("consume_bounded", "decode", "decode_eof") and len(x.args) >= 2 and any(src_root(b, a) == 1 for a in x.args if a[0] in ("c", "m")):
                    sw.add(x.block)
            bad = []
            # a consumption loses bytes only if *no* progress is recorded anywhere on the path of this decode call:
            # entry ->(no state write)-> consumption ->(no state write)-> Ok(None)
            free = b.reachable_from([0], avoid=sw)
            for x in cons:
                if x.block not in free:
                    continue
                for nb in nones:
                    if x.block == nb:
                        continue
                    path = b.path_avoiding(b.succ[x.block], {nb}, avoid=sw)
                    if path is not None:
                        bad.append((x, nb, path))
            r.check(not bad, "%s/consume-then-None-records-state" % tag, where(b),
                    "%d consuming calls, %d Ok(None) returns: every path between them writes the decoder state" % (len(cons), len(nones)),
                    "src.%s (line %d) can be followed by Ok(None) without any write to the decoder state: the bytes are lost when the frame is completed later (path %s)" % (
                        bad[0][0].name, bad[0][0].line, bad[0][2][:8]) if bad else "")
            # (c) resumability for decoders that `match mem::take(state)`: an arm that returns Ok(None) without having
            # consumed anything must put back *its own* state, otherwise the frame is re-read in another state
            for i, j, p, rv, line in b.assigns():
                d = describe_rvalue(b, rv)
                if not (p[1] and b.resolve(p).root == 1 and "State::" in d and describe_place(b, p).endswith("state")):
                    continue
                g = dom_guards(b, i)
                arm = [l for dd, l, _ in g if dd.startswith("disc(take(") and dd.endswith("state))")]
                if not arm:
                    continue
                written = d.split("State::", 1)[1].split("(")[0]
                # is this write followed directly by an Ok(None) return (no further state write)?
                nxt = [nb for nb in nones if b.dominates(i, nb) and b.path_avoiding(b.succ[i], {nb}, avoid=(sw - {i})) is not None]
                if not nxt:
                    continue
                consumed_before = any(x.block != i and b.dominates(x.block, i) and any(l == arm[0] for dd, l, _ in dom_guards(b, x.block) if dd.startswith("disc(take(")) for x in cons)
                r.check(written == arm[0] or consumed_before, "%s/%s/resumes-in-own-state" % (tag, arm[0]), b.loc(line),
                        "arm %s returns Ok(None) after restoring %s" % (arm[0], written),
                        "arm %s returns Ok(None) without having consumed input but stores state %s: when more bytes arrive the same frame is parsed in the wrong state" % (arm[0], written))
            # inner decoder results
            inner = [x for x in b.calls if x.via_name in ("decode", "decode_eof") and x.args and src_root(b, x.args[0]) == 1 and _suffix_match(x.trait, "codec::decoder::Decoder")]
            for x in inner:
                sws = b.result_switches(x)
                for si in sws:
                    ve = b.variant_edges(si["block"])
                    if not ve or "Err" not in ve:
                        continue
                    st_writes = {i for i, j, p, rv, line in b.assigns() if p[1] and b.resolve(p).root == 1 and "state" in describe_place(b, p)}
                    if not st_writes:
                        continue
                    taken = [y for y in b.calls if y.name in ("take", "replace") and "core::mem" in y.defpath and y.args and src_root(b, y.args[0]) == 1 and b.dominates(y.block, x.block)]
                    # on every way from the inner decode through its Err outcome to a return the state is written - before the match on the
                    # result (`if !matches!(result, Ok(None)) { state = .. }`) or inside its Err arm; the search keeps the outcome consistent
                    # across several matches on the same result
                    others = {t_ for v_, t_ in ve.items() if t_ != ve["Err"]} | ({si["otherwise"]} if si.get("otherwise") not in (None, ve["Err"]) else set())
                    wit = b.path_avoiding(b.succ[x.block], set(b.exits()), avoid=st_writes | others, assume=b.variant_assumption(si, "Err")) if x.block not in st_writes else None
                    ok = wit is None
                    ok = ok or bool(taken)
                    r.check(ok, "%s/inner-error-resets-state" % tag, x.loc(), "after the inner decoder fails the state is rewritten before returning",
                            "the inner decoder's error leaves the outer state unchanged: the next frame is parsed as a body (%s)" % wit)

    with ctx.rule("C10.R2", "T5", "tag tables of encoder/decoder pairs agree; unknown tags are errors", floor=8) as r:
        pairs = 0
        for cn in CRATES:
            c = ctx.crate(cn)
            encs = c.entries(name="encode", trait="tokio_util::codec::encoder::Encoder")
            for e in encs:
                eb = c.body(e)
                enc_name = (e.get("self_adt") or "").split("::")[-1]
                if not enc_name.endswith("Encoder") and not enc_name.endswith("Codec"):
                    continue
                dec_name = enc_name[:-len("Encoder")] + "Decoder" if enc_name.endswith("Encoder") else enc_name
                ds = [d for d in c.entries(name="decode", trait="tokio_util::codec::decoder::Decoder") if (d.get("self_adt") or "").split("::")[-1] in (dec_name, "Raw" + dec_name) and d["nblocks"] > 5]
                if enc_name.startswith("Raw") and not ds:
                    ds = [d for d in c.entries(name="decode", trait="tokio_util::codec::decoder::Decoder") if (d.get("self_adt") or "").split("::")[-1] == dec_name[3:] and d["nblocks"] > 5]
                if not ds:
                    continue
                for dd_ in ds:
                    db = c.body(dd_)
                    dec_name = (dd_.get("self_adt") or "").split("::")[-1]
                    # encoder: first put_u8 of a constant per variant arm
                    etab = {}
                    for x in eb.calls:
                        if x.name == "put_u8" and len(x.args) > 1:
                            d = describe_operand(eb, x.args[1])
                            if not d.isdigit():
                                continue
                            g = [l for dd, l, _ in dom_guards(eb, x.block) if dd.startswith("disc(") and l not in ("Some", "None", "Ok", "Err")]
                            if not g:
                                continue
                            key = g[0] if len(g) == 1 else "/".join(g)
                            firsts = etab.setdefault(key, [])
                            if not any(eb.dominates(y.block, x.block) for y in firsts):
                                firsts.append(x)
                    etab = {k: int(describe_operand(eb, v[0].args[1])) for k, v in etab.items() if v}
                    if len(etab) < 2:
                        continue
                    # decoder: value switches on the tag
                    dtab = {}
                    handled = set()
                    unknown_err = False
                    for blk in range(db.n):
                        if db.is_cleanup(blk) or db.term(blk)["k"] != "switch":
                            continue
                        si = db.switch_info(blk)
                        if si["kind"] not in ("value", "callresult") or len(si["raw_arms"]) < 2:
                            continue
                        sdesc = describe_operand(db, si["operand"]) if "operand" in si else describe_call(db, si["call"])
                        if parse_cmp(sdesc) or sdesc.startswith("Eq(") or sdesc.startswith("Ne(") or any(v > 255 for v in si["raw_arms"] if isinstance(v, int)):
                            continue
                        for v, tb in si["raw_arms"].items():
                            handled.add(v)
                        # the otherwise edge must reach an Err
                        reach = db.reachable_from([si["otherwise"]])
                        errs = [i for i, j, p, rv, line in db.assigns() if describe_rvalue(db, rv).startswith("Result::Err(") or describe_rvalue(db, rv).startswith("FrameIoError::") or "Err(" in describe_rvalue(db, rv)]
                        deleg = {x.block for x in db.calls if x.via_name in ("decode", "decode_eof") and _suffix_match(x.trait, "codec::decoder::Decoder")}
                    unknown_err = unknown_err or bool(reach & set(errs)) or bool(reach & deleg)
                    if not handled:
                        continue
                    pairs += 1
                    ctx.saw(eb)
                    ctx.saw(db)
                    written = set(etab.values())
                    r.check(written <= handled, "%s/%s/written-tags-are-read" % (cn.split("_", 1)[1], enc_name), where(db), "tags written %s are all handled by %s (%s)" % (sorted(written), dec_name, sorted(handled)),
                            "%s writes tags %s but %s only handles %s" % (enc_name, sorted(written), dec_name, sorted(handled)))
                    r.check(len(set(etab.values())) == len(etab), "%s/%s/tags-distinct" % (cn.split("_", 1)[1], enc_name), where(eb), "each variant has its own tag %s" % etab, "two variants share a tag: %s" % etab)
                    r.check(unknown_err, "%s/%s/unknown-tag-is-error" % (cn.split("_", 1)[1], dec_name), where(db), "an unknown tag reaches an Err result", "an unknown tag does not end in an error")
        if pairs < 4:
            raise AnchorMissing("only %d encoder/decoder pairs with tag tables were recognised" % pairs)

    with ctx.rule("C10.R2b", "T5", "routed messages: each direction accepts exactly its own four tags; any other tag is an error", floor=3) as r:
        ms = ctx.crate("swimos_messages")
        want = {"RequestMessageDecoder": {"LINK", "SYNC", "UNLINK", "COMMAND"}, "RawRequestMessageDecoder": {"LINK", "SYNC", "UNLINK", "COMMAND"}, "RawResponseMessageDecoder": {"LINKED", "SYNCED", "UNLINKED", "EVENT"}}
        consts = {nm: ms.const("protocol::" + nm)["v"] for nm in ("LINK", "SYNC", "UNLINK", "COMMAND", "LINKED", "SYNCED", "UNLINKED", "EVENT")}
        r.check(len(set(consts.values())) == 8, "messages/tags-distinct", "-", "the eight operation tags are distinct (%s)" % sorted(consts.values()))
        for b in ms.all_bodies():
            nm = (b.meta.get("self_adt") or "").split("::")[-1]
            if b.meta.get("name") != "decode" or nm not in want:
                continue
            ctx.saw(b)
            def is_tag(sb):
                # the operation tag: the top bits of the 64-bit word read from the wire - `(word & MASK) >> SHIFT`, however it travels to the match
                if (switch_desc(b, sb) or "").startswith("Shr(BitAnd(get_u64("):
                    return True
                src_ = b.sources(b.term(sb)["discr"])
                return ("bin", "Shr") in [x[:2] for x in src_ if x[0] == "bin"] and ("bin", "BitAnd") in [x[:2] for x in src_ if x[0] == "bin"] and any(x[0] == "call" and x[1].name == "get_u64" for x in src_)
            sw = [sb for sb in range(b.n) if not b.is_cleanup(sb) and b.term(sb)["k"] == "switch" and len(b.term(sb)["arms"]) >= 2 and is_tag(sb)]
            if len(sw) != 1:
                raise AnchorMissing("%s: switch on the operation tag (found %d)" % (nm, len(sw)))
            t = b.term(sw[0])
            arms = {int(v) for v, _ in t["arms"]}
            r.check(arms == {consts[x] for x in want[nm]}, "%s/explicit-arms" % nm, b.loc(t.get("line")), "explicit arms for %s" % sorted(want[nm]), "the tag match has arms for %s, expected %s" % (sorted(arms), sorted(consts[x] for x in want[nm])))
            reach = b.reachable_from([t["otherwise"]])
            errs = {i for i, j, p, rv, line in b.assigns() if describe_rvalue(b, rv).startswith("Result::Err(")}
            oks = {i for i, j, p, rv, line in b.assigns() if describe_rvalue(b, rv).startswith("Result::Ok(Option::Some(")}
            r.check(bool(reach & errs) and not (reach & oks), "%s/other-tag-is-an-error" % nm, b.loc(t.get("line")), "a tag of the other direction (or a corrupt one) is rejected",
                    "a frame with any other tag is accepted as a message (a response tag on the request channel decodes as a command, and vice versa): a corrupt tag gives a silently wrong message")

    with ctx.rule("C10.R4", "T7", "a 64-bit length read from the wire never enters unchecked arithmetic or a split/advance length without a dominating bound", floor=5) as r:
        n = 0
        bodies = [b for _, b in decs]
        for c, b in decs:
            for cb in c.closures_of(b.defpath):
                bodies.append(cb)
        enc = ctx.crate("swimos_encoding")
        for e in enc.entries(name="consume_bounded"):
            bodies.append(enc.body(e))
        for b in bodies:
            tag = (b.meta.get("self_adt") or (b.meta.get("owner") or {}).get("self_adt") or b.meta.get("name") or "?").split("::")[-1]
            for i, j, p, rv, line in b.assigns():
                if rv[0] != "bin":
                    continue
                op = rv[1]
                if not (op.startswith("Add") or op.startswith("Mul") or op.startswith("Sub")):
                    continue
                for k in (0, 1):
                    reads = wire_reads(b, rv[2 + k])
                    if not reads:
                        continue
                    d = describe_operand(b, rv[2 + k])
                    other = describe_operand(b, rv[3 - k])
                    n += 1
                    up, lo = cmp_bounds(b, i)
                    ids = set(id(c) for c in reads)
                    site = "%s@%d" % (reads[0].name, sorted(c.line for c in reads)[0] - b.meta["lo"])
                    if op.startswith("Sub"):
                        pl = op_place(rv[2])
                        in_state = pl is not None and b.resolve(pl).root == 1
                        if k == 0 and not in_state:
                            ok = any(ids <= s_ or ids & s_ for s_ in lo) or lower_bounded_on_every_path(b, i, ids)
                            r.check(ok, "%s/sub/%s" % (tag, site), b.loc(line), "the wire length is only decreased after a lower bound was established",
                                    "`%s - %s` on a length read from the wire with no dominating lower bound: underflow panics (debug) or wraps (release)" % (_short(d), _short(other)))
                        continue
                    ok = any(ids & s_ for s_ in up)
                    r.check(ok, "%s/%s/%s" % (tag, "add" if op.startswith("Add") else "mul", site), b.loc(line),
                            "the wire length is bounded before it is used in `%s`" % op,
                            "unchecked `%s` on a 64-bit length read from the wire (%s %s %s): a corrupt length overflows - a panic in debug builds; in release the wrapped bound lets split_to/advance panic instead of returning an error" % (
                                "+" if op.startswith("Add") else "*", _short(d), "+" if op.startswith("Add") else "*", _short(other)))
            for x in b.calls:
                if x.name in LENGTH_SINKS and len(x.args) > 1 and "Iterator" not in (x.trait or ""):
                    reads = wire_reads(b, x.args[1])
                    if x.name in ("reserve", "with_capacity") and src_root(b, x.args[0], through_calls=False) == 2:
                        # allocation hints: any length field of the frame counts, also masked ones and sums built through helper calls
                        reads = [s_[1] for s_ in b.sources(x.args[1], stop_at_calls=False) if s_[0] == "call" and s_[1].name in ("get_u32", "get_u64", "get_u128", "get_i64", "get_uint")]
                    if not reads:
                        continue
                    d = describe_operand(b, x.args[1])
                    n += 1
                    up, lo = cmp_bounds(b, x.block)
                    ids = set(id(c) for c in reads)
                    ok = any(ids & s_ for s_ in up)
                    if x.name in ("reserve", "with_capacity"):
                        # an allocation hint: acceptable when capped by a constant (`len.min(MAX_RESERVE)`)
                        ok = ok or (d.startswith("min(") and re.search(r", \d+\)$", d) is not None)
                    site = "%s@%d" % (reads[0].name, sorted(c.line for c in reads)[0] - b.meta["lo"])
                    r.check(ok, "%s/%s-length/%s" % (tag, x.name, site), x.loc(), "%s(len) is dominated by a comparison bounding the wire length" % x.name,
                            "%s(%s) uses a wire length that no dominating comparison bounds: a corrupt length panics%s" % (x.name, _short(d), " (capacity overflow) or aborts the process on an allocation failure" if x.name in ("reserve", "with_capacity") else ""))
        if n < 6:
            raise AnchorMissing("only %d tainted-length sites found; the source patterns are no longer recognised" % n)

    with ctx.rule("C10.R5", "T9", "decode bodies: potential panic sites are allow-listed with a reason", floor=14) as r:
        allow = {
            "expect": "documented infallible conversion / invariant of the decoder state",
        }
        for c, b in decs:
            tag = (b.meta.get("self_adt") or "?").split("::")[-1]
            sites = panic_sites(b, include_index=True)
            if not sites:
                r.ok("%s/no-panic-sites" % tag, where(b), "no unwrap/expect/panic/index in decode")
                continue
            for kind, desc, line, blk in sites:
                g = dom_guards(b, blk)
                why = None
                if kind == "index" and any(parse_cmp(d) and ("remaining(" in d or "len(" in d) for d, l, _ in g):
                    why = "index guarded by a remaining() / len() check"
                elif kind == "panic" and "unreachable" in desc:
                    why = None
                elif kind.startswith("assert:BoundsCheck") and any(parse_cmp(d) for d, l, _ in g):
                    why = "bounds check preceded by a length comparison"
                r.check(why is not None, "%s/%s@%s" % (tag, kind, _short(desc)), b.loc(line), "%s: %s" % (kind, why), "potential panic in a decoder fed from a byte channel: %s %s" % (kind, desc[:80]))

    with ctx.rule("C10.R6", "T1", "discard accounting: the number of bytes dropped from src is measured before they are dropped", floor=4) as r:
        # After src.clear() (or split()/split_to(len)) the buffer is empty: a remaining()/len() read after it is always 0.
        # A decoder that skips a partially received body must subtract what it dropped from its `remaining` counter,
        # so that size has to be sampled *before* the bytes are discarded.
        SIZE = {"remaining", "len", "remaining_mut"}
        n = 0
        for c, b in decs:
            tag = (b.meta.get("self_adt") or "?").split("::")[-1]
            empt = [x for x in b.calls if x.name in ("clear",) and x.args and src_root(b, x.args[0], through_calls=False) == 2]
            if not empt:
                continue
            ctx.saw(b)
            sizes = [x for x in b.calls if x.name in SIZE and x.args and src_root(b, x.args[0], through_calls=False) == 2]
            fills = {x.block for x in b.calls if x.name in ("put", "put_slice", "extend_from_slice", "unsplit", "put_u8", "reserve") and x.args and src_root(b, x.args[0], through_calls=False) == 2}
            for k_, e in enumerate(sorted(empt, key=lambda x: x.line)):
                n += 1
                stale = []
                for sz in sizes:
                    if sz.block != e.block and b.dominates(e.block, sz.block) and b.path_avoiding(b.succ[e.block], {sz.block}, avoid=fills) is not None:
                        # is the stale size used in arithmetic or stored?
                        used = False
                        for i, j, p, rv, line in b.assigns():
                            if rv[0] in ("bin", "checked_bin") or (rv[0] == "agg"):
                                ops = rv[2:] if rv[0] != "agg" else rv[2]
                                for o in ops:
                                    if isinstance(o, list) and o and o[0] in ("c", "m") and any(s_[0] == "call" and s_[1] is sz for s_ in b.sources(o)):
                                        used = True
                        if used:
                            stale.append(sz)
                gd = [l for d, l, _ in dom_guards(b, e.block) if d.startswith("disc(") and "state" in d]
                # positive half: in the arm that clears src a counter is reduced by a (fresh) size of src
                acc = []
                for i, j, p, rv, line in b.assigns():
                    if rv[0] in ("bin", "checked_bin") and rv[1] in ("Sub", "SubWithOverflow", "SubUnchecked"):
                        arm = [l for d, l, _ in dom_guards(b, i) if d.startswith("disc(") and "state" in d]
                        if arm[:1] != gd[:1]:
                            continue
                        if any(s_[0] == "call" and s_[1] in sizes and s_[1] not in stale for s_ in b.sources(rv[3])) and (b.dominates(i, e.block) or b.dominates(e.block, i)):
                            acc.append(line)
                r.check(bool(acc), "%s/%s/clear#%d/dropped-bytes-subtracted" % (tag, gd[0] if gd else "-", k_), e.loc(), "the arm subtracts src's size from its counter (line %s)" % acc[:1],
                        "src.clear() drops the buffered part of the frame but no counter is reduced by src's size in this arm: the decoder loses track of how much of the frame is still to come")
                r.check(not stale, "%s/%s/clear#%d/size-sampled-before-discard" % (tag, gd[0] if gd else "-", k_), e.loc(), "no size of src is computed after src.clear() and used in the progress counter",
                        "src.%s() at line %d is evaluated after src.clear() (always 0) and used in arithmetic: the bytes just dropped are not accounted for, so the decoder discards too much of the following frames" % (stale[0].name, stale[0].line) if stale else "")
        if n < 4:
            raise AnchorMissing("expected >= 4 src.clear() sites in decoders, found %d" % n)

    with ctx.rule("C10.R7", "T1", "bytes split off for the following frames are always put back", floor=2) as r:
        # `let rem = src.split_off(n)` temporarily removes the bytes of the following frames; every way out of the
        # function has to restore them (src.unsplit(rem) / *src = rem), unless the remainder is empty by construction
        # (n = min(A, src.remaining()) and the path is guarded by A > src.remaining()).
        n = 0
        for cn in CRATES:
            c = ctx.crate(cn)
            for b in c.all_bodies():
                so = [x for x in b.calls if x.name == "split_off" and "bytes" in x.defpath and x.args and src_root(b, x.args[0], through_calls=False) in range(1, b.argc + 1)]
                for k_, x in enumerate(sorted(so, key=lambda y: y.line)):
                    n += 1
                    ctx.saw(b)
                    root = src_root(b, x.args[0], through_calls=False)
                    tag = (b.meta.get("self_adt") or b.meta.get("name") or "?").split("::")[-1]
                    restore = {y.block for y in b.calls if y.name == "unsplit" and y.args and src_root(b, y.args[0], through_calls=False) == root
                               and any(s_[0] == "call" and s_[1] is x for s_ in b.sources(y.args[1]))}
                    for i, j, p, rv, line in b.assigns():
                        if p[1] == ["*"] and b.resolve(p).root == root and not b.resolve(p).fields and any(s_[0] == "call" and s_[1] is x for s_ in (b.sources(rv[1]) if rv[0] == "use" else [])):
                            restore.add(i)
                    arg = describe_operand(b, x.args[1])
                    discharge = []
                    m = re.match(r"^min\((.*), remaining\(src\)\)$", arg)
                    if m:
                        a_ = m.group(1)
                        for sb in range(b.n):
                            if b.is_cleanup(sb) or b.term(sb)["k"] != "switch":
                                continue
                            d = switch_desc(b, sb)
                            for t_ in b.succ[sb]:
                                l = {"0": "false", "1": "true"}.get(edge_label(b, sb, t_), edge_label(b, sb, t_))
                                if (d == "Le(%s, remaining(src))" % a_ and l == "false") or (d == "Gt(%s, remaining(src))" % a_ and l == "true") or \
                                   (d == "Lt(remaining(src), %s)" % a_ and l == "true") or (d == "Ge(remaining(src), %s)" % a_ and l == "false"):
                                    discharge.append((sb, t_))
                    ok, wit = b.must_pass_edges([x.target], restore, discharge)
                    r.check(ok and bool(restore), "%s/split_off#%d/remainder-restored-on-every-exit" % (tag, k_), x.loc(),
                            "every exit after split_off passes unsplit (%d restore sites, %d empty-remainder edges)" % (len(restore), len(discharge)),
                            "the bytes split off at line %d (the following frames) are not put back on the path %s: they are silently dropped" % (x.line, [b.blocks[q]["t"].get("line") for q in (wit or [])][:10]))
        if n < 2:
            raise AnchorMissing("expected >= 2 split_off sites (RequestMessageDecoder, consume_bounded), found %d" % n)

    with ctx.rule("C10.R8", "T6", "a delegating decoder waits for header bytes only at a frame boundary", floor=10) as r:
        # A decoder that hands the body to an inner (stateful) decoder may return Ok(None) "not enough bytes for a header"
        # only when it knows it is at the start of a frame: the return has to be control dependent on its own state
        # (or on the inner decoder's boundary predicate), not only on the amount of buffered input.
        for c, b in decs:
            tag = (b.meta.get("self_adt") or "?").split("::")[-1]
            inner = [x for x in b.calls if x.via_name in ("decode", "decode_eof") and x.args and src_root(b, x.args[0]) == 1]
            if not inner:
                continue
            nones = [(i, line) for i, j, p, rv, line in b.assigns() if describe_rvalue(b, rv) == "Result::Ok(Option::None())"]
            for k_, (nb, line) in enumerate(sorted(set(nones), key=lambda y: y[1])):
                if any(b.reaches(x.block, {nb}) for x in inner):
                    continue
                g = dom_guards(b, nb)
                own = [d for d, l, _ in g if "self" in d and "src" not in d]
                # (a value that can only be `Some` at a frame boundary carries that with it)
                for d_, l_, sb_ in g:
                    own += [d2 for d2, l2 in implied_by_variant(b, sb_, l_) if "self" in d2 and "src" not in d2]
                size = [d for d, l, _ in g if "remaining(src)" in d or "len(src)" in d]
                if not size:
                    continue
                ctx.saw(b)
                r.check(bool(own), "%s/early-none#%d/only-at-frame-boundary" % (tag, k_), b.loc(line), "waiting for header bytes is conditional on the decoder state (%s)" % own[0][:50] if own else "",
                        "Ok(None) is returned because src holds too few bytes for a header, whatever the state of the inner decoder: when the inner decoder is part way through a body, the rest of that body is never passed on if it is shorter than a header (the frame is only completed when a later frame arrives)")

    with ctx.rule("C10.R9", "T7", "a size test against a length read through a peek cursor accounts for the bytes already peeked", floor=6) as r:
        # Decoders peek at header fields through a cursor over src (`let mut bytes = src.as_ref(); bytes.get_u64()`), which does not
        # consume src. A later test "is the rest of the frame here?" must either be made on the cursor, or - when made on src - add
        # the size of the header fields that precede the payload (at least everything up to the end of the length field it uses).
        SIZES = {"get_u8": 1, "get_i8": 1, "get_u16": 2, "get_i16": 2, "get_u32": 4, "get_i32": 4, "get_u64": 8, "get_i64": 8, "get_f64": 8, "get_u128": 16}
        n = 0

        def recv_root(b, c):
            return src_root(b, c.args[0], through_calls=False) if c.args else None

        def consts_added(b, op, sub):
            """sum of constants added on this side (sub=False) or subtracted from it (sub=True), following single definitions"""
            tot, seen, work = 0, set(), [op]
            while work:
                o = work.pop()
                if o[0] == "k" or o[0] not in ("c", "m"):
                    continue
                loc = o[1][0]
                if loc in seen:
                    continue
                seen.add(loc)
                d = b.single_def(loc)
                if not d or d[0] != "assign":
                    continue
                rv = d[3]
                if rv[0] in ("bin", "checked_bin") and rv[1] in (("Sub", "SubWithOverflow", "SubUnchecked") if sub else ("Add", "AddWithOverflow", "AddUnchecked")):
                    for x in (rv[2], rv[3]) if not sub else (rv[3],):
                        if x[0] == "k" and isinstance(x[1].get("v"), int):
                            tot += x[1]["v"]
                    work.extend([rv[2], rv[3]] if not sub else [rv[2]])
                elif rv[0] in ("use", "cast"):
                    work.append(rv[1] if rv[0] == "use" else rv[2])
            return tot

        for c, b in decs:
            tag = (b.meta.get("self_adt") or "?").split("::")[-1]
            reads_all = [x for x in b.calls if x.name in SIZES and x.args]
            k_ = 0
            for sb in range(b.n):
                if b.is_cleanup(sb) or b.term(sb)["k"] != "switch":
                    continue
                si = b.switch_info(sb)
                rv = si.get("rvalue") if si else None
                if not rv or rv[0] != "bin" or rv[1] not in ("Lt", "Le", "Gt", "Ge"):
                    continue
                sides = []
                for o in (rv[2], rv[3]):
                    szc = [s_[1] for s_ in b.sources(o, stop_bin=()) if s_[0] == "call" and s_[1].name in ("remaining", "len") and s_[1].args]
                    rds = [s_[1] for s_ in b.sources(o, stop_at_calls=False, stop_bin=("BitAnd", "Shr", "ShrUnchecked", "Rem", "Div")) if s_[0] == "call" and s_[1].name in SIZES and s_[1].name not in ("get_u8", "get_i8")]
                    sides.append((o, szc, rds))
                for (o1, sz1, rd1), (o2, sz2, rd2) in (sides, sides[::-1]):
                    if not sz1 or not rd2 or rd1:
                        continue
                    size_call = sz1[0]
                    cur_roots = {recv_root(b, x) for x in rd2}
                    if recv_root(b, size_call) in cur_roots:
                        n += 1
                        r.ok("%s/size-test#%d/on-the-cursor" % (tag, k_), b.loc(b.blocks[sb]["t"].get("line")), "the test is made on the cursor the length was read from")
                        k_ += 1
                        continue
                    # test made on another buffer (src): how many header bytes were certainly peeked up to the end of the length fields used?
                    last = max(rd2, key=lambda x: sum(1 for y in rd2 if b.dominates(y.block, x.block)))
                    root = recv_root(b, last)
                    pmin = sum(SIZES[x.name] for x in reads_all if recv_root(b, x) == root and (x is last or b.dominates(x.block, last.block)) and b.dominates(x.block, sb))
                    if root == 2:
                        pmin = 0    # read directly from src: already consumed
                    K = consts_added(b, o2, False) + consts_added(b, o1, True)
                    n += 1
                    r.check(K >= pmin, "%s/size-test#%d/accounts-for-peeked-header" % (tag, k_), b.loc(b.blocks[sb]["t"].get("line")),
                            "src.remaining() is compared with the wire length plus %d, covering the %d header bytes peeked up to that length field" % (K, pmin),
                            "src.remaining() is compared with a length read through a peek cursor but only %d is added for the header, although at least %d bytes of header precede the payload in src: the test passes before the frame is complete and the following split/advance runs past the end of the buffer (panic) on a fragmented read" % (K, pmin))
                    k_ += 1
        if n < 6:
            raise AnchorMissing("expected >= 6 size tests against wire lengths, found %d" % n)

    with ctx.rule("C10.R10", "T7", "an error in the middle of a frame skips everything the frame still has to deliver", floor=3) as r:
        # A decoder state that records several outstanding byte counts (e.g. the rest of the key *and* the size of the value that
        # follows) must skip all of them when it abandons the frame; otherwise the unskipped part is parsed as the next header.
        n = 0
        for c, b in decs:
            tag = (b.meta.get("self_adt") or "?").split("::")[-1]
            st = None
            for sb in range(b.n):
                if b.is_cleanup(sb) or b.term(sb)["k"] != "switch":
                    continue
                si = b.switch_info(sb)
                if si and si.get("kind") == "disc" and switch_desc(b, sb) in ("disc(self.state)", "disc(take(self.state))") and si.get("adt"):
                    st = si["adt"]
                    break
            if not st:
                continue
            try:
                adt = c.adt(st.split("::", 1)[1] if st.startswith(c.name + "::") else st)
            except Exception:
                continue
            sizes = {v["name"]: [f[0] for f in v["fields"] if f[1] in ("usize", "core::option::Option<usize>", "u64")] for v in adt["variants"]}
            for i, j, p, rv, line in b.assigns():
                if rv[0] != "agg" or not rv[1].get("adt", "").endswith(st.split("::")[-1]) or rv[1].get("variant") != "Discarding":
                    continue
                arm = [l for d, l, _ in dom_guards(b, i) if d in ("disc(self.state)", "disc(take(self.state))")]
                if not arm or arm[0] == "Discarding":
                    continue
                held = sizes.get(arm[0], [])
                fields = rv[1]["fields"]
                amt = describe_operand(b, rv[2][fields.index("remaining")]) if "remaining" in fields else ""
                missing = [f for f in held if ("<%s>.%s" % (arm[0], f)) not in amt]
                n += 1
                r.check(not missing, "%s/%s/discard-covers-all-outstanding-parts" % (tag, arm[0]), b.loc(line), "the amount to discard is computed from %s" % (held or ["remaining"]),
                        "on an error in state %s the decoder discards `%s`, which ignores %s held in that state: those bytes stay in the stream and are read as the next frame's header" % (arm[0], amt[:70], missing))
                # the sibling "enough buffered: skip now" branch must skip the same amount
                adv = [x for x in b.calls if x.name == "advance" and any(d in ("disc(self.state)", "disc(take(self.state))") and l == arm[0] for d, l, _ in dom_guards(b, x.block)) and any(l == "Err" for d, l, _ in dom_guards(b, x.block))]
                for x in adv if len(held) >= 2 else []:
                    a = describe_operand(b, x.args[1])
                    miss2 = [f for f in held if ("<%s>.%s" % (arm[0], f)) not in a]
                    r.check(not miss2, "%s/%s/skip-now-covers-all-outstanding-parts" % (tag, arm[0]), x.loc(), "advance(%s)" % a[:60], "on an error in state %s the decoder advances by `%s`, ignoring %s" % (arm[0], a[:70], miss2))
        if n < 3:
            raise AnchorMissing("expected >= 3 error exits into a Discarding state, found %d" % n)

    with ctx.rule("C10.R11", "T1", "whole-frame decoders take the frame out of the buffer before validating any of it", floor=4) as r:
        # A decoder without resumable state waits until the whole frame is buffered. If it then reports an error after having
        # consumed only part of the frame, the rest of that frame is read as the next header. So: once consumption has started,
        # no fallible step (a branch whose one edge returns Err) may be followed by further consumption of src.
        n = 0
        for c, b in decs:
            tag = (b.meta.get("self_adt") or "?").split("::")[-1]
            stateful = any(switch_desc(b, sb) in ("disc(self.state)", "disc(take(self.state))") for sb in range(b.n) if not b.is_cleanup(sb) and b.term(sb)["k"] == "switch")
            if stateful:
                continue
            cons = [x for x in b.calls if x.name in CONSUME and x.args and src_root(b, x.args[0], through_calls=False) == 2 and "Iterator" not in (x.trait or "")]
            if len(cons) < 2:
                continue
            err_blocks = {i for i, j, p, rv, line in b.assigns() if describe_rvalue(b, rv).startswith("Result::Err(")}
            err_blocks |= {x.block for x in b.calls if x.name == "from_residual"}
            bad = []
            for sb in range(b.n):
                if b.is_cleanup(sb) or b.term(sb)["k"] != "switch" or not any(b.dominates(x.block, sb) for x in cons):
                    continue
                succs = list(dict.fromkeys(b.succ[sb]))
                if len(succs) < 2:
                    continue
                for e in succs:
                    er = b.reachable_from([e])
                    # e is an error edge: it reaches an Err return and no further consumption
                    if (er & err_blocks) and not any(x.block in er for x in cons):
                        rest = b.reachable_from([o for o in succs if o != e])
                        later = [x for x in cons if x.block in rest]
                        if later:
                            bad.append((sb, later[0]))
            n += 1
            ctx.saw(b)
            r.check(not bad, "%s/no-consumption-after-a-fallible-step" % tag, where(b), "%d consuming calls; every check that can fail comes after the last of them" % len(cons),
                    "a check that can return an error (line %s) is followed by further consumption of the same frame (src.%s at line %s): on that error the rest of the frame stays in the buffer and is parsed as the next frame" % (
                        b.blocks[bad[0][0]]["t"].get("line"), bad[0][1].name, bad[0][1].line) if bad else "")
        if n < 4:
            raise AnchorMissing("expected >= 4 whole-frame decoders, found %d" % n)

    with ctx.rule("C10.R12", "T2", "a body whose declared length is used up without a result is an error, not a wait", floor=1) as r:
        # consume_bounded over an *arbitrary* inner decoder (not the Recon recogniser, whose decode_eof always decides): when the
        # declared length is exhausted and the inner decoder still answers Ok(None), waiting is pointless - no byte will ever be
        # passed to it again - and every frame behind it is stuck.
        n = 0
        for c, b in decs:
            tag = (b.meta.get("self_adt") or "?").split("::")[-1]
            for k_, cb in enumerate([x for x in b.calls if x.name == "consume_bounded" and "RecognizerDecoder" not in x.callee.get("targs", "")]):
                n += 1
                ctx.saw(b)
                nones = [i for i, j, p, rv, line in b.assigns() if describe_rvalue(b, rv) == "Result::Ok(Option::None())" and b.dominates(cb.block, i)
                         and any(d.startswith("disc(consume_bounded(") and l == "None" for d, l, _ in dom_guards(b, i))]
                good = bool(nones) and all(any(d.startswith("Eq(") and ".remaining, 0)" in d and l == "false" for d, l, _ in dom_guards(b, i)) for i in nones)
                r.check(good, "%s/bounded-inner#%d/exhausted-without-result-is-an-error" % (tag, k_), cb.loc(), "Ok(None) is passed on only while some of the declared length is still outstanding (remaining != 0)",
                        "when the inner decoder answers Ok(None) the outer decoder also returns Ok(None) even if the declared length is used up: nothing will ever be fed to the inner decoder again and the stream stalls behind this frame")
        if n < 1:
            raise AnchorMissing("expected a consume_bounded call over a generic inner decoder (DownlinkNotificationDecoder)")

    with ctx.rule("C10.R13", "T3", "a decoder that takes its state out of `self` puts a state back before it asks for more input", floor=6) as r:
        from rules.common import take_and_restore_rule
        n = take_and_restore_rule(r, ctx.crate("swimos_agent_protocol"), ctx)
        if n < 6:
            raise AnchorMissing("take-and-restore decoders: expected at least 6 `Ok(None)` exits from non-initial states (CommandDecoder), found %d" % n)

    # the typed decoders feed their bodies to RecognizerDecoder chunk by chunk: the incremental Recon parser must not take the end of a chunk for the
    # end of the input (C09.R3b), or a frame split at that byte is rejected
    from rules import C09 as _C09
    ctx.borrow(_C09, {"C09.R3b": ("C10.R14", "the incremental Recon parser under the typed decoders never decides a token before its end is in sight (C09.R3b)")})

    with ctx.rule("C10.R15", "T2", "consume_bounded always consults the inner decoder, and ends a body whose last byte is in the buffer with decode_eof", floor=2) as r:
        # a body of declared length 0 is complete with no bytes at all: the inner decoder's decode_eof yields its value (Extant for a Recon body). A
        # path that returns without calling the decoder - `if src.is_empty() { return (0, Ok(None)) }` - withholds such a frame until bytes of the next
        # one arrive, or drops it when the stream ends first.
        enc_ = ctx.crate("swimos_encoding")
        cb = [enc_.body(e) for e in enc_.entries(name="consume_bounded")]
        if len(cb) != 1:
            raise AnchorMissing("swimos_encoding::consume_bounded")
        cb = ctx.saw(cb[0])
        dec = [c for c in cb.calls if c.via_name in ("decode", "decode_eof")]
        ok, wit = cb.must_pass([0], {c.block for c in dec})
        r.check(ok and bool(dec), "consume_bounded/every-path-consults-the-decoder", where(cb), "every call hands the available bytes (possibly none) to the inner decoder",
                "consume_bounded can return without calling the inner decoder (path %s): a body of length zero (the Recon of Extant / None), or whose remaining bytes are zero, is never completed with decode_eof - the frame is withheld until later bytes arrive, or lost at the end of the stream" % (wit,))
        eofs = [c for c in dec if c.via_name == "decode_eof"]
        plain = [c for c in dec if c.via_name == "decode"]
        good = bool(eofs) and all(any(re.match(r"^Le\(remaining, ", d) and l == "true" for d, l, _ in dom_guards(cb, c.block)) or any(re.match(r"^(Gt|Lt)\(", d) and "remaining" in d for d, l, _ in dom_guards(cb, c.block)) for c in eofs) \
            and all(any(re.match(r"^Le\(remaining, ", d) and l == "false" for d, l, _ in dom_guards(cb, c.block)) or any(re.match(r"^(Gt|Lt)\(", d) and "remaining" in d for d, l, _ in dom_guards(cb, c.block)) for c in plain)
        r.check(good, "consume_bounded/decode_eof-iff-body-complete", where(cb), "decode_eof is used exactly when the bytes still expected are all in the buffer (remaining <= available)",
                "decode_eof / decode are not chosen by `remaining <= available`")


    with ctx.rule("C10.R17", "T1", "what consume_bounded took from the body is booked in the decoder's state on every way out", floor=4) as r:
        # `let (consumed, result) = consume_bounded(*remaining, src, inner); *remaining -= consumed;` - the inner decoder has taken `consumed` bytes of
        # the body whatever it answered. When it asks for more (Ok(None)) and the count is not written back, the next call offers it more bytes than the
        # frame still has: the end of the body is not seen (no decode_eof), and the bytes of the next frame are eaten in its place.
        n17 = 0
        for c0, b in decs:
            tag = (b.meta.get("self_adt") or "?").split("::")[-1]
            for c in b.calls:
                if c.name != "consume_bounded" or c.dest is None:
                    continue
                n17 += 1
                booked = set()
                for i, j, p_, rv, line in b.assigns():
                    if not p_[1] or b.resolve(p_).root != 1:
                        continue
                    ops = [rv[1]] if rv[0] == "use" else list(rv[2]) if rv[0] == "agg" else [rv[2], rv[3]] if rv[0] == "bin" else []
                    for o in ops:
                        if o[0] in ("c", "m") and any(x[0] == "call" and x[1] is c for x in b.sources(o)):
                            booked.add(i)
                ok, wit = b.must_pass(b.succ[c.block], booked) if booked else (False, None)
                r.check(ok, "%s/consume_bounded@%s/count-booked-on-every-way-out" % (tag, describe_operand(b, c.args[2]).split(".")[-1][:24]), c.loc(),
                        "the number of bytes the inner decoder took is written into the decoder's state before any return",
                        "a way out of decode after consume_bounded does not write the consumed count into the state (path %s): when the inner decoder asks for more input the bytes it has already "
                        "taken are forgotten, the next call offers it more than the frame has left, the end of the body is missed and bytes of the following frame are consumed with it" % (wit,))
        if n17 < 4:
            raise AnchorMissing("decoders: expected the consume_bounded call sites (found %d)" % n17)

    with ctx.rule("C10.R18", "T2", "the Recon body decoder starts afresh after every result that ends a value - a value or an error", floor=3) as r:
        # RecognizerDecoder is the body decoder under every typed decoder. The framing decoder skips the rest of a bad body and goes on with the next
        # frame; if the parser, the recognizer and the location tracker keep what the bad body left behind, the next body is read on top of it (an
        # attribute too many, or a good frame rejected). `reset` must be reached whenever decode_bytes answered anything but Ok(None).
        rc_ = ctx.crate("swimos_recon")
        rdec = [b for b in rc_.all_bodies() if b.meta.get("name") in ("decode", "decode_eof") and "RecognizerDecoder" in (b.meta.get("self_adt") or "") and "WithLen" not in (b.meta.get("self_adt") or "")
                and _suffix_match(b.meta.get("trait"), "codec::decoder::Decoder")]
        if len(rdec) != 2:
            raise AnchorMissing("RecognizerDecoder::decode / decode_eof (found %d)" % len(rdec))
        for b in rdec:
            ctx.saw(b)
            nm = b.meta.get("name")
            resets = {c.block for c in b.calls if c.name == "reset" and c.args and src_root(b, c.args[0]) == 1}
            if nm == "decode_eof":
                # the end of the input ends the value whatever was found
                firsts = [c for c in b.calls if c.name in ("decode_inner", "decode_bytes")]
                ok, wit = b.must_pass(b.succ[firsts[0].block], resets) if firsts and resets else (False, None)
                r.check(ok, "RecognizerDecoder/decode_eof/always-resets", where(b), "decode_eof resets the decoder on every way out after it has looked at the input", "decode_eof can return without resetting the decoder (%s)" % (wit,))
                continue
            inner = [c for c in b.calls if c.name == "decode_bytes"]
            if len(inner) != 1:
                raise AnchorMissing("RecognizerDecoder::decode: one decode_bytes call")
            for variant, what in (("Err", "an error"), ("Some", "a value")):
                # from the outcome onwards: `?` (the Err edge returns at once), a match, or `if !matches!(result, Ok(None))`
                sws = b.result_switches(inner[0])
                starts = []
                te = b.try_edges(inner[0])
                for si in sws:
                    ve = b.variant_edges(si["block"]) or {}
                    if variant == "Err" and "Err" in ve:
                        starts.append((si, "Err"))
                assume = None
                if variant == "Err":
                    if te is not None:
                        ok, wit = b.must_pass([te[1]], resets)
                    elif starts:
                        si = starts[0][0]
                        wit = b.path_avoiding([(b.variant_edges(si["block"]) or {})["Err"]], set(b.exits()), avoid=resets, assume=b.variant_assumption(si, "Err"))
                        ok = wit is None
                    else:
                        ok, wit = False, "the result of decode_bytes is not examined"
                else:
                    # Ok(Some(_)): every way from the call to a return on which the answer is Some passes reset; decided with the outcome assumed
                    ok, wit = False, None
                    for si in sws:
                        ve = b.variant_edges(si["block"]) or {}
                        if "Ok" in ve:
                            inner_sw = [s2 for s2 in b.switches_on(lambda p_, s2: True) if s2.get("kind") == "disc" and (s2.get("adt") or "").endswith("option::Option") and "decode_bytes" in (switch_desc(b, s2["block"]) or "")]
                            if inner_sw:
                                ok, wit = b.must_pass_assuming(inner_sw[0]["block"], "Some", resets)
                    if te is not None and not ok:
                        # `let result = decode_bytes(..)?; if result.is_some() { reset }`
                        some_sw = [s2 for s2 in b.switches_on(lambda p_, s2: True) if s2.get("kind") == "disc" and (s2.get("adt") or "").endswith("option::Option")]
                        isome = [c for c in b.calls if c.name in ("is_some", "is_none")]
                        if some_sw:
                            ok, wit = b.must_pass_assuming(some_sw[0]["block"], "Some", resets)
                        elif isome:
                            be = b.bool_edges(isome[0])
                            ok, wit = b.must_pass([be[0] if isome[0].name == "is_some" else be[1]], resets) if be else (False, None)
                r.check(bool(resets) and ok, "RecognizerDecoder/decode/%s=>reset" % variant, where(b), "after %s the decoder is reset" % what,
                        "RecognizerDecoder::decode can answer %s without resetting the parser, the recognizer and the location tracker (%s): the framing decoder skips the rest of the frame and the next "
                        "body is parsed on top of what the bad one left behind - a silently wrong message, or a good frame rejected" % (what, wit))

    with ctx.rule("C10.R16", "T7", "fixed-width reads after a size check never take more bytes than the check established", floor=20) as r:
        # `if src.remaining() < HEADER_LEN { return Ok(None) }` followed by get_u8 / get_u64 / advance(n): the Buf getters panic when the buffer is
        # shorter than what they take. On every path from the edge on which `remaining() >= K` holds, the bytes taken by fixed-width reads - up to the
        # next size test or the first read of a length that is not a constant - must not exceed K. (Reads of variable length are C10.R4's business.)
        WIDTH = {"get_u8": 1, "get_i8": 1, "get_u16": 2, "get_i16": 2, "get_u32": 4, "get_i32": 4, "get_f32": 4, "get_u64": 8, "get_i64": 8, "get_f64": 8, "get_u128": 16, "get_i128": 16}
        WIDTH.update({k + "_le": v for k, v in list(WIDTH.items())})

        def lower(e):
            # a lower bound of an unsigned size expression as the descriptions print it
            e = e.strip()
            if re.match(r"^\d+$", e):
                return int(e)
            m_ = re.match(r"^(Add|Mul)(WithOverflow|Unchecked)?\((.*)\)(\.0)?$", e)
            if m_:
                inner, depth = m_.group(3), 0
                for i_, ch in enumerate(inner):
                    depth += ch == "("
                    depth -= ch == ")"
                    if ch == "," and depth == 0:
                        a_, b_ = lower(inner[:i_]), lower(inner[i_ + 1:])
                        return a_ + b_ if m_.group(1) == "Add" else a_ * b_
            return 0

        def on_src(b, c):
            return bool(c.args) and src_root(b, c.args[0], through_calls=False) == 2
        nchk = 0
        for c0, b in decs:
            tag = (b.meta.get("self_adt") or "?").split("::")[-1]
            checks = {}
            for sb in range(b.n):
                t = b.term(sb)
                if t["k"] != "switch" or b.is_cleanup(sb) or len(t["arms"]) != 1 or int(t["arms"][0][0]) != 0:
                    continue
                pc = parse_cmp(switch_desc(b, sb) or "")
                if not pc:
                    continue
                op, x, y = pc
                fls, tru = t["arms"][0][1], t["otherwise"]
                size = lambda e: e in ("remaining(src)", "len(src)")
                si_ = b.switch_info(sb) or {}
                rv_ = si_.get("rvalue")
                ops_ = (rv_[2], rv_[3]) if rv_ and rv_[0] == "bin" else (None, None)
                loc_of = lambda o: op_place(o)[0] if o is not None and op_place(o) is not None and not op_place(o)[1] else None
                if size(x) and not size(y):
                    # remaining OP y
                    edge, k = {"Lt": (fls, lower(y)), "Ge": (tru, lower(y)), "Le": (fls, lower(y) + 1), "Gt": (tru, lower(y) + 1)}[op]
                    other, plus = loc_of(ops_[1]), op in ("Le", "Gt")
                elif size(y) and not size(x):
                    edge, k = {"Gt": (fls, lower(x)), "Le": (tru, lower(x)), "Ge": (fls, lower(x) + 1), "Lt": (tru, lower(x) + 1)}[op]
                    other, plus = loc_of(ops_[0]), op in ("Ge", "Lt")
                else:
                    continue
                checks[sb] = (edge, k, other, plus)
            # what a block takes from src with a constant width / whether it takes an amount that is not a constant
            take, unknown = {}, set()
            for c in b.calls:
                if not on_src(b, c) or b.is_cleanup(c.block):
                    continue
                if c.name in WIDTH:
                    take[c.block] = (WIDTH[c.name], c)
                elif c.name not in ("remaining", "len", "is_empty", "has_remaining", "as_ref", "chunk", "deref", "deref_mut", "index", "as_mut", "borrow", "capacity", "reserve", "first", "get", "iter"):
                    # anything else that is handed the buffer may take an amount this rule does not know: the count ends there
                    d_ = describe_operand(b, c.args[1]) if len(c.args) > 1 else ""
                    if c.name in ("advance", "split_to", "copy_to_bytes") and re.match(r"^\d+$", d_):
                        take[c.block] = (int(d_), c)
                    else:
                        unknown.add(c.block)
            # walk the decoder from its entry under constant propagation (a size chosen by a flag - `let req = if has_host { MAX } else { MIN }` - and a
            # flag tested twice are then what they are on the path at hand); the state carries the bound in force and the bytes taken under it
            nchk += len(checks)
            # a size test whose answer is kept before it is acted on (`let short = tag == SYNC && src.remaining() < N; if short {..}`)
            kept, copies = collections.defaultdict(list), collections.defaultdict(list)
            for i_, j_, p_, rv_, l_ in b.assigns():
                if p_[1]:
                    continue
                if rv_[0] == "bin" and rv_[1] in ("Lt", "Le", "Gt", "Ge"):
                    x, y = describe_operand(b, rv_[2]), describe_operand(b, rv_[3])
                    sz = lambda e: e in ("remaining(src)", "len(src)")
                    if sz(x) and not sz(y):
                        kt, kf = {"Lt": (None, lower(y)), "Ge": (lower(y), None), "Le": (None, lower(y) + 1), "Gt": (lower(y) + 1, None)}[rv_[1]]
                    elif sz(y) and not sz(x):
                        kt, kf = {"Gt": (None, lower(x)), "Le": (lower(x), None), "Ge": (None, lower(x) + 1), "Lt": (lower(x) + 1, None)}[rv_[1]]
                    else:
                        continue
                    kept[i_].append((p_[0], (kt, kf)))
                elif rv_[0] == "use" and rv_[1][0] in ("c", "m") and not rv_[1][1][1]:
                    copies[i_].append((p_[0], rv_[1][1][0]))
            # what decides a branch: the tested locals and everything their values are computed from (two states that agree on those go the same ways)
            rel = set()
            for sb in range(b.n):
                t0 = b.term(sb)
                if t0["k"] == "switch" and op_place(t0["discr"]) is not None:
                    rel.add(op_place(t0["discr"])[0])
            for v_ in checks.values():
                if v_ and v_[2] is not None:
                    rel.add(v_[2])
            grew = True
            all_assigns = list(b.assigns())
            while grew:
                grew = False
                for i_, j_, p_, rv_, l_ in all_assigns:
                    if p_[0] not in rel:
                        continue
                    ops = [rv_[1]] if rv_[0] == "use" else list(rv_[2]) if rv_[0] == "agg" else [rv_[2], rv_[3]] if rv_[0] == "bin" else [rv_[2]] if rv_[0] in ("un", "cast") else [["c", rv_[1]]] if rv_[0] == "disc" else [["c", rv_[2]]] if rv_[0] == "ref" else []
                    for o in ops:
                        if isinstance(o, list) and o and o[0] in ("c", "m") and o[1][0] not in rel:
                            rel.add(o[1][0])
                            grew = True
            proj = lambda e: frozenset(x for x in e if x[0][0] in rel or x[0][0] == "K")
            worst = {}
            seen_ = set()
            work = [(0, frozenset(), None, None, 0, frozenset())]
            budget = 600000
            while work and budget > 0:
                budget -= 1
                blk, env, chk, k, used, pend = work.pop()
                key_ = (blk, proj(env), chk, k, used, pend)
                if key_ in seen_:
                    continue
                seen_.add(key_)
                if blk in kept or (pend and blk in copies):
                    pd = dict(pend)
                    for loc_, kk_ in kept.get(blk, ()):
                        pd[loc_] = kk_
                    for dst_, src_ in copies.get(blk, ()):
                        if src_ in pd:
                            pd[dst_] = pd[src_]
                    pend = frozenset(pd.items())
                t_ = b.term(blk)
                if blk not in checks and pend and t_["k"] == "switch" and op_place(t_["discr"]) is not None and not op_place(t_["discr"])[1] \
                        and op_place(t_["discr"])[0] in dict(pend) and len(t_["arms"]) == 1 and int(t_["arms"][0][0]) == 0:
                    kt, kf = dict(pend)[op_place(t_["discr"])[0]]
                    for s_, e_ in b.cp_successors(blk, env):
                        kv = kf if s_ == t_["arms"][0][1] else kt
                        if kv is None:
                            work.append((s_, e_, None, None, 0, frozenset()))
                        else:
                            work.append((s_, e_, blk, kv, 0, frozenset()))
                            checks.setdefault(blk, None)
                    continue
                if blk in unknown:
                    chk, k, used = None, None, 0
                if blk in take and k is not None:
                    used += take[blk][0]
                    if used > k:
                        if chk not in worst or used > worst[chk][0]:
                            worst[chk] = (used, take[blk][1], k)
                        chk, k, used = None, None, 0
                for s_, e_ in b.cp_successors(blk, env):
                    if not checks.get(blk):
                        work.append((s_, e_, chk, k, used, pend))
                        continue
                    edge, kk, other, plus = checks[blk]
                    if s_ != edge:
                        # the way on which the test says "not enough": nothing is established
                        work.append((s_, e_, None, None, 0, pend))
                        continue
                    kv = kk
                    if other is not None:
                        v_ = dict(e_).get((other, ()))
                        if isinstance(v_, int) and not isinstance(v_, bool):
                            kv = max(kv, v_ + (1 if plus else 0))
                    if k is not None and used == 0 and k > kv:
                        # a weaker test behind a stronger one, nothing taken in between, takes nothing back
                        work.append((s_, e_, chk, k, used, pend))
                    else:
                        # (a further test refers to what is left now: the count starts again)
                        work.append((s_, e_, blk, kv, 0, pend))
            for sb in sorted(checks):
                w = worst.get(sb)
                r.check(w is None, "%s/check@%d/reads-within-the-checked-size" % (tag, b.term(sb).get("line") or 0), b.loc(b.term(sb).get("line")),
                        "the bytes taken by fixed-width reads before the next size test stay within what this test established",
                        "after a test that establishes only `remaining() >= %d` a path takes %d bytes with fixed-width reads (the last one: %s at line %s): when the frame is cut there the getter panics instead of the decoder waiting for more input" % (
                            w[2] if w else 0, w[0] if w else 0, w[1].name if w else "", w[1].line if w else ""))
            if budget <= 0:
                r.bad("%s/path-budget" % tag, where(b), "the decoder has too many paths for the byte accounting (not decided)")
        if nchk < 20:
            raise AnchorMissing("decoders: expected the size tests that precede fixed-width reads (found %d)" % nchk)


def _short(d):
    d = re.sub(r"\(.*?\)", "()", d)
    return d[:40]
