"""C04 Every uplink follows the WARP link state machine; no fabricated frames."""
import re
from mirlib import describe_rvalue, op_place, describe_place, AnchorMissing, describe_operand, dom_guards, guards, _suffix_match
from rules import uplinks
from rules.common import named_argument_rule, aggregates, callers_by_name, owner_def, where

META = {
    "explanation": (
        "C04: per (remote, lane) the frames are linked (event|synced)* unlinked. Decided structurally: R1 perform_write maps every "
        "WriteAction variant to exactly the documented notifications and every event body is the task's buffer; R2 special actions pre-empt "
        "data and a queued Unlinked discards that lane's pending data; R3 no data-carrying action is produced on the pop path unless "
        "has_data() said so (no fabricated empty events); R4 handle_task_message: Link inserts the link before Linked, Unlink sends one unlinked "
        "only for an existing link, UnknownLane answers lane-not-found; R5 the read task reports unknown lanes for non-command envelopes; "
        "R6 on stop every open link is unlinked and pending writes are drained, a failed lane unlinks all its remotes; R7 one writer token per "
        "remote; R8 events are only ever sent to linked remotes. R12 (shared queue discipline) whatever is recorded for a link while the remote's writer is busy is scheduled."
        " R11 also: a remote's entry in the backwards index is deleted only when it is empty (remove, remove_lane)."
),
    "does_not_decide": "the full per-pair frame language over all interleavings of read and write tasks; byte equality of bodies beyond 'the body operand is the lane's buffer'",
}

RT = "swimos_runtime"


def run(ctx):
    rt = ctx.crate(RT)

    with ctx.rule("C04.R1", "T10-lite", "perform_write: WriteAction variant -> notifications table; event bodies are the buffer", floor=9) as r:
        pw = ctx.saw(rt.fn(suffix="write_fut::perform_write::{closure#0}"))
        sends = [c for c in pw.calls if c.name == "send_notification"]
        table = {}
        def arm_key(g):
            v = [l for d, l, _ in g if d == "disc(action)"]
            sub = [l for d, l, _ in g if d == "disc(action<Special>.0)"]
            return (v[0] if v else "?") + ("(%s)" % sub[0] if sub else "")
        for c in sends:
            g = dom_guards(pw, c.block)
            # one send whose notification was chosen by an inner match (`let n = match special {..}; send(n)`): one table entry per choice
            pl = op_place(c.args[1])
            root = pw.copy_root(pl) if pl is not None and not pl[1] else None
            defs = [d_ for d_ in pw.defs.get(root, ())] if root is not None else []
            if len(defs) > 1 and all(d_[0] == "assign" for d_ in defs):
                for d_ in defs:
                    gg = dom_guards(pw, d_[1])
                    table.setdefault(arm_key(gg), []).append((c, describe_rvalue(pw, d_[3]), gg))
                continue
            table.setdefault(arm_key(g), []).append((c, describe_operand(pw, c.args[1]), g))
        want = {
            "Event": ["Notification::Event(buffer)"],
            "ValueSynced": ["Notification::Event(buffer)", "Notification::Synced()"],
            "MapSynced": ["Notification::Event(buffer)", "Notification::Synced()"],
            "Special(Linked)": ["Notification::Linked()"],
            "Special(LaneNotFound)": ["Notification::Unlinked(Option::Some('@laneNotFound'))"],
        }
        for key, exp in want.items():
            got = sorted(d for _, d, _ in table.get(key, []))
            r.check(got == sorted(exp), "perform_write/%s" % key, where(pw), "%s -> %s" % (key, exp), "%s sends %s, expected %s" % (key, got, exp))
        un = table.get("Special(Unlinked)", [])
        r.check(len(un) == 1 and un[0][1].startswith("Notification::Unlinked(Option::Some(as_bytes(") and "message" in un[0][1], "perform_write/Special(Unlinked)", where(pw),
                "Special(Unlinked) -> Unlinked(Some(message))", "Special(Unlinked) sends %s" % [d for _, d, _ in un])
        extra = set(table) - set(want) - {"Special(Unlinked)"}
        r.check(not extra, "perform_write/no-other-arms", where(pw), "no other arm sends notifications", "unexpected sending arms: %s" % sorted(extra))
        # ordering inside ValueSynced / MapSynced: Event before Synced; the value event is conditional on the flag
        for key in ("ValueSynced", "MapSynced"):
            ev = [c for c, d, _ in table.get(key, []) if "Event" in d]
            sy = [c for c, d, _ in table.get(key, []) if "Synced" in d]
            if ev and sy:
                r.check(pw.reaches(ev[0].block, {sy[0].block}) and not pw.reaches(sy[0].block, {ev[0].block}), "perform_write/%s/event-before-synced" % key, ev[0].loc(),
                        "events are sent before the synced marker and never after it", "%s: an event can follow synced" % key)
        vs = [(c, g) for c, d, g in table.get("ValueSynced", []) if "Event" in d]
        r.check(bool(vs) and any(d.endswith("<ValueSynced>.0") and l == "true" for d, l, _ in vs[0][1]), "perform_write/ValueSynced/event-iff-flag", where(pw), "the value event is sent only when the flag is true")
        ms = [(c, g) for c, d, g in table.get("MapSynced", []) if "Event" in d]
        r.check(bool(ms) and any(d.startswith("has_data(") and l == "true" for d, l, _ in ms[0][1]), "perform_write/MapSynced/drain-loop", where(pw), "map events are sent while the queue has data")
        if ms:
            pwc = [c for c in pw.calls if c.name == "prepare_write"]
            r.check(len(pwc) == 1 and pw.dominates(pwc[0].block, ms[0][0].block), "perform_write/MapSynced/prepare-before-send", where(pw), "prepare_write fills the buffer before each map event")
            hd = [c for c in pw.calls if c.name == "has_data"]
            sy = [c for c, d, _ in table.get("MapSynced", []) if "Synced" in d]
            be = pw.bool_edges(hd[0]) if hd else None
            r.check(be is not None and sy and not (pw.reachable_from([be[0]], avoid={hd[0].block}) & {sy[0].block}) or (be is not None and sy and pw.dominates(be[1], sy[0].block)) or
                    (be is not None and sy and pw.reaches(be[1], {sy[0].block})), "perform_write/MapSynced/synced-after-drain", where(pw), "synced is sent once has_data() is false")

    with ctx.rule("C04.R2", "T1", "special actions pre-empt data; a queued Unlinked discards the lane's pending data", floor=6) as r:
        uplinks.special_preempts(r, ctx)

    with ctx.rule("C04.R3", "T7", "no data-carrying action on the pop path unless has_data() said so", floor=5) as r:
        uplinks.no_data_no_event(r, ctx)

    with ctx.rule("C04.R4", "T1", "handle_task_message: Link/Unlink/UnknownLane coordination", floor=6) as r:
        h = ctx.saw(rt.fn(suffix="WriteTaskState::handle_task_message::{closure#0}"))

        def arm(c):
            g = dom_guards(h, c.block)
            v = [l for d, l, _ in g if d == "disc(reg<Coord>.0)"]
            return (v[0] if v else None), g
        ps = [c for c in h.calls if c.name == "push_special"]
        by = {}
        for c in ps:
            a, g = arm(c)
            by.setdefault(a, []).append((c, g))
        # Link
        li = by.get("Link", [])
        ins = [c for c in h.calls if c.is_method("links::Links", "insert")]
        r.check(len(li) == 1 and "SpecialAction::Linked(" in describe_operand(h, li[0][0].args[1]), "Link/sends-linked", where(h), "Link -> push_special(Linked(id))", "Link arm sends %s" % [describe_operand(h, c.args[1])[:60] for c, _ in li])
        if li and ins:
            c, g = li[0]
            r.check(h.dominates(ins[0].block, c.block), "Link/insert-before-linked", c.loc(), "links.insert(id, origin) dominates push_special(Linked(id))", "Linked is sent without recording the link")
            # (however the two tests are combined: nested, as a guard, or as a match on the pair of results)
            r.check(any("id_for(" in d and l == "Some" for d, l, _ in g) and any("has_remote(" in d and l == "true" for d, l, _ in g), "Link/guarded", c.loc(),
                    "only for a known lane and a registered remote", "Linked can be sent for an unknown lane or remote: %s" % [(d[-40:], l) for d, l, _ in g])
            r.check(describe_operand(h, ins[0].args[2]).endswith("<Link>.origin") and describe_operand(h, c.args[2]).endswith("<Link>.origin"), "Link/same-remote", c.loc(), "link and Linked use the requesting remote")
        # Unlink
        ul = by.get("Unlink", [])
        rem = [c for c in h.calls if c.is_method("links::Links", "remove")]
        isl = [c for c in h.calls if c.is_method("links::Links", "is_linked")]
        r.check(len(ul) == 1 and describe_operand(h, ul[0][0].args[1]).startswith("unlinked("), "Unlink/sends-unlinked", where(h), "Unlink -> push_special(unlinked(lane_id, ..))")
        if ul and rem and isl:
            c, g = ul[0]
            r.check(any(d.startswith("is_linked(") and l == "true" for d, l, _ in g), "Unlink/only-if-linked", c.loc(), "unlinked is sent only when links.is_linked(origin, lane_id)",
                    "unlinked can be sent for a link that does not exist")
            r.check(h.dominates(rem[0].block, c.block), "Unlink/remove-before-unlinked", c.loc(), "links.remove(lane_id, origin) dominates the unlinked (exactly one unlinked per link)")
        # UnknownLane
        uk = by.get("UnknownLane", [])
        r.check(len(uk) == 1 and describe_operand(h, uk[0][0].args[1]).startswith("lane_not_found(") and describe_operand(h, uk[0][0].args[2]).endswith("<UnknownLane>.origin"), "UnknownLane/lane-not-found", where(h),
                "UnknownLane -> push_special(lane_not_found(path.lane)) to the origin")
        r.check(set(by) <= {"Link", "Unlink", "UnknownLane"}, "no-other-specials", where(h), "no other arm pushes special actions", "unexpected arms push specials: %s" % sorted(set(map(str, by)) - {"Link", "Unlink", "UnknownLane"}))

    with ctx.rule("C04.R5", "T2", "read task: an envelope for an unknown lane that is not a command reports UnknownLane", floor=2) as r:
        rd = ctx.saw(rt.fn(suffix="agent::task::read_task::{closure#0}"))
        uk = aggregates(rd, "RwCoordinationMessage", "UnknownLane")
        r.check(len(uk) == 1, "read_task/UnknownLane-site", where(rd), "one UnknownLane construction site", "%d UnknownLane sites" % len(uk))
        for (blk, idx, ops, line, variant, dest) in uk:
            g = dom_guards(rd, blk)
            r.check(any(d.startswith("disc(get(") and "path.lane" in d and l == "None" for d, l, _ in g), "read_task/UnknownLane/lane-missing", rd.loc(line), "reported when the lane name has no mapping")
            r.check(any(d.startswith("is_command(") and l == "false" for d, l, _ in g), "read_task/UnknownLane/not-for-commands", rd.loc(line), "not reported for command envelopes (commands carry no return path)")
            snd = [c for c in rd.calls if c.name == "send" and rd.dominates(blk, c.block)]
            # or handed to an async helper that does the sending: the future built from the message is one whose body sends
            for i2, j2, p2, rv2, l2 in rd.assigns():
                if rv2[0] == "agg" and isinstance(rv2[1], dict) and rv2[1].get("coroutine") in rt.by_def and rd.dominates(blk, i2):
                    if any(o[0] in ("c", "m") and op_place(rd._narrow(o)) is not None and op_place(rd._narrow(o))[0] == dest[0] for o in rv2[2]) and any(c.name == "send" for c in rt.body(rv2[1]["coroutine"]).calls):
                        snd.append(rv2)
            r.check(bool(snd), "read_task/UnknownLane/sent", rd.loc(line), "the message is sent to the write task")

    with ctx.rule("C04.R6", "T2", "on stop every open link is unlinked and pending writes drained; a failed lane unlinks its remotes", floor=6) as r:
        wt = rt.fn(suffix="agent::task::write_task::{closure#0}")
        eps = [b for b in rt.closures_of(wt.defpath) if any(c.name == "unlink_all" for c in b.calls)]
        if len(eps) != 1:
            raise AnchorMissing("write_task: shutdown block calling unlink_all not found")
        ep = ctx.saw(eps[0])
        order = []
        for nm in ("clear_lanes_and_stores", "unlink_all", "next_write", "dispose_of_remotes"):
            cs = [c for c in ep.calls if c.name == nm]
            r.check(len(cs) >= 1 and ep.must_pass([0], {c.block for c in cs})[0], "epilogue/%s-on-every-path" % nm, where(ep), "%s is reached on every path of the shutdown block" % nm, "shutdown can skip %s" % nm)
            order.append(cs[0] if cs else None)
        if all(order):
            r.check(ep.dominates(order[1].block, order[2].block) and ep.dominates(order[2].block, order[3].block), "epilogue/order", where(ep), "unlink_all, then drain of next_write, then dispose_of_remotes")
        sw = [c for c in ep.calls if c.name == "schedule_write"]
        r.check(len(sw) >= 2, "epilogue/writes-scheduled", where(ep), "unlink writes and follow-up writes are scheduled (%d sites)" % len(sw), "unlink writes are not scheduled")
        rep = [c for c in ep.calls if c.is_method("task::WriteTaskState", "replace")]
        # the drain loop: it ends only when next_write() yields None; a failed write is skipped, never a reason to stop draining
        nw = [c for c in ep.calls if c.name == "next_write"]
        dr = [c for c in ep.calls if c.name == "dispose_of_remotes"]
        opt = [si for si in ep.switches_on(lambda p, si: True) if si.get("kind") == "disc" and (si.get("adt") or "").endswith("option::Option") and "next_write" in describe_place(ep, si["place"])]
        some = ep.variant_edges(opt[0]["block"]).get("Some") if opt else None
        if len(nw) == 1 and len(dr) >= 1 and some is not None:
            ok, w = ep.must_pass([some], {nw[0].block}, targets={c.block for c in dr})
            r.check(ok, "epilogue/drain-ends-only-when-no-write-is-pending", where(ep), "after any completed write (successful or not) the loop asks for the next one; it ends only when none is pending",
                    "a completed write can end the drain loop although other writes are still pending (path %s): their unlinked frames are dropped" % (w,))
            res_guard = lambda d, l: (d.startswith("is_ok(") and l == "true") or (d.startswith("is_err(") and l == "false") or (d.startswith("disc(") and l == "Ok")
            g = [(d, l) for d, l, blk in dom_guards(ep, rep[0].block) if ep.dominates(some, blk)] if len(rep) == 1 else []
            r.check(len(rep) == 1 and ep.dominates(some, rep[0].block) and any(res_guard(d, l) for d, l in g) and all(res_guard(d, l) for d, l in g), "epilogue/rearm-after-write", where(ep),
                    "after each successfully completed write the writer is re-armed (state.replace), whatever else holds", "state.replace in the drain loop is guarded by %s" % g)
            fw = [c for c in sw if len(rep) == 1 and ep.dominates(rep[0].block, c.block)]
            r.check(len(fw) == 1 and any(re.match(r"^disc\((next\(into_iter\()?replace\(", d) and l == "Some" for d, l, _ in dom_guards(ep, fw[0].block)), "epilogue/follow-up-write-scheduled", where(ep), "a write handed back by replace is scheduled")
        else:
            r.bad("epilogue/drain-ends-only-when-no-write-is-pending", where(ep), "the drain loop over next_write() was not found")
        # the shutdown block is reached from every loop exit of write_task: it dominates the final Ok
        mk = [i for i, j, p, rv, line in wt.assigns() if rv[0] == "agg" and rv[1].get("coroutine", "").startswith(ep.defpath)]
        oks = [i for i, j, p, rv, line in wt.assigns() if p[0] == 0 and not p[1] and rv[0] == "agg" and rv[1].get("variant") == "Ok"]
        r.check(bool(mk) and bool(oks) and all(wt.dominates(mk[0], o) for o in oks), "write_task/epilogue-before-Ok", where(wt), "every Ok return of write_task passes the shutdown block",
                "write_task can return Ok without running the shutdown block")
        ua = ctx.saw(rt.fn(name="unlink_all", self_adt="task::WriteTaskState"))
        r.check(any(c.is_method("links::Links", "remove_all_links") for c in ua.calls), "unlink_all/remove_all_links", where(ua), "unlink_all iterates links.remove_all_links()")
        cl = rt.closures_of(ua.defpath)
        r.check(any(c.name == "unlink_lane" for b in cl for c in b.calls), "unlink_all/unlink_lane-per-link", where(ua), "every (lane, remote) pair is mapped to unlink_lane")
        lf = [c for c in wt.calls if c.is_method("task::WriteTaskState", "remove_lane")]
        r.check(len(lf) == 1 and any(l == "LaneFailed" for d, l, _ in dom_guards(wt, lf[0].block)), "write_task/LaneFailed=>remove_lane", where(wt), "LaneFailed(id) -> state.remove_lane(id)")
        rl = ctx.saw(rt.fn(name="remove_lane", self_adt="task::WriteTaskState"))
        r.check(any(c.is_method("links::Links", "remove_lane") for c in rl.calls) and any(c.name == "unlink_lane" for b in rt.closures_of(rl.defpath) for c in b.calls), "remove_lane/unlink-each-remote", where(rl),
                "remove_lane unlinks every remote that was linked to the lane")

    with ctx.rule("C04.R7", "T8", "one writer token per remote: RemoteSender / WriteTask are not Clone", floor=3) as r:
        for adt in ("remotes::RemoteSender", "write_fut::WriteTask", "uplink::Uplinks"):
            r.check(rt.implements(adt, "core::clone::Clone") is None, adt.split("::")[-1] + "/not-Clone", "-", "%s is not Clone" % adt, "%s implements Clone: frames of one remote are no longer totally ordered" % adt)
        a = rt.adt("uplink::Uplinks")
        fl = dict((f[0], f[1]) for f in a["variants"][0]["fields"])
        r.check(fl.get("writer", "").startswith("core::option::Option<(") and "RemoteSender" in fl.get("writer", ""), "Uplinks/writer-type", "-", "writer: %s" % fl.get("writer"))

    with ctx.rule("C04.R8", "T2", "events are only sent to linked remotes; a targeted response links implicitly first", floor=4) as r:
        he = ctx.saw(rt.fn(name="handle_event", self_adt="task::WriteTaskState"))
        lf = [c for c in he.calls if c.is_method("links::Links", "linked_from")]
        r.check(len(lf) == 1, "handle_event/targets-from-links", where(he), "broadcast targets come from links.linked_from(id)")
        zero = aggregates(he, "task::Writes", "Zero")
        r.check(any(any(d.startswith("linked_from(") or "linked_from" in d and l == "None" for d, l, _ in dom_guards(he, z[0])) for z in zero), "handle_event/no-links=>discard", where(he),
                "an event for a lane without links is discarded (Writes::Zero)")
        sp, pws = uplinks.implicit_link_rule(r, ctx, rt, he)
        wn = ctx.saw(rt.fn(name="next", self_adt="task::Writes"))
        r.check(True, "Writes::next/present", where(wn), "Writes::next analysed")
        for si in wn.switches_on(lambda p, si: si["kind"] == "disc" and (si.get("adt") or "").endswith("task::Writes")):
            pass
        two = [i for i, j, p, rv, line in wn.assigns() if rv[0] == "agg" and rv[1].get("adt", "").endswith("task::Writes") and rv[1].get("variant") == "Single"]
        for i in two:
            g = dom_guards(wn, i)
            if any(l == "Two" for d, l, _ in g):
                for ii, jj, p, rv, line in wn.assigns():
                    if ii == i and rv[0] == "agg" and rv[1].get("variant") == "Single":
                        d = describe_operand(wn, rv[2][0])
                        r.check(d.endswith("<Two>.1"), "Writes::next/first-then-second", wn.loc(line), "Two(a, b) yields a and keeps b (%s)" % d, "Two(a, b) keeps %s: the pair is yielded in the wrong order" % d)

    with ctx.rule("C04.R9", "T5", "named arguments are passed in their parameters' positions (no two flags or ids change places at a call site)", floor=20) as r:
        named_argument_rule(ctx, r, [("swimos_runtime", "swimos_runtime::agent::task")], allow={})

    with ctx.rule("C04.R10", "T1+T7", "every frame is addressed with the lane it belongs to (sender state set per frame)", floor=7) as r:
        uplinks.frame_lane_name(r, ctx)

    with ctx.rule("C04.R11", "T3", "the link relation (which remote is linked to which lane) is changed in both of its indexes and read with the ids in their roles", floor=8) as r:
        LK = "links::Links"
        ins = ctx.saw(rt.fn(name="insert", self_adt=LK))
        fw = [c for c in ins.calls if c.name == "entry" and ".forward" in describe_operand(ins, c.args[0])]
        bw = [c for c in ins.calls if c.name == "entry" and ".backwards" in describe_operand(ins, c.args[0])]
        r.check(len(fw) == 1 and len(bw) == 1 and ins.must_pass([0], {bw[0].block})[0] and ins.must_pass([0], {fw[0].block})[0], "insert/both-indexes", where(ins), "insert records the link in forward and backwards on every path",
                "insert can record a link in one index only: is_linked and the prune logic then disagree about it")
        if fw and bw:
            r.check(describe_operand(ins, fw[0].args[1]) == "lane_id" and describe_operand(ins, bw[0].args[1]) == "remote_id", "insert/index-keys", where(ins), "forward is keyed by the lane, backwards by the remote",
                    "forward is keyed by %s, backwards by %s" % (describe_operand(ins, fw[0].args[1]), describe_operand(ins, bw[0].args[1])))
        rem = ctx.saw(rt.fn(name="remove", self_adt=LK))
        fwr = [c for c in rem.calls if c.name == "remove" and "LaneLinks" in c.defpath]
        bwr = [c for c in rem.calls if c.name == "remove" and "HashSet" in c.defpath]
        fe = [c for c in rem.calls if c.name == "entry" and ".forward" in describe_operand(rem, c.args[0])]
        be = [c for c in rem.calls if c.name == "entry" and ".backwards" in describe_operand(rem, c.args[0])]
        # the lane's forward entry is looked up by the lane id (entry / get_mut / ..) and the remote taken out of it whenever the entry exists
        fe = [c for c in rem.calls if c.name in ("entry", "get_mut") and describe_operand(rem, c.args[0]).lstrip("&").replace("mut ", "").endswith(".forward")]
        fg = dom_guards(rem, fwr[0].block) if fwr else []
        r.check(len(fwr) == 1 and len(fe) == 1 and describe_operand(rem, fe[0].args[1]) == "lane_id" and "remote_id" in describe_operand(rem, fwr[0].args[1]) and "self.forward" in describe_operand(rem, fwr[0].args[0]) and
                len(fg) == 1 and fg[0][1] in ("Occupied", "Some") and "self.forward" in fg[0][0],
                "remove/forward-updated", where(rem), "remove takes the remote out of the lane's forward entry whenever that entry exists", "remove does not (always) delete the remote from forward[lane]: the unlinked remote keeps receiving the lane's events")
        r.check(len(bwr) == 1 and len(be) == 1 and describe_operand(rem, be[0].args[1]) == "remote_id" and "lane_id" in describe_operand(rem, bwr[0].args[1]) and rem.must_pass([0], {be[0].block})[0],
                "remove/backwards-updated", where(rem), "remove takes the lane out of the remote's backwards entry whenever that entry exists", "remove does not (always) delete the lane from backwards[remote]")
        rr = ctx.saw(rt.fn(name="remove_remote", self_adt=LK))
        bwx = [c for c in rr.calls if c.name == "remove" and "HashMap" in c.defpath and ".backwards" in describe_operand(rr, c.args[0])]
        r.check(len(bwx) == 1 and (bwx[0].block == 0 or rr.must_pass([0], {bwx[0].block})[0]) and rr.root_name(rr.resolve(op_place(bwx[0].args[1]))) in ("id", "remote_id") if bwx and op_place(bwx[0].args[1]) else False,
                "remove_remote/backwards-removed", where(rr), "remove_remote deletes the remote's backwards entry")
        llr = [c for b in [rr] + list(rt.closures_of(rr.defpath)) for c in b.calls if c.name == "remove" and "LaneLinks" in c.defpath]
        r.check(len(llr) >= 1, "remove_remote/forward-updated", where(rr), "remove_remote takes the remote out of the forward entry of every lane it was linked to", "remove_remote leaves the remote in the lanes' forward entries: a detached remote is still broadcast to")
        rl = ctx.saw(rt.fn(name="remove_lane", self_adt=LK))
        bodies = [rl] + list(rt.closures_of(rl.defpath))
        bwl = [c for b in bodies for c in b.calls if c.name in ("remove", "get_mut", "entry") and any("backwards" in describe_operand(b, a) for a in c.args[:1])]
        r.check(bool(bwl), "remove_lane/backwards-updated", where(rl), "remove_lane also takes the lane out of its remotes' backwards entries", "remove_lane leaves the lane in the remotes' backwards entries")
        # a remote's backwards entry lists *all* lanes it is linked to: when one link goes (an unlink, a failed lane) the entry may be deleted only
        # once it is empty - otherwise the remote looks idle although it still has links, is pruned, and its other links end without `unlinked`
        for fb, nm_ in ((rem, "remove"), (rl, "remove_lane")):
            for bb in [fb] + list(rt.closures_of(fb.defpath)):
                for c in bb.calls:
                    whole = (c.name in ("remove", "remove_entry") and "HashMap" in (c.defpath or "") and c.args and "backwards" in describe_operand(bb, c.args[0])) or \
                            (c.name in ("remove", "remove_entry") and "OccupiedEntry" in (c.defpath or "") and c.args and "backwards" in describe_operand(bb, c.args[0]))
                    if not whole:
                        continue
                    emp = any(d.startswith("is_empty(") and l == "true" for d, l, _ in dom_guards(bb, c.block))
                    r.check(emp, "%s/backwards-entry-deleted-only-when-empty" % nm_, c.loc(), "the remote's entry in the backwards index is deleted only when no lane is left in it",
                            "%s deletes the remote's whole backwards entry without testing that it is empty: a remote that is still linked to other lanes no longer has links as far as linked_to / the idle check "
                            "can see - it is pruned (its channel closed) while links are open, and no `unlinked` is ever sent for them" % nm_)
        il = ctx.saw(rt.fn(name="is_linked", self_adt=LK))
        g = [c for c in il.calls if c.name == "get"]
        cn = [c for b in [il] + list(rt.closures_of(il.defpath)) for c in b.calls if c.name == "contains"]
        r.check(len(g) == 1 and ".forward" in describe_operand(il, g[0].args[0]) and "lane_id" in describe_operand(il, g[0].args[1]) and len(cn) == 1, "is_linked/forward[lane].contains(remote)", where(il),
                "is_linked(remote, lane) looks the remote up in the lane's forward entry", "is_linked no longer reads forward[lane_id]")
        lf = ctx.saw(rt.fn(name="linked_from", self_adt=LK))
        r.check(any(c.name == "get" and ".forward" in describe_operand(lf, c.args[0]) for c in lf.calls), "linked_from/reads-forward", where(lf), "the broadcast targets of a lane come from the forward index")

    with ctx.rule("C04.R12", "T3", "a frame recorded for a link while the remote's writer is busy is scheduled (shared queue discipline of Uplinks, C01.R5)", floor=20) as r:
        # `synced` answers a sync request exactly once: a marker recorded on the lane's uplink entry must put the lane into the write queue, or the
        # request is never answered on this link and the stale marker produces a `synced` nobody asked for on a later one
        uplinks.queued_flag_discipline(r, ctx)

    with ctx.rule("C04.R13", "T2", "the sender lent out of Uplinks.writer always comes back: as a WriteTask or into the slot (shared with C01.R7)", floor=4) as r:
        # a sender that is dropped leaves the remote attached and linked while nothing is ever written to it again (F61)
        uplinks.writer_token(r, ctx)

    with ctx.rule("C04.R14", "T2", "a lane event is handed to every remote linked to the lane, whether or not an earlier remote's writer is busy", floor=2) as r:
        _rt = ctx.crate("swimos_runtime")
        _he = ctx.saw(_rt.fn(name="handle_event", self_adt="task::WriteTaskState"))
        uplinks.broadcast_visits_every_target(r, ctx, _rt, _he)

    with ctx.rule("C04.R15", "T5", "a failing lane is reported as a failed lane (so that its links are released), a failing store as a failed store", floor=4) as r:
        # ResponseReceiver::poll_next turns an error of an item's response channel into Failed::Lane(id) or Failed::Store(id). Only Failed::Lane
        # reaches WriteTaskState::remove_lane, which drops the lane's links, corrects the counts and sends `unlinked`; Failed::Store is only logged.
        import re as _re
        _rt = ctx.crate("swimos_runtime")
        pn = [b for b in _rt.all_bodies() if "receiver::ResponseReceiver" in b.defpath and b.defpath.endswith("poll_next")]
        if len(pn) != 1:
            raise AnchorMissing("ResponseReceiver::poll_next")
        pn = ctx.saw(pn[0])
        tab = {}
        for i, j, p_, rv, line in pn.assigns():
            m_ = _re.match(r"^Failed::(Lane|Store)\(", describe_rvalue(pn, rv))
            if m_:
                for dd, l, _ in dom_guards(pn, i):
                    if dd.startswith("disc(get_mut(self)") and dd.endswith("))") and l in ("ValueLikeLane", "MapLane", "SupplyLane", "ValueStore", "MapStore"):
                        tab.setdefault(l, set()).add(m_.group(1))
        kinds = [v["name"] for v in _rt.adt("receiver::ResponseReceiver")["variants"]]
        for k_ in kinds:
            want = "Store" if k_.endswith("Store") else "Lane"
            r.check(tab.get(k_) == {want}, "ResponseReceiver::poll_next/%s=>Failed::%s" % (k_, want), where(pn), "an error of a %s is reported as Failed::%s" % (k_, want),
                    "an error of a %s is reported as %s: %s" % (k_, sorted("Failed::" + x for x in tab.get(k_, ())) or "nothing",
                        "the lane's links are never released - its reporter keeps the old count, the aggregate stays too high and the linked remotes are never sent `unlinked`" if want == "Lane" else "a store failure would tear down a lane with the same id"))



