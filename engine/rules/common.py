"""Helpers shared by the rule packs."""
from mirlib import (AnchorMissing, _suffix_match, const_value, decision_paths, is_bare, op_const, op_place,
                    path_str, place_fields)


def where(body, line=None):
    return body.loc(line)


def short(defpath):
    return defpath.replace("swimos_runtime::", "rt::").replace("swimos_agent::", "ag::")


def callers_in_crate(crate, pred):
    """[(Body, Call)] for every call in the crate satisfying pred (index pre-filter on callee def)."""
    out = []
    for e in crate.index:
        if "promoted" in e:
            continue
        b = None
        for d in e.get("callees", ()):
            pass
        b = crate.body(e)
        for c in b.calls:
            if pred(c):
                out.append((b, c))
    return out


def callers_by_name(crate, name, self_adt=None, fn_suffix=None):
    """All (body, call) in the crate calling a function with simple name `name`."""
    out = []
    needle = "::" + name
    for e in crate.index:
        if "promoted" in e:
            continue
        if not any(d.endswith(needle) or d == name for d in e.get("callees", ())):
            continue
        b = crate.body(e)
        for c in b.calls:
            if c.name != name:
                continue
            if self_adt is not None and not _suffix_match(c.self_adt, self_adt):
                continue
            if fn_suffix is not None and not c.is_fn(fn_suffix):
                continue
            out.append((b, c))
    return out


def owner_def(body):
    """Def path of the enclosing named function for closures / coroutine bodies."""
    o = body.meta.get("owner")
    return o["def"] if o else body.defpath


def aggregates(body, adt_suffix, variant=None):
    """(block, idx, operands, line) for every construction of the ADT (variant) in the body."""
    out = []
    for i, j, p, rv, line in body.assigns():
        if rv[0] == "agg" and "adt" in rv[1] and _suffix_match(rv[1]["adt"], adt_suffix):
            if variant is None or rv[1]["variant"] == variant:
                out.append((i, j, rv[2], line, rv[1]["variant"], p))
    return out


def crate_aggregates(crate, adt_suffix, variant=None):
    out = []
    for b in crate.all_bodies():
        for a in aggregates(b, adt_suffix, variant):
            out.append((b, a))
    return out


def field_writes(body, adt_suffix, field):
    """Assignments whose destination place ends in field `field` of ADT: (block, idx, rvalue, line)."""
    out = []
    for i, j, p, rv, line in body.assigns():
        fe = [x for x in p[1] if isinstance(x, list) and x[0] == "f"]
        if fe and fe[-1][2] == field and _suffix_match(fe[-1][3] if len(fe[-1]) > 3 else "", adt_suffix):
            # only direct writes to the field itself (not to a sub-field)
            last = p[1][-1]
            if isinstance(last, list) and last[0] == "f" and last[2] == field:
                out.append((i, j, rv, line))
    return out


def calls_on_field(body, adt_suffix, field, names=None):
    """Calls whose receiver (arg 0) resolves to a path through field `field` of ADT."""
    out = []
    for c in body.calls:
        if names is not None and c.name not in names:
            continue
        p = c.arg_path(0)
        if p is not None and p.has_field(adt_suffix, field):
            out.append(c)
    return out


def cast_chain(body, operand, hops=8):
    """[(cast kind, target type)] applied, innermost last, on the way from the value's origin to `operand`
    (follows single-definition copies)."""
    from mirlib import op_place
    out = []
    op = operand
    while hops > 0:
        hops -= 1
        p = op_place(op)
        if p is None or p[1]:
            break
        d = body.single_def(p[0])
        if d is None or d[0] != "assign":
            break
        rv = d[3]
        if rv[0] == "use":
            op = rv[1]
        elif rv[0] == "cast":
            out.append((rv[1], rv[3]))
            op = rv[2]
        else:
            break
    return out


def bool_const_sources(body, operand):
    return [s[1] for s in body.const_sources(operand) if isinstance(s[1], bool)]


# ---- T9 panic audit -------------------------------------------------------------------------

PANIC_FNS = ("core::panicking::", "std::rt::begin_panic", "core::option::unwrap_failed", "core::option::expect_failed",
             "core::result::unwrap_failed", "core::slice::index::slice_", "core::str::slice_error_fail",
             "alloc::raw_vec::capacity_overflow")
PANIC_METHODS = {"unwrap", "expect", "unwrap_err", "expect_err", "unwrap_unchecked", "unreachable_unchecked"}


def panic_sites(body, include_index=True):
    """Potential panic sites of a body: (kind, description, line, block). Arithmetic-overflow
    asserts are excluded (they do not exist in release builds)."""
    from mirlib import describe_call
    out = []
    for c in body.calls:
        d = c.defpath
        if any(d.startswith(p) for p in PANIC_FNS):
            out.append(("panic", d.split("::")[-1], c.line, c.block))
        elif c.name in PANIC_METHODS and (d.startswith("core::option::Option") or d.startswith("core::result::Result")):
            out.append((c.name, describe_call(body, c)[:120], c.line, c.block))
        elif include_index and c.via_name in ("index", "index_mut") and (c.trait or "").endswith("ops::index::Index" if c.via_name == "index" else "ops::index::IndexMut"):
            t = c.callee.get("self_ty") or c.callee.get("arg0_ty") or ""
            if "HashMap" in t or "BTreeMap" in t or t.startswith("[") or "Vec<" in t or "str" == t or "String" in t or "Bytes" in t or "VecDeque" in t:
                out.append(("index", describe_call(body, c)[:120], c.line, c.block))
        elif c.name in ("split_to", "split_off", "advance", "copy_from_slice", "copy_to_slice", "get_u8", "get_u16", "get_u32", "get_u64", "get_u128", "get_i64", "get_i32", "get_f64", "copy_to_bytes", "remove", "swap_remove", "insert") and False:
            pass
    for i, bl in enumerate(body.blocks):
        if bl.get("cleanup"):
            continue
        t = bl["t"]
        if t["k"] == "assert":
            m = t.get("msg", "")
            if m.startswith("Overflow") or m in ("OverflowNeg",):
                continue
            out.append(("assert:" + m, "", t["line"], i))
    return out



def named_argument_rule(ctx, r, scopes, allow=()):
    """Shared discipline (added after seed C08-2): at a call of a crate-local function, a *named* argument (a variable or a field
    path such as `config.terminate_on_unlinked`) whose name is the name of a different parameter of the callee has changed places
    with it. `scopes` = [(crate name, def-path prefix)]. `allow` = {(callee name, argument name): reason}.
    Evaluated per call site that passes at least one argument carrying a parameter's name."""
    import re
    from mirlib import describe_operand
    ident = re.compile(r"^[A-Za-z_][A-Za-z0-9_.]*$")
    n = 0
    for cname, pref in scopes:
        crate = ctx.crate(cname)
        by_def = {b.defpath: b for b in crate.all_bodies()}
        for b in crate.all_bodies():
            if pref not in b.defpath or "::tests" in b.defpath:
                continue
            for c in b.calls:
                cal = by_def.get(c.defpath)
                if cal is None or cal.argc < 2 or c.exp:
                    continue
                pn = [cal.var_name(i) for i in range(1, cal.argc + 1)]
                named, bad = [], []
                for k, a in enumerate(c.args[:cal.argc]):
                    d = describe_operand(b, a)
                    if not ident.match(d) or not pn[k] or pn[k] == "self":
                        continue
                    an = d.split(".")[-1]
                    if an in pn:
                        named.append(an)
                        if an != pn[k] and (c.name, an) not in allow:
                            bad.append((k, d, pn[k], an))
                if not named:
                    continue
                n += 1
                fn = b.defpath.split("::{")[0].split("::")[-1]
                if bad:
                    k, d, p_, an = bad[0]
                    r.bad("%s/%s/arg-%s" % (fn, c.name, p_), c.loc(), "`%s` is passed for parameter `%s` of %s, which also has a parameter `%s`: the arguments have changed places at this call site" % (d, p_, c.name, an))
                else:
                    r.ok("%s/%s/%s" % (fn, c.name, "+".join(named)), c.loc(), "named arguments are in their parameters' positions")
    return n


def id_allocation_rule(r, ctx):
    """The persistent stores hand every (agent, item) name a numeric id under which its state is written and restored. In
    swimos_rocks_store::KeyStore::id_for the counter is persisted (merge) before the name -> id mapping is written, a failed merge writes nothing,
    the id written is the freshly allocated one and allocation happens only for unknown names. Shared by C13 (isolation) and C05 (a restarted
    lane comes back with its own last state, not another item's)."""
    from mirlib import describe_rvalue, dom_guards
    rs = ctx.crate("swimos_rocks_store")
    b = ctx.saw(rs.fn(name="id_for", self_adt="keystore::KeyStore"))
    mg = [c for c in b.calls if c.via_name == "merge_keyspace"]
    pt = [c for c in b.calls if c.via_name == "put_keyspace"]
    fa = [c for c in b.calls if c.name == "fetch_add"]
    if len(mg) != 1 or len(pt) != 1 or len(fa) != 1:
        raise AnchorMissing("KeyStore::id_for: merge_keyspace/put_keyspace/fetch_add sites")
    te = b.try_edges(mg[0])
    r.check(te is not None and b.dominates(te[0], pt[0].block), "id_for/merge-before-put", mg[0].loc(), "merge_keyspace(COUNTER)? dominates put_keyspace(name -> id): a crash in between wastes an id, never reuses one",
            "the name mapping can be written before / without the counter being persisted: after a crash the same id is handed to another name")
    r.check(te is not None and not (b.reachable_from([te[1]]) & {pt[0].block}), "id_for/merge-error-propagates", mg[0].loc(), "a failed merge returns without writing the mapping")
    src = b.sources(pt[0].args[3], stop_at_calls=False)
    r.check(any(s[0] == "call" and s[1] is fa[0] for s in src) and not any(s[0] == "call" and s[1].via_name == "get_keyspace" for s in src), "id_for/id-from-fetch_add", pt[0].loc(),
            "the id written is the one obtained from count.fetch_add (never a re-read of the store)")
    g = dom_guards(b, fa[0].block)
    r.check(any(d.startswith("disc(") and "get_keyspace" in d and l == "None" for d, l, _ in g), "id_for/allocate-only-if-unknown", fa[0].loc(), "a new id is allocated only when the name has no mapping",
            "an id can be allocated although the name is already mapped: the identifier of a name changes")
    ret = [describe_rvalue(b, rv) for i, j, p, rv, line in b.assigns() if p[0] == 0 and not p[1]]
    r.check(True, "id_for/analysed", where(b), "returns %s" % ret[:2])
    # the persisted counter is a RocksDB merge key: the operator is registered as associative, so RocksDB also applies it to operands alone (a flush
    # or compaction folds several increments into ONE operand holding their sum). The operator must therefore add up what the operands *contain*
    mo = [x for x in rs.all_bodies() if x.defpath.endswith("keystore::rocks::incrementing_merge_operator")]
    if len(mo) != 1:
        raise AnchorMissing("keystore::rocks::incrementing_merge_operator")
    mo = ctx.saw(mo[0])
    outs = [c for c in mo.calls if c.name.startswith("serialize_u64")]
    if len(outs) != 1:
        raise AnchorMissing("incrementing_merge_operator: expected one serialisation of the result, found %d" % len(outs))
    src = mo.sources(outs[0].args[0], stop_at_calls=False)
    des = [s[1] for s in src if s[0] == "call" and s[1].name.startswith("deserialize_u64")]
    from_existing = [c for c in des if any(s[0] == "arg" and s[1] == 2 for s in mo.sources(c.args[0], stop_at_calls=False))]
    from_operands = [c for c in des if any(s[0] == "arg" and s[1] == 3 for s in mo.sources(c.args[0], stop_at_calls=False))]
    if not from_operands and any(s[0] == "call" and s[1].name in ("sum", "fold", "reduce") for s in src) and any(s[0] == "arg" and s[1] == 3 for s in src):
        # iterator form: operands.iter().map(|op| deserialize(op)).sum()
        # (map(|op| decode(op)).sum(), or fold(base, |acc, op| acc + decode(op)): the operand is one of the closure's own parameters)
        for cb in rs.closures_of(mo.defpath):
            from_operands += [c for c in cb.calls if c.name.startswith("deserialize_u64") and any(s[0] == "arg" and s[1] >= 2 for s in cb.sources(c.args[0], stop_at_calls=False))]
    adds_in_closure = any(rv[0] == "bin" and rv[1] in ("Add", "AddWithOverflow", "AddUnchecked") for cb in rs.closures_of(mo.defpath) for i, j, p_, rv, line in cb.assigns()) \
        or any(c.name in ("wrapping_add", "checked_add", "saturating_add") for cb in rs.closures_of(mo.defpath) for c in cb.calls)
    adds = (adds_in_closure and any(s[0] == "call" and s[1].name in ("fold", "reduce") for s in src)) or any(s[0] == "bin" and s[1] in ("Add", "AddWithOverflow", "AddUnchecked") for s in src) or any(s[0] == "call" and s[1].name in ("wrapping_add", "checked_add", "saturating_add", "sum") for s in src)
    r.check(bool(from_existing), "merge-operator/starts-from-the-stored-value", where(mo), "the result starts from the decoded existing value",
            "the merged counter does not depend on the stored value: the counter restarts and ids already handed out are reused")
    r.check(bool(from_operands) and adds, "merge-operator/adds-the-decoded-operands", outs[0].loc(), "every operand is decoded and added",
            "the merged counter does not add the decoded contents of its operands (e.g. it counts them): after RocksDB has folded several increments into one operand "
            "(flush on reopen) the counter falls behind, and ids that belong to existing items are handed to new names")
    reg = [c for x in rs.all_bodies() for c in x.calls if c.name in ("set_merge_operator_associative", "set_merge_operator") and "::tests" not in x.defpath]
    r.check(len(reg) >= 1, "merge-operator/registered", reg[0].loc() if reg else "-", "the operator is registered with the counter's column family (%s)" % sorted({c.name for c in reg}))


def ty_of(body, operand):
    """Type (as the compiler prints it) of the local an operand names, references stripped; '' when it is not a plain local."""
    from mirlib import op_place
    pl = op_place(operand)
    if pl is None or [x for x in pl[1] if x != "*"]:
        return ""
    t = body.locals[pl[0]] if pl[0] < len(body.locals) else ""
    while t.startswith("&"):
        t = t[1:].lstrip()
        if t.startswith("mut "):
            t = t[4:]
    return t



def locals_of_type(body, pred):
    """User-bound locals (let, pattern, parameter - not compiler temporaries) whose type, references stripped, satisfies `pred` (a substring or a predicate)."""
    out = []
    for l in sorted(body.user_locals):
        t = body.locals[l] if l < len(body.locals) else ""
        while t.startswith("&"):
            t = t[1:].lstrip()
            if t.startswith("mut "):
                t = t[4:]
        if (pred in t) if isinstance(pred, str) else pred(t):
            out.append(l)
    return out


def role_by_type(body, roles, name, pred, pick=None):
    """roles[the one user local of that type] = name; several candidates -> `pick` chooses, else no role is assigned (the rule then reports the anchor)."""
    c = locals_of_type(body, pred)
    if len(c) > 1 and pick:
        c = [l for l in c if pick(l)]
    if len(c) == 1:
        roles[c[0]] = name
    return roles


def const_bool_locals(b):
    """bool locals that are only ever assigned the literals true / false: a task's own bookkeeping flags (whatever they are called)"""
    out = {}
    for loc, ds in b.defs.items():
        if loc < len(b.locals) and b.locals[loc] == "bool" and ds and all(d[0] == "assign" and d[3][0] == "use" and d[3][1][0] == "k" and d[3][1][1].get("b") in (True, False) for d in ds):
            if {d[3][1][1].get("b") for d in ds} == {True, False}:
                out[loc] = ds
    return out


def guard_flags(b, block, label="true"):
    """the constant-only bool flags tested (with the given outcome) on the way to `block`"""
    from mirlib import dom_guards, op_place
    flags = const_bool_locals(b)
    out = []
    for d, l, sb in dom_guards(b, block):
        if l != label:
            continue
        pl = op_place(b.term(sb).get("discr"))
        if pl is None:
            continue
        root = b.copy_root(pl)
        if root in flags and root not in out:
            out.append(root)
    return out


def assign_roles_by_type(body, table):
    """Every user-bound local whose type satisfies a predicate of `table` ([(name, pred)]) is given that canonical name (several locals may share one:
    `a State-typed variable`). The source's own names are dropped for them, so rules written against these names survive any renaming."""
    roles = {}
    for name, pred in table:
        for l in locals_of_type(body, pred):
            roles.setdefault(l, name)
    if roles:
        body.assign_roles(roles)
    return roles


def return_locals(b, hops=6):
    """the return place and the locals whose value is moved into it (`break Ok(None)` assigns the loop's result, which is then returned): a value
    built for them is an answer of the function - unlike the same-looking result of a helper that was spliced in, which the caller still examines"""
    ret = {0}
    for _ in range(hops):
        for i, j, p_, rv, line in b.assigns():
            if p_[0] in ret and not p_[1] and rv[0] == "use" and rv[1][0] in ("m", "c") and not rv[1][1][1]:
                ret.add(rv[1][1][0])
    return ret


def take_and_restore_rule(r, crate, ctx, scope=lambda b: True):
    """Decoders that take their state out at the head of the loop (`match mem::take(state) { .. }`) leave the default state behind: every exit that
    asks for more input (`Ok(None)`) from a state other than the default one must put a state back first - otherwise the decoder restarts at the
    beginning of a frame in the middle of one (the bytes consumed so far are forgotten, the rest is read as a new header)."""
    from mirlib import describe_operand, describe_place, describe_rvalue
    n = 0
    for b in crate.all_bodies():
        if "::tests" in b.defpath or not scope(b):
            continue
        takes = [c for c in b.calls if c.name in ("take", "replace") and (c.defpath or "").startswith("core::mem::") and c.args]
        for tk in takes:
            held = describe_operand(b, tk.args[0]).lstrip("&")
            held = held[4:] if held.startswith("mut ") else held
            sws = [si for si in b.switches_on(lambda p_, si: True) if si.get("kind") == "disc" and b.dominates(tk.block, si["block"])]
            sws = [si for si in sws if tk.dest is not None and si.get("place") is not None and b.copy_root(si["place"]) == tk.dest[0]]
            if not sws:
                continue
            si = sws[0]
            ve = b.variant_edges(si["block"]) or {}
            adt = si.get("adt") or ""
            # the state left behind by the take: the type's Default (mem::take) - its variant is read from the Default impl when the crate has one
            default = None
            for d in crate.all_bodies():
                if d.defpath.endswith("as core::default::Default>::default") and (d.defpath.startswith("<" + adt + "<") or d.defpath.startswith("<" + adt + " as")):
                    vs = [rv[1].get("variant") for i, j, p_, rv, line in d.assigns() if rv[0] == "agg" and (rv[1].get("adt") or "") == adt]
                    ks = [describe_rvalue(d, rv) for i, j, p_, rv, line in d.assigns() if p_[0] == 0 and not p_[1]]
                    default = vs[0] if vs else (ks[0].split("::")[-1].replace("()", "") if ks else None)
            if tk.name == "replace":
                default = describe_operand(b, tk.args[1]).split("::")[-1].split("(")[0]
            if default is None or default not in ve:
                continue
            ctx.saw(b)
            assigns = {i for i, j, p_, rv, line in b.assigns() if describe_place(b, p_) == held and i != tk.block and not b.dominates(i, tk.block)}
            rl = return_locals(b)
            nones = [(i, line) for i, j, p_, rv, line in b.assigns() if describe_rvalue(b, rv).startswith("Result::Ok(Option::None") and p_[0] in rl and not p_[1]]
            fn = "%s::%s" % ((b.meta.get("self_adt") or "?").split("::")[-1], b.meta.get("name"))
            for v, t in sorted(ve.items()):
                if v in (default, "_") or t == si.get("otherwise"):
                    continue
                loops = b.reaches(t, {tk.block})
                if loops:
                    n += 1
                    w = b.path_avoiding([t], {tk.block}, avoid=assigns)
                    r.check(w is None, "%s/%s/next-iteration/state-stored" % (fn, v), b.loc(), "the %s arm stores the next state before it goes round the loop" % v,
                            "the %s arm of %s can go round the loop without storing a state (path %s): the next iteration starts from %s in the middle of a frame" % (v, fn, w, default))
                k = 0
                for i, line in sorted(nones):
                    if not (b.reachable_from([t]) & {i}) and t != i:
                        continue
                    # only exits of this arm: reached without going round the loop (through the take) again
                    if b.path_avoiding([t], {i}, avoid={tk.block}) is None and t != i:
                        continue
                    k += 1
                    n += 1
                    p1 = b.path_avoiding([t], {i}, avoid=assigns | {tk.block}) if t != i else [t]
                    p2 = b.path_avoiding([i], set(b.exits()), avoid=(assigns | {tk.block}) - {i}) if p1 is not None and i not in assigns else None
                    r.check(p1 is None or p2 is None, "%s/%s/more-input#%d/state-put-back" % (fn, v, k), b.loc(line), "the %s state is stored again before the decoder asks for more input" % v,
                            "%s answers Ok(None) from the state %s without storing a state: the state taken at the head of the loop was replaced by %s, so when the rest of the frame arrives it is "
                            "decoded as the start of a new frame (every later message of the stream is lost or garbled)" % (fn, v, default))
    return n


def pop_until_exhausted_rule(r, ctx):
    """<WriteQueues as MapEventQueue>::pop (what MapLane::write_to_buffer asks for the next response): it answers None only when the queues are
    exhausted. An entry that produces nothing (an event or sync key whose entry has gone) is skipped and the next one is taken; if a skipped entry
    ended the function instead, write_to_buffer would report NoData with events still queued, the agent would drop the lane from its dirty set, and the
    queued Remove / Clear / Synced would never be written."""
    from mirlib import describe_rvalue
    ag = ctx.crate("swimos_agent")
    bs = [b for b in ag.all_bodies() if b.defpath.endswith("MapEventQueue<K, V>>::pop") and "lanes::queues::WriteQueues" in b.defpath]
    if len(bs) != 1:
        raise AnchorMissing("<WriteQueues as MapEventQueue>::pop (found %d)" % len(bs))
    b = ctx.saw(bs[0])
    inner = [c for c in b.calls if c.name == "pop" and (c.self_adt or "").endswith("queues::WriteQueues")]
    if len(inner) != 1:
        raise AnchorMissing("MapEventQueue::pop: expected one call of WriteQueues::pop, found %d" % len(inner))
    te = b.try_edges(inner[0])
    some_t = None
    if te is not None:
        some_t = te[0]
    else:
        for si in b.result_switches(inner[0]):
            ve = b.variant_edges(si["block"]) or {}
            some_t = ve.get("Some", some_t)
    if some_t is None:
        raise AnchorMissing("MapEventQueue::pop: the result of WriteQueues::pop is not examined")
    answers = {i for i, j, p_, rv, line in b.assigns() if p_[0] == 0 and not p_[1] and describe_rvalue(b, rv).startswith("Option::Some(")}
    # `if response.is_some() { break response }`: a value handed back where it is known to be Some
    from mirlib import dom_guards, describe_operand
    for i, j, p_, rv, line in b.assigns():
        if p_[0] == 0 and not p_[1] and rv[0] == "use" and rv[1][0] in ("c", "m"):
            dv = describe_operand(b, rv[1])
            for d, l, _ in dom_guards(b, i):
                if (d == "is_some(%s)" % dv and l == "true") or (d == "is_none(%s)" % dv and l == "false") or (d == "disc(%s)" % dv and l == "Some"):
                    answers.add(i)
    ok, wit = b.must_pass([some_t], answers, targets=set(b.exits()))
    # going round the loop (back to the inner pop) is the other legitimate way to leave an arm: exclude paths through the loop head
    if not ok:
        ok = b.path_avoiding([some_t], set(b.exits()), avoid=answers | {inner[0].block}) is None
    r.check(ok and len(answers) >= 1, "MapEventQueue::pop/none-only-when-exhausted", inner[0].loc(), "after an entry was taken from the queues the function answers Some(..) or takes the next entry (%d answers)" % len(answers),
            "an entry taken from the queues can end the function with None (path %s): write_to_buffer reports NoData although events are still queued, the lane leaves the dirty set and a pending Remove / Clear / Synced is never written" % (wit,))
    return b


def escape_text_rule(r, ctx):
    """swimos_model::literal::escape_text (quoted node / lane names of envelopes, quoted text and attribute names of Recon): what is not escaped is
    copied as it is. The loop runs over the characters of the text - a scan over its bytes turns every multi-byte character into one Latin-1
    character per byte (`u-umlaut` becomes two characters), which is still a valid string, so nothing downstream notices."""
    md = ctx.crate("swimos_model")
    b = ctx.saw(md.fn(suffix="literal::escape_text"))
    bodies = [b] + list(md.closures_of(b.defpath))
    it = [c for x in bodies for c in x.calls if c.name in ("chars", "char_indices") and (c.self_adt or c.callee.get("self_ty") or "") in ("str", "&str", None, "") or (c.name in ("chars", "char_indices"))]
    bytewise = [(x, c) for x in bodies for c in x.calls if c.name in ("bytes", "as_bytes", "into_bytes", "as_bytes_mut", "encode_utf16")]
    widen = [(x, c) for x in bodies for c in x.calls if c.name == "from" and "From<u8> for char" in (c.defpath or "")]
    fnrefs = "From<u8> for char" in str([blk for x in bodies for blk in x.blocks])
    r.check(bool(it) and not bytewise and not widen and not fnrefs, "escape_text/iterates-characters", where(b), "escape_text walks text.chars() and copies unescaped characters unchanged",
            "escape_text scans the text %s: every byte of a multi-byte character is written as a character of its own, so a name that needs an escape and contains a non-ASCII character is written as a different name "
            "(the envelope is still valid and is delivered to whoever is registered under the mangled name)" % ("bytewise" if bytewise or widen or fnrefs else "without iterating its characters"))
    return b



def value_origins(crate, b, operand, depth=5, _seen=None):
    """Where can the value of `operand` come from, across function boundaries within the crate? Follows copies inside the body (Body.sources), a
    captured variable to what the enclosing function put into the closure, and a parameter to the corresponding argument at every non-test call of
    the function. Returns a set of ("call", defpath) / ("const", "Adt::Variant") / ("arg", defpath#n) (a parameter whose callers are unknown) /
    ("other", text)."""
    import re as _re
    _seen = set() if _seen is None else _seen
    out = set()
    srcs = b.sources(operand)
    # a field of a parameter (`self.kind`) is a stored value: it is reported as that field, the parameter itself is not followed to the callers
    via_field = {x[1].root for x in srcs if x[0] == "field" and [e for e in x[1].elems if e[0] == "f" and not str(e[2]).startswith("upvar")]}
    for x in srcs:
        if x[0] == "arg" and x[1] in via_field:
            continue
        if x[0] == "call":
            out.add(("call", x[1].defpath or x[1].via_name or x[1].name or "?"))
        elif x[0] == "agg":
            out.add(("const", "%s::%s" % (str(x[1]).split("::")[-1], x[2])))
        elif x[0] == "const":
            out.add(("const", str(x[1])))
        elif x[0] == "field":
            pth = x[1]
            m = None
            if pth.root == 1 and pth.elems:
                fe = [e for e in pth.elems if e[0] == "f"]
                m = _re.match(r"^upvar(\d+)$", str(fe[0][2])) if fe else None
            if m and depth > 0:
                o = b.upvar_origin(int(m.group(1)))
                if o is not None and (o[0].defpath, repr(o[1])) not in _seen:
                    _seen.add((o[0].defpath, repr(o[1])))
                    out |= value_origins(crate, o[0], o[1], depth - 1, _seen)
                    continue
            fp = [e for e in pth.elems if e[0] == "f" and not str(e[2]).startswith("upvar")]
            if fp:
                out.add(("field", "%s.%s" % (str(fp[-1][1]).split("::")[-1].split("<")[0], fp[-1][2])))
        elif x[0] == "arg":
            n = x[1]
            if "{closure" in b.defpath:
                continue  # the closure's own environment: reported through its fields
            key = (b.defpath, n)
            if key in _seen or depth <= 0:
                continue
            _seen.add(key)
            found = False
            for e in crate.index:
                if "promoted" in e or b.defpath not in e.get("callees", ()) or "::tests" in e["def"] or e["def"] in crate.transparent_helpers():
                    continue
                cb = crate.body(e)
                for c in cb.calls:
                    if c.defpath == b.defpath and len(c.args) >= n:
                        found = True
                        out |= value_origins(crate, cb, c.args[n - 1], depth - 1, _seen)
            if not found:
                out.add(("arg", "%s#%d" % (b.defpath, n)))
        elif x[0] in ("bin", "un"):
            out.add(("other", x[0] + ":" + str(x[1])))
        elif x[0] == "other":
            out.add(("other", str(x[1])))
    return out


def in_variant(b, block, place, variant, gs=None):
    """Is `block` entered only while `place` (as described) holds `variant`? However the test is written: `match place { V => .. }`,
    `matches!(place, V)` / `let f = matches!(..); if f` (a hoisted flag: dom_guards adds what it implies), `place == E::V` through a derived
    PartialEq, or `place != E::V` on the false edge."""
    import re as _re
    from mirlib import dom_guards
    gs = dom_guards(b, block) if gs is None else gs
    pd = _re.escape(place)
    for d, l, _ in gs:
        if _re.match(r"^disc\(\(?\*?%s\)?\)$" % pd, d) and set(l.split("|")) == {variant}:
            return True
        m = _re.match(r"^(eq|ne)\((.*)\)$", d)
        if m and l in ("true", "false"):
            args = m.group(2)
            has_place = _re.search(r"(^|[ (&*,])%s($|[ ),])" % pd, args) is not None
            has_var = _re.search(r"::%s\(\)" % _re.escape(variant), args) is not None
            if has_place and has_var and (l == "true") == (m.group(1) == "eq"):
                return True
    return False


def implied_by_variant(b, switch_block, label, hops=4):
    """What else holds when a match finds a value that was chosen among several to be `label`: the tests common to every place where a value of that
    variant is put into the matched local (`let count_tag = if mid_operation { None } else { .. Some(tag) .. }; let Some(tag) = count_tag else {..}`:
    Some implies !mid_operation). [(description, label)]"""
    from mirlib import dom_guards, op_place
    si = b.switch_info(switch_block) or {}
    if si.get("kind") != "disc" or not si.get("place") or si["place"][1]:
        return []
    sites = []
    seen = set()

    def walk(loc, n):
        if loc in seen or n <= 0:
            return True
        seen.add(loc)
        ds = b.defs.get(loc, ())
        if not ds:
            return False
        for d in ds:
            if d[0] != "assign":
                return False
            rv = d[3]
            if rv[0] == "agg" and isinstance(rv[1], dict) and "variant" in rv[1]:
                if rv[1]["variant"] == label:
                    sites.append(d[1])
            elif rv[0] == "use" and rv[1][0] in ("c", "m") and not rv[1][1][1]:
                if not walk(rv[1][1][0], n - 1):
                    return False
            else:
                return False
        return True
    if not walk(si["place"][0], hops) or not sites:
        return []
    common = None
    for blk in sites:
        gs = {(d, l) for d, l, _ in dom_guards(b, blk)}
        common = gs if common is None else (common & gs)
    return sorted(common or ())


def answers_only_with(b, call_name):
    """Does the function answer on every path with the result of one call of `call_name` - nothing else decides its result (no fast path that
    answers by other means, no post-processing)? Returns (ok, reason)."""
    from mirlib import describe_operand
    calls = [c for c in b.calls if c.name == call_name]
    if len(calls) != 1:
        return False, "%d calls of %s" % (len(calls), call_name)
    c = calls[0]
    ok, wit = b.must_pass([0], {c.block})
    if not ok:
        return False, "a path answers without calling %s (blocks %s)" % (call_name, (wit or [])[:8])
    for i, j, p_, rv, line in b.assigns():
        if p_[0] == 0 and not p_[1]:
            srcs = b.sources(rv[1]) if rv[0] == "use" else None
            if srcs is None or not all(x[0] == "call" and x[1] is c for x in srcs if x[0] in ("call", "const", "bin", "un", "agg")) or not any(x[0] == "call" and x[1] is c for x in srcs):
                return False, "the result is also computed by other means (line %s)" % line
    if c.dest is not None and c.dest[0] == 0:
        return True, ""
    return True, ""


def in_execution_order(b, calls):
    """Calls that lie on one path, in the order they execute (block numbers say nothing once a helper has been spliced in): sorted by how many of
    the others reach them."""
    cs = list(calls)
    def rank(c):
        return sum(1 for o in cs if o is not c and (b.dominates(o.block, c.block) and o.block != c.block or (o.block != c.block and b.reaches(o.block, {c.block}) and not b.reaches(c.block, {o.block}))))
    return sorted(cs, key=lambda c: (rank(c), c.block))


def callback_calls(crate, b):
    """Calls made *on behalf of* body b at a higher-order call site: [(site block, Call-like)] for (1) the calls inside a closure that b builds and
    hands to that call (`iter.for_each(|q| q.remove(key))`), and (2) a function passed by name (`for_each(SyncQueue::clear)`), represented by a Call
    whose callee is that function and whose arguments are unknown. The block is the block of the higher-order call in b, so guards and dominance are
    those of the place where the callback is handed over."""
    from mirlib import Call, op_place
    out = []
    clos = {cb.defpath: cb for cb in crate.closures_of(b.defpath)}
    for c in b.calls:
        for a in c.args:
            if a[0] == "k" and isinstance(a[1], dict) and isinstance(a[1].get("fn"), dict):
                out.append((c.block, Call(b, c.block, {"callee": a[1]["fn"], "args": [], "dest": None, "t": None, "u": None, "line": c.line})))
            pl = op_place(a)
            if pl is None:
                continue
            for df in b.defs.get(pl[0], ()):
                if df[0] == "assign" and df[3][0] == "agg" and df[3][1].get("closure") in clos:
                    for x in clos[df[3][1]["closure"]].calls:
                        out.append((c.block, x))
    return out


def success_edge(b, call, variant=None):
    """The block entered when the result of `call` (an Option / Result) holds a value - however it is examined: `match`, `if let`, `let else`, `?`."""
    for si in b.result_switches(call):
        ve = b.variant_edges(si["block"]) or {}
        for v in ([variant] if variant else ["Some", "Ok"]):
            if v in ve:
                return ve[v]
    te = b.try_edges(call)
    if te is not None:
        return te[0]
    return None


def guards_with_sources(b, block, control=False):
    """[(description, label, switch block, text)]: the tests that hold at `block` together with a text naming what flows into the tested value (the
    calls with their arguments, fields and constants it is computed from). A value that is chosen among several (the result of a spliced helper with an
    early return, a hoisted `let`) has no description of its own; what it was computed from says what the test is about."""
    from mirlib import guards, dom_guards, describe_operand
    out = []
    for d, l, sb in (guards(b, block) if control else dom_guards(b, block)):
        t = b.term(sb)
        txt = [d]
        if t.get("k") == "switch":
            for x in b.sources(t["discr"], stop_at_calls=False):
                if x[0] == "call":
                    c = x[1]
                    txt.append("%s(%s)" % (c.via_name or c.name or "?", ", ".join(describe_operand(b, a) for a in c.args)))
                elif x[0] in ("field", "const"):
                    txt.append(str(x[1]))
        out.append((d, l, sb, " ".join(txt)))
    return out


def guard_mentions(b, block, needles, control=True):
    """Does the execution of `block` depend on a test that involves one of `needles` (substrings of field / function names)? Looks at the
    description of every controlling test and - for a test of a hoisted value (`let dispatch = cfg.flag || state == X; if dispatch {..}`) - at
    what flows into the tested value."""
    from mirlib import guards, dom_guards, describe_operand
    gs = guards(b, block) if control else dom_guards(b, block)
    for d, l, sb in gs:
        if any(n in d for n in needles):
            return True
        t = b.term(sb)
        if t.get("k") != "switch":
            continue
        for x in b.sources(t["discr"], stop_at_calls=False):
            if x[0] == "call":
                c = x[1]
                txt = (c.name or "") + " " + " ".join(describe_operand(b, a) for a in c.args)
                if any(n in txt for n in needles):
                    return True
            elif x[0] == "field":
                if any(n in str(x[1]) for n in needles):
                    return True
            elif x[0] == "const":
                if any(n in str(x[1]) for n in needles):
                    return True
    return False
