"""C16 Form: typed, model and wire representations agree - necessary structural conditions only."""
import collections
import os
import re

from mirlib import op_place, AnchorMissing, describe_operand, describe_place, describe_rvalue, dom_guards, _suffix_match
from rules.common import where, in_variant, return_locals

META = {
    "explanation": (
        "C16 is a law over values of every Form type and is NOT decided. Decided are table agreements between the hand-written halves of the "
        "conversion paths, each necessary for the law: R1 the MessagePack reader's three marker dispatchers handle every marker the writer's encoders can "
        "emit, read each marker's payload with the getter of that marker's width, and agree with one another; R2 each PrimitiveWriter method of the "
        "MessagePack writer uses the encoder family of its kind and the reader turns that family back into the same kind of event; R3 big integers: "
        "distinct extension codes used alike on both sides, the sign byte tables are inverse (the non-negative code must read back as Sign::Plus), "
        "payload lengths agree; R4 record framing: attribute count once, body kind -> map/array header, slot pair marker; R5 every integer recogniser "
        "accepts all four integer event kinds and the float recogniser all five (the text parser, the model bridge and the MessagePack reader produce "
        "different kinds for the same number); R6 every PrimitiveWriter implementation maps each write method to the same kind (bridge event kinds, model "
        "Value variants), and Value::write_with followed by the model builder is the identity on kinds. R12 collection recognisers reset an element recogniser after every element; R13 every form of an absent delegated body that a writer produces is accepted by the reader; R10 also: on a tie the record form wins."
        " R17 FirstOf::feed_event: the second alternative's result is the answer only when the first did not complete with a value; R18 (= C09.R1d) a #[form(body)] value inside an attribute is printed inside the parenthesis already open."
),
    "does_not_decide": "the law itself for derived types and every value (the derive macro's two generated paths are not analysed: the workspace holds too few expansions, DESIGN 9.6); "
                       "value-level round trips of floats, texts and nested records",
}

MP = "swimos_msgpack"
F = "swimos_form"

INT_M = ["FixPos", "FixNeg", "I8", "I16", "I32", "I64", "U8", "U16", "U32", "U64"]
FLOAT_M = ["F32", "F64"]
STR_M = ["FixStr", "Str8", "Str16", "Str32"]
BIN_M = ["Bin8", "Bin16", "Bin32"]
MAP_M = ["FixMap", "Map16", "Map32"]
ARR_M = ["FixArray", "Array16", "Array32"]
EXT_M = ["FixExt1", "FixExt2", "FixExt4", "FixExt8", "FixExt16", "Ext8", "Ext16", "Ext32"]
# what the rmp 0.8 encoders can emit (documented behaviour of the library, frozen here)
EMITS = {
    "write_nil": ["Null"], "write_bool": ["True", "False"], "write_sint": INT_M, "write_u64": ["U64"], "write_f64": ["F64"],
    "write_str": STR_M, "write_bin": BIN_M, "write_ext_meta": EXT_M, "write_map_len": MAP_M, "write_array_len": ARR_M,
}
GETTER = {"I8": "get_i8", "I16": "get_i16", "I32": "get_i32", "I64": "get_i64", "U8": "get_u8", "U16": "get_u16", "U32": "get_u32", "U64": "get_u64",
          "F32": "get_f32", "F64": "get_f64", "Str8": "get_u8", "Str16": "get_u16", "Str32": "get_u32", "Bin8": "get_u8", "Bin16": "get_u16", "Bin32": "get_u32",
          "Map16": "get_u16", "Map32": "get_u32", "Array16": "get_u16", "Array32": "get_u32", "Ext8": "get_u8", "Ext16": "get_u16", "Ext32": "get_u32"}
# PrimitiveWriter method -> kind
KIND = {"write_extant": "extant", "write_i32": "int", "write_i64": "int", "write_u32": "int", "write_u64": "int", "write_f64": "float", "write_bool": "bool",
        "write_big_int": "bigint", "write_big_uint": "biguint", "write_text": "text", "write_blob": "blob", "write_blob_vec": "blob"}
ENCODER_OF_KIND = {"extant": {"write_nil"}, "int": {"write_sint", "write_u64"}, "float": {"write_f64"}, "bool": {"write_bool"}, "bigint": {"write_ext_meta"},
                   "biguint": {"write_ext_meta"}, "text": {"write_str"}, "blob": {"write_bin"}}


def marker_switch(b):
    sw = [si for si in b.switches_on(lambda p, si: True) if si.get("kind") == "disc" and (si.get("adt") or "").endswith("marker::Marker")]
    if not sw:
        raise AnchorMissing("%s: no match on the MessagePack marker" % b.defpath)
    return sw[0]


def arm_calls(b, si):
    """marker name -> list of calls reachable from the arm that marker selects (arms end in a return or in a tail shared by the record headers)."""
    out = collections.defaultdict(list)
    ve = b.variant_edges(si["block"])
    for m, t in ve.items():
        if t == si["otherwise"]:
            continue
        # (an or-pattern arm shared by several markers may tell them apart again further down: each marker sees only its own way through)
        reach = b.reachable_assuming(si["block"], m, avoid={si["block"]})
        for c in b.calls:
            if c.block in reach:
                out[m].append(c)
    return out


def getters_of(b, calls):
    g = set()
    for c in calls:
        if (c.name or "").startswith("get_"):
            g.add(c.name)
        for a in c.args:
            d = describe_operand(b, a)
            m = re.search(r"Buf::(get_\w+)", d)
            if m:
                g.add(m.group(1))
    return g


def numeric_kind_rules(r, ctx, f):
    """integer recognisers accept (and convert) all four integer event kinds, the float recogniser all five"""
    INTK = {"Int", "UInt", "BigInt", "BigUint"}
    recs = {"I32Recognizer": INTK, "I64Recognizer": INTK, "U32Recognizer": INTK, "U64Recognizer": INTK, "UsizeRecognizer": INTK, "NonZeroUsizeRecognizer": INTK,
            "BigIntRecognizer": INTK, "BigUintRecognizer": INTK, "F64Recognizer": INTK | {"Float"}}
    for nm, want in sorted(recs.items()):
        b = ctx.saw(f.fn(name="feed_event", self_adt="primitive::" + nm))
        sw = [si for si in b.switches_on(lambda p, si: True) if si.get("kind") == "disc" and (si.get("adt") or "").endswith("event::NumericValue")]
        if not sw:
            r.bad("%s/numeric-kinds" % nm, where(b), "no match on the numeric kind")
            continue
        ve = b.variant_edges(sw[0]["block"])
        err = {c.block for c in b.calls if c.name == "kind_error"}
        acc = set()
        for k, t in ve.items():
            if t == sw[0]["otherwise"]:
                # the otherwise edge: accepted only if it does not lead to kind_error
                if t not in err and not any(b.reaches(t, {e}) for e in err):
                    acc.add(k)
            elif t not in err and not any(b.dominates(t, e) for e in err):
                acc.add(k)
        r.check(acc == want, "%s/numeric-kinds" % nm, where(b), "%s accepts %s" % (nm, sorted(acc)),
                "%s accepts %s but not %s: the Recon parser, the model bridge and the MessagePack reader deliver the same number as different kinds, so the reading paths disagree on whether it is accepted" % (nm, sorted(acc), sorted(want - acc)))
        # accepting a kind means converting its value: an arm that never looks at the payload answers the same for every number of that kind
        # (the tokenizer delivers i64::MIN as BigInt, the MessagePack reader delivers small values as whatever the writer chose)
        import json as _json
        for k in sorted(acc & want):
            t = ve.get(k)
            if t is None or t == sw[0]["otherwise"]:
                continue
            region = b.reachable_from([t])
            used = any('["d", "%s"' % k in _json.dumps(b.blocks[i]) for i in region)
            r.check(used, "%s/%s/value-converted" % (nm, k), where(b), "the %s arm reads the number it was given" % k,
                    "%s has an arm for %s numbers but never reads the value: every such number gets the same answer, although the same number is delivered as Int/UInt/BigInt/BigUint depending on the reading path (the Recon tokenizer produces BigInt for i64::MIN)" % (nm, k))


def run(ctx):
    mp = ctx.crate(MP)
    f = ctx.crate(F)
    disp = {nm: ctx.saw(mp.fn(suffix="reader::" + nm)) for nm in ("read_from_msg_pack", "push_value", "read_record_body")}
    is_ext = ctx.saw(mp.fn(suffix="reader::is_ext"))
    ext_size = ctx.saw(mp.fn(suffix="reader::read_ext_size"))
    writer_fns = {b.defpath.split("::")[-1]: ctx.saw(b) for b in mp.fns(self_adt="writer::MsgPackInterpreter", trait="PrimitiveWriter")}
    if len(writer_fns) < 12:
        raise AnchorMissing("MsgPackInterpreter implements %d PrimitiveWriter methods, expected 12" % len(writer_fns))

    emitted = set()
    enc_of = {}
    for nm, b in writer_fns.items():
        enc = {c.name for c in b.calls if c.name in EMITS and "rmp::encode" in c.defpath}
        enc_of[nm] = enc
        for e in enc:
            emitted |= set(EMITS[e])
    for b in mp.fns(self_adt="writer::MsgPackInterpreter") + mp.fns(self_adt="writer::MsgPackBodyInterpreter"):
        for c in b.calls:
            if c.name in EMITS and "rmp::encode" in c.defpath:
                emitted |= set(EMITS[c.name])

    handled = {}
    tables = {}
    with ctx.rule("C16.R1", "T5", "MessagePack reader: every marker the writer can emit is handled by each dispatcher, with the getter of its width; dispatchers agree", floor=90) as r:
        ie = marker_switch(is_ext)
        ext_ok = {m for m, t in is_ext.variant_edges(ie["block"]).items() if t != ie["otherwise"]}
        r.check(ext_ok == set(EXT_M), "is_ext/all-extension-markers", where(is_ext), "is_ext recognises the 8 extension markers", "is_ext recognises %s (missing %s, extra %s)" % (sorted(ext_ok), sorted(set(EXT_M) - ext_ok), sorted(ext_ok - set(EXT_M))))
        es = marker_switch(ext_size)
        ac = arm_calls(ext_size, es)
        ve = ext_size.variant_edges(es["block"])
        for m in EXT_M:
            ok = m in ve and ve[m] != es["otherwise"]
            r.check(ok, "read_ext_size/%s/handled" % m, where(ext_size), "extension marker %s has a size arm" % m, "extension marker %s falls through to InvalidMarker although is_ext accepts it" % m)
            if m in GETTER and ok:
                g = getters_of(ext_size, ac.get(m, []))
                r.check(g == {GETTER[m]}, "read_ext_size/%s/length-width" % m, where(ext_size), "length of %s read with %s" % (m, GETTER[m]), "length of %s read with %s instead of %s: the payload boundary is misplaced" % (m, sorted(g), GETTER[m]))
        fixed = {}
        for i, j, p, rv, line in ext_size.assigns():
            d = describe_rvalue(ext_size, rv)
            mm = re.match(r"^Result::Ok\((\d+)\)$", d) or re.match(r"^Ok\((\d+)\)$", d)
            if mm:
                for dd, l, _ in dom_guards(ext_size, i):
                    if dd.startswith("disc(") and l in EXT_M:
                        fixed[l] = int(mm.group(1))
        for m in ("FixExt1", "FixExt2", "FixExt4", "FixExt8", "FixExt16"):
            want = int(m[len("FixExt"):])
            if m in fixed:
                r.check(fixed[m] == want, "read_ext_size/%s/size" % m, where(ext_size), "%s has size %d" % (m, want), "%s is given size %d" % (m, fixed[m]))
        for nm, b in disp.items():
            si = marker_switch(b)
            ve = b.variant_edges(si["block"])
            ac = arm_calls(b, si)
            tables[nm] = ac
            hs = {m for m, t in ve.items() if t != si["otherwise"]}
            # extension markers are handled on the otherwise edge through is_ext
            via_ext = any(c.name == "is_ext" for c in b.calls)
            if via_ext:
                hs |= ext_ok
            handled[nm] = hs
            for m in sorted(emitted):
                if m in ARR_M and nm != "read_record_body":
                    continue
                if nm == "read_record_body" and m not in MAP_M + ARR_M:
                    # at the body position the writer only ever emits a map or array header (complete_header); the primitive arms of
                    # read_record_body serve hand-written input and are compared with push_value below
                    continue
                r.check(m in hs, "%s/%s/handled" % (nm, m), where(b), "marker %s (which the writer can emit) is read" % m, "the writer can emit marker %s but %s rejects it as InvalidMarker" % (m, nm))
            for m, gname in GETTER.items():
                if m in EXT_M or m not in hs or m not in ve:
                    continue
                g = getters_of(b, ac.get(m, []))
                r.check(g == {gname}, "%s/%s/payload-width" % (nm, m), where(b), "%s is read with %s" % (m, gname),
                        "%s is read with %s instead of %s: a value (or length) is taken from the wrong number of bytes" % (m, sorted(g) or "nothing", gname))
        a, b2, c3 = handled["read_from_msg_pack"], handled["push_value"], handled["read_record_body"]
        r.check(a == b2, "dispatchers/top-level=nested", where(disp["push_value"]), "a top-level value and a nested value accept the same markers", "markers handled only at one level: %s" % sorted(a ^ b2))
        skip = set(ARR_M) | set(EXT_M)
        r.check(c3 - skip == b2 - skip and set(ARR_M) <= c3, "dispatchers/body=nested+arrays", where(disp["read_record_body"]), "a record body accepts the plain values a nested value accepts, plus array bodies",
                "difference between body and nested dispatchers: %s" % sorted((c3 - skip) ^ (b2 - skip)))

    with ctx.rule("C16.R2", "T5", "each PrimitiveWriter method of the MessagePack writer uses the encoder of its kind; the reader turns that family back into the same kind", floor=20) as r:
        for nm, kind in sorted(KIND.items()):
            b = writer_fns.get(nm)
            if b is None:
                r.bad("writer/%s/present" % nm, "-", "method missing")
                continue
            enc = enc_of[nm]
            r.check(bool(enc) and enc <= ENCODER_OF_KIND[kind], "writer/%s/encoder-of-kind" % nm, where(b), "%s writes with %s" % (nm, sorted(enc)), "%s (a %s) writes with %s" % (nm, kind, sorted(enc)))
        w64 = writer_fns["write_u64"]
        big = [c for c in w64.calls if c.name == "write_u64"]
        ok = len(big) == 1 and any("try_from" in d and l == "Err" for d, l, _ in dom_guards(w64, big[0].block))
        r.check(ok, "writer/write_u64/unsigned-form-iff-beyond-i64", where(w64), "a u64 is written unsigned exactly when it does not fit i64", "write_u64 no longer chooses the unsigned form on the failure edge of i64::try_from")
        # reader side: family -> what the arm does
        for nm, b in disp.items():
            ac = tables[nm]
            for m in INT_M + FLOAT_M:
                calls = ac.get(m, [])
                g = getters_of(b, calls)
                if m in ("FixPos", "FixNeg"):
                    okk = any(("<%s>.0" % m) in describe_operand(b, a) for c in calls for a in c.args)
                    r.check(okk, "%s/%s/value-from-marker" % (nm, m), where(b), "the value of %s is the marker's own payload" % m, "the %s arm does not use the marker's payload" % m)
                else:
                    fam = "get_f" if m in FLOAT_M else ("get_i" if m.startswith("I") else "get_u")
                    r.check(bool(g) and all(x.startswith(fam) for x in g), "%s/%s/number-family" % (nm, m), where(b), "%s yields a %s" % (m, "float" if m in FLOAT_M else "signed integer" if fam == "get_i" else "unsigned integer"),
                            "%s is read with %s" % (m, sorted(g)))
            for m in STR_M:
                calls = ac.get(m, [])
                r.check(any(c.name in ("read_string", "feed_string", "feed_string_eor") for c in calls) and not any(c.name == "read_blob" for c in calls), "%s/%s/text" % (nm, m), where(b), "%s yields a text" % m, "%s is not read as a text" % m)
            for m in BIN_M:
                calls = ac.get(m, [])
                r.check(any(c.name == "read_blob" for c in calls) and not any(c.name in ("read_string", "feed_string", "feed_string_eor") for c in calls), "%s/%s/blob" % (nm, m), where(b), "%s yields a blob" % m, "%s is not read as a blob" % m)
            for m, want in (("True", "True"), ("False", "False")):
                calls = ac.get(m, [])
                vals = {describe_operand(b, a) for c in calls for a in c.args} & {"True", "False"}
                r.check(vals == {want}, "%s/%s/bool" % (nm, m), where(b), "marker %s yields %s" % (m, want.lower()), "marker %s yields %s" % (m, sorted(vals)))
            calls = ac.get("Null", [])
            r.check(any("Extant" in describe_operand(b, a) for c in calls for a in c.args) or any(c.name == "read_extant" for c in calls), "%s/Null/extant" % nm, where(b), "Null yields Extant", "Null does not yield Extant")

    with ctx.rule("C16.R2b", "T5", "a scalar in the body position (delegated body) is read as a one-item body for every scalar family", floor=20) as r:
        # the writer's `delegate` puts a single value where a record body would start; read_record_body presents it to the recogniser as
        # StartBody, value, EndRecord. Functions that feed both framing events (directly or through one another) are the wrappers.
        wrappers = set()
        for b in mp.all_bodies():
            if "reader::" not in b.defpath or "{closure" in b.defpath:
                continue
            evs = set()
            for c in b.calls:
                if c.via_name == "feed_event":
                    d = describe_operand(b, c.args[1])
                    if "StartBody" in d:
                        evs.add("S")
                    if "EndRecord" in d:
                        evs.add("E")
            if evs == {"S", "E"}:
                wrappers.add(b.defpath)
        rb = disp["read_record_body"]
        si = marker_switch(rb)
        ac = tables["read_record_body"]
        r.check(len(wrappers) >= 2, "read_record_body/wrapping-helpers", where(rb), "%d functions frame a scalar as a one-item body (%s)" % (len(wrappers), ", ".join(sorted(w.split("::")[-1] for w in wrappers))),
                "no function of the reader feeds StartBody and EndRecord around a scalar")
        for m in ["Null", "True", "False"] + INT_M + FLOAT_M + STR_M + BIN_M:
            calls = ac.get(m, [])
            wrapped = any((c.defpath or "") in wrappers for c in calls)
            bare = [c for c in calls if c.via_name == "feed_event" and not any(x in describe_operand(rb, c.args[1]) for x in ("StartBody", "EndRecord"))]
            r.check(wrapped and not bare, "read_record_body/%s/framed-as-body" % m, where(rb), "a %s in the body position is fed between StartBody and EndRecord" % m,
                    "a %s in the body position is fed to the recogniser bare: a record whose body is delegated to such a value can be written but not read back" % m)
        # extension values (BigInt / BigUint) are scalars too: `#[form(body)] n: BigInt` is written as an extension where the body would start
        exts = [c for c in rb.calls if c.name == "read_ext" and any(d.startswith("is_ext(") and l == "true" for d, l, _ in dom_guards(rb, c.block))]
        wrapped_ext = [c for c in rb.calls if (c.defpath or "") in wrappers and any(rb.dominates(e.block, c.block) for e in exts)]
        kinds_ext = {("BigInt" if "BigInt" in describe_operand(rb, c.args[-1]) or "Left" in describe_operand(rb, c.args[-1]) else "BigUint") for c in wrapped_ext}
        r.check(bool(exts) and len(wrapped_ext) >= 2, "read_record_body/Ext/framed-as-body", where(rb), "an extension value (big integer) in the body position is fed between StartBody and EndRecord (%d framed sites)" % len(wrapped_ext),
                "read_record_body has no case for the extension markers: a record whose body is delegated to a BigInt / BigUint (`#[form(body)]`) is written as an extension where the body starts and is rejected with InvalidMarker when read back")

    with ctx.rule("C16.R3", "T5", "big integers: extension codes, sign byte and payload length agree between writer and reader", floor=9) as r:
        bi = mp.const("BIG_INT_EXT")
        bu = mp.const("BIG_UINT_EXT")
        r.check(bi.get("v") is not None and bu.get("v") is not None and bi["v"] != bu["v"], "ext-codes/distinct", "-", "BIG_INT_EXT=%s, BIG_UINT_EXT=%s" % (bi.get("v"), bu.get("v")), "the two extension codes coincide: a BigUint is read back as a BigInt's sign and magnitude")
        for nm, code in (("write_big_int", bi), ("write_big_uint", bu)):
            b = writer_fns[nm]
            cs = [c for c in b.calls if c.name == "write_ext_meta"]
            r.check(len(cs) == 1 and describe_operand(b, cs[0].args[2]) == str(code.get("v")), "writer/%s/ext-code" % nm, where(b), "%s tags its extension with %s" % (nm, code["path"].split("::")[-1]),
                    "%s tags its extension with %s" % (nm, [describe_operand(b, c.args[2]) for c in cs]))
        re_b = ctx.saw(mp.fn(suffix="reader::read_ext"))
        ty = [c for c in re_b.calls if c.name == "get_i8"]
        arms = {}
        for c in re_b.calls:
            if c.name == "from_bytes_be":
                lab = [l for d, l, _ in dom_guards(re_b, c.block) if ty and d.startswith("get_i8(")]
                arms["BigInt" if "bigint::BigInt" in c.defpath else "BigUint"] = lab[-1] if lab else None
        r.check(arms.get("BigInt") == str(bi.get("v")) and arms.get("BigUint") == str(bu.get("v")), "reader/read_ext/ext-code->kind", where(re_b), "extension %s is read as BigInt, %s as BigUint" % (bi.get("v"), bu.get("v")),
                "read_ext maps extension codes %s" % arms)
        # sign tables
        wb = writer_fns["write_big_int"]
        wsign = {}
        # the sign byte is what write_u8 is given (whatever the local is called)
        sb_local = None
        for c in wb.calls:
            if c.name == "write_u8" and len(c.args) >= 2 and op_place(c.args[1]) is not None:
                sb_local = wb.copy_root(c.args[1])
        for i, j, p, rv, line in wb.assigns():
            if sb_local is not None and p[0] == sb_local and not p[1]:
                d = describe_rvalue(wb, rv)
                # `if sign == Sign::Minus` or `match sign { Sign::Minus => .., _ => .. }`
                lab = [l == "true" for dd, l, _ in dom_guards(wb, i) if "Sign::Minus" in dd]
                lab += [l == "Minus" for dd, l, sb_ in dom_guards(wb, i) if dd.startswith("disc(") and ((wb.switch_info(sb_) or {}).get("adt") or "").endswith("Sign")]
                if d.isdigit() and lab:
                    wsign["Minus" if lab[-1] else "other"] = int(d)
        rsign = {}
        for i, j, p, rv, line in re_b.assigns():
            d = describe_rvalue(re_b, rv)
            if d.startswith("Sign::"):
                for dd, l, _ in dom_guards(re_b, i):
                    mm = re.match(r"^Eq\(get_u8\(\w+\), (\d+)\)$", dd)
                    if mm:
                        rsign[(int(mm.group(1)), l == "true")] = d[len("Sign::"):-2]
                    elif re.match(r"^get_u8\(\w+\)$", dd):
                        # `match input.get_u8() { K => .., _ => .. }`: an integer switch (a two-way switch on 0 is labelled false/true)
                        if l in ("false", "true"):
                            rsign[(0, l == "false")] = d[len("Sign::"):-2]
                        elif l.isdigit():
                            rsign[(int(l), True)] = d[len("Sign::"):-2]
                        elif l == "otherwise":
                            for k_ in (0, 1):
                                rsign.setdefault((k_, False), d[len("Sign::"):-2])
        r.check(len(wsign) == 2 and wsign.get("Minus") != wsign.get("other"), "writer/write_big_int/sign-byte-table", where(wb), "sign byte: Minus -> %s, otherwise -> %s" % (wsign.get("Minus"), wsign.get("other")), "sign byte table of the writer: %s" % wsign)
        neg = rsign.get((wsign.get("Minus"), True))
        pos = rsign.get((wsign.get("Minus"), False))
        r.check(neg == "Minus", "reader/read_ext/sign-byte-%s=>Minus" % wsign.get("Minus"), where(re_b), "the writer's code for Minus reads back as Sign::Minus", "the writer's code for a negative number reads back as %s" % neg)
        r.check(pos == "Plus", "reader/read_ext/other-sign-byte=>Plus", where(re_b), "the writer's code for a non-negative number reads back as Sign::Plus",
                "the writer's code for a non-negative number reads back as Sign::%s: BigInt::from_bytes_be(NoSign, ..) discards the magnitude, so every positive BigInt written as MessagePack is read back as 0" % pos)
        # lengths: BigInt writes len+1 and reads len-1 after the sign byte; BigUint writes len and reads len
        wl = [describe_operand(wb, c.args[0]) for c in wb.calls if c.name == "try_from"]
        r.check(len(wl) == 1 and wl[0].startswith("AddWithOverflow(len(") and ", 1)" in wl[0], "writer/write_big_int/length=bytes+sign", where(wb), "extension length = magnitude bytes + 1 sign byte", "extension length is %s" % wl)
        rl = [describe_operand(re_b, c.args[1]) for c in re_b.calls if c.name == "read_blob"]
        sub = [x for x in rl if x.startswith("SubWithOverflow(") and ", 1)" in x]
        plain = [x for x in rl if not x.startswith("SubWithOverflow(")]
        r.check(len(rl) == 2 and len(sub) == 1 and len(plain) == 1, "reader/read_ext/lengths", where(re_b), "BigInt magnitude = length - 1 (after the sign byte), BigUint magnitude = length", "read_ext reads payloads of %s" % rl)
        wu = writer_fns["write_big_uint"]
        wl = [describe_operand(wu, c.args[0]) for c in wu.calls if c.name == "try_from"]
        r.check(len(wl) == 1 and wl[0].startswith("len("), "writer/write_big_uint/length=bytes", where(wu), "extension length = magnitude bytes", "extension length is %s" % wl)
        zero = [c for c in re_b.calls if c.name == "read_blob"]
        guard0 = any(re.match(r"^Eq\(.*read_ext_size.*, 0\)$", d) and l == "false" for c in zero for d, l, _ in dom_guards(re_b, c.block) if describe_operand(re_b, c.args[1]).startswith("SubWithOverflow("))
        r.check(guard0, "reader/read_ext/BigInt-length-nonzero-before-minus-1", where(re_b), "`len - 1` is computed only after `len == 0` was excluded", "`len - 1` is not guarded by a zero test: a zero-length BigInt extension underflows")

    with ctx.rule("C16.R4", "T5", "record framing: attribute map once, body header by kind, slot pair marker", floor=5) as r:
        rec = ctx.saw(mp.fn(name="record", self_adt="writer::MsgPackInterpreter"))
        ml = [c for c in rec.calls if c.name == "write_map_len"]
        r.check(len(ml) == 1 and any(d.endswith(".started") and l == "false" for d, l, _ in dom_guards(rec, ml[0].block)), "writer/record/attr-map-once", where(rec), "the attribute map header is written once per record (guarded by `started`)",
                "the attribute map header is not guarded by `started`")
        st = [(i, describe_rvalue(rec, rv)) for i, j, p, rv, line in rec.assigns() if describe_place(rec, p).endswith(".started")]
        r.check(any(d == "True" for _, d in st), "writer/record/started-set", where(rec), "`started` is set when the header is written")
        ch = ctx.saw(mp.fn(name="complete_header", self_adt="writer::MsgPackInterpreter"))
        km = {}
        for c in ch.calls:
            if c.name in ("write_map_len", "write_array_len"):
                lab = [l for d, l, _ in dom_guards(ch, c.block) if "RecordBodyKind::MapLike" in d]
                km[c.name] = lab[-1] if lab else None
                # `match kind { MapLike => .., ArrayLike | Mixed => .. }` states the same table by variant
                for d, l, _ in dom_guards(ch, c.block):
                    if re.match(r"^disc\((\(\*)?kind\)?\)$", d) or (d.startswith("disc(") and "kind" in d and lab == []):
                        ks = set(l.split("|"))
                        if ks == {"MapLike"}:
                            km[c.name] = "true"
                        elif "MapLike" not in ks and (ks <= {"ArrayLike", "Mixed", "otherwise"}):
                            km[c.name] = "false"
        r.check(km == {"write_map_len": "true", "write_array_len": "false"}, "writer/complete_header/kind->header", where(ch), "MapLike bodies get a map header, every other kind an array header", "body headers by kind: %s" % km)
        ws = ctx.saw(mp.fn(name="write_slot", self_adt="writer::MsgPackBodyInterpreter"))
        al = [c for c in ws.calls if c.name == "write_array_len"]
        okk = len(al) == 1 and describe_operand(ws, al[0].args[1]) == "2" and (any(d.endswith(".kind)") and l == "Mixed" for d, l, _ in dom_guards(ws, al[0].block)) or in_variant(ws, al[0].block, "self.kind", "Mixed"))
        r.check(okk, "writer/write_slot/mixed=>pair", where(ws), "a slot in a mixed body is written as an array of two", "a slot in a mixed body is not framed as array(2)")
        sm = mp.const("reader::SLOT_MARKER")
        slot = "%s(%s)" % (sm.get("variant"), ",".join(str(x) for x in sm.get("fields", [])))
        r.check(sm.get("variant") == "FixArray" and sm.get("fields") == [2], "reader/SLOT_MARKER=FixArray(2)", "-", "the reader recognises a slot by the marker the writer uses (%s)" % slot, "SLOT_MARKER is %s but the writer frames a slot as array(2)" % slot)
        ra = ctx.saw(mp.fn(suffix="reader::read_array_body"))
        r.check(any(c.name == "eq" and any(describe_operand(ra, a) == "SLOT_MARKER" for a in c.args) for c in ra.calls), "reader/read_array_body/slot-by-SLOT_MARKER", where(ra), "an array body item is a slot exactly when its marker equals SLOT_MARKER")
        rb = disp["read_record_body"]
        eqs = {}
        for c in rb.calls:
            if c.name == "eq":
                ds = [describe_operand(rb, a) for a in c.args]
                for d in ds:
                    mm = re.match(r"^Marker::(Map\d+)\(\)$", d)
                    if mm:
                        w = getters_of(rb, [x for x in rb.calls if x.name in ("get_u16", "get_u32") and x.block != c.block and rb.dominates(x.block, c.block)])
                        eqs[mm.group(1)] = w
        by_marker = {}
        if not eqs:
            # the flag may be a constant of the arm (`Map16 | Map32 => (read_prefixed_len(..)?, true)`): what matters is which body reader a marker reaches
            swm = [si for si in rb.switches_on(lambda p_, si: True) if si.get("kind") == "disc" and (si.get("adt") or "").endswith("Marker")]
            for m_ in ("Map16", "Map32", "Array16", "Array32"):
                reach_ = rb.reachable_assuming(swm[0]["block"], m_, avoid={swm[0]["block"]}) if swm else set()
                by_marker[m_] = sorted({c.name for c in rb.calls if c.block in reach_ and c.name in ("read_map_body", "read_array_body")})
        r.check((set(eqs) == {"Map16", "Map32"} and "get_u16" in eqs.get("Map16", ()) and "get_u32" in eqs.get("Map32", ()) and "get_u32" not in eqs.get("Map16", ()))
                or by_marker == {"Map16": ["read_map_body"], "Map32": ["read_map_body"], "Array16": ["read_array_body"], "Array32": ["read_array_body"]}, "reader/read_record_body/map-vs-array-by-marker", where(rb),
                "a 16/32-bit body header is a map body exactly when the marker is Map16/Map32", "map/array distinction in the body: %s" % (eqs or by_marker))

    with ctx.rule("C16.R5", "T5", "integer recognisers accept all four integer event kinds, the float recogniser all five", floor=9) as r:
        numeric_kind_rules(r, ctx, f)

    with ctx.rule("C16.R6", "T5", "every PrimitiveWriter maps each method to the same kind; Value::write_with composed with the model builder is the identity on kinds", floor=40) as r:
        BR = {"write_extant": ("Extant", None), "write_i32": ("Number", "Int"), "write_i64": ("Number", "Int"), "write_u32": ("Number", "UInt"), "write_u64": ("Number", "UInt"),
              "write_f64": ("Number", "Float"), "write_bool": ("Boolean", None), "write_big_int": ("Number", "BigInt"), "write_big_uint": ("Number", "BigUint"),
              "write_text": ("TextValue", None), "write_blob": ("Blob", None), "write_blob_vec": ("Blob", None)}
        for adt in ("bridge::RecognizerBridge", "bridge::SubRecognizerBridge"):
            fns = {b.defpath.split("::")[-1]: b for b in f.fns(self_adt=adt, trait="PrimitiveWriter")}
            for nm, (evk, numk) in sorted(BR.items()):
                b = fns.get(nm)
                if b is None:
                    r.bad("%s/%s/present" % (adt.split("::")[-1], nm), "-", "method missing")
                    continue
                ctx.saw(b)
                ev = {rv[1]["variant"] for i, j, p, rv, line in b.assigns() if rv[0] == "agg" and "adt" in rv[1] and rv[1]["adt"].endswith("event::ReadEvent")}
                nk = {rv[1]["variant"] for i, j, p, rv, line in b.assigns() if rv[0] == "agg" and "adt" in rv[1] and rv[1]["adt"].endswith("event::NumericValue")}
                r.check(ev == {evk} and nk == ({numk} if numk else set()), "%s/%s/event-kind" % (adt.split("::")[-1], nm), where(b), "%s feeds %s%s" % (nm, evk, "(%s)" % numk if numk else ""),
                        "%s feeds %s %s, expected %s%s: converting through the model gives a different kind of event than the typed writer states" % (nm, sorted(ev), sorted(nk), evk, "(%s)" % numk if numk else ""))
        VI = {"write_extant": "Extant", "write_i32": "Int32Value", "write_i64": "Int64Value", "write_u32": "UInt32Value", "write_u64": "UInt64Value", "write_f64": "Float64Value",
              "write_bool": "BooleanValue", "write_big_int": "BigInt", "write_big_uint": "BigUint", "write_text": "Text", "write_blob": "Data", "write_blob_vec": "Data"}
        fns = {b.defpath.split("::")[-1]: b for b in f.fns(self_adt="to_model::ValueInterpreter", trait="PrimitiveWriter")}
        built = {}
        for nm, want in sorted(VI.items()):
            b = fns.get(nm)
            if b is None:
                r.bad("ValueInterpreter/%s/present" % nm, "-", "method missing")
                continue
            ctx.saw(b)
            vs = {rv[1]["variant"] for i, j, p, rv, line in b.assigns() if rv[0] == "agg" and "adt" in rv[1] and rv[1]["adt"].endswith("value::Value")}
            built[nm] = vs
            r.check(vs == {want}, "ValueInterpreter/%s/model-kind" % nm, where(b), "%s builds Value::%s" % (nm, want), "%s builds %s, expected Value::%s" % (nm, sorted(vs), want))
        vw = ctx.saw(f.fn(name="write_with", self_adt="value::Value", trait="StructuralWritable"))
        sw = [si for si in vw.switches_on(lambda p, si: True) if si.get("kind") == "disc" and (si.get("adt") or "").endswith("value::Value")]
        if not sw:
            raise AnchorMissing("Value::write_with: no match on the value kind")
        pl = "disc(%s)" % describe_place(vw, sw[0]["place"])
        back = collections.defaultdict(set)
        for c in vw.calls:
            if c.via_name in KIND:
                for d, l, _ in dom_guards(vw, c.block):
                    if d == pl:
                        for k in l.split("|"):
                            back[k].add(c.via_name)
        for k in ("Extant", "Int32Value", "Int64Value", "UInt32Value", "UInt64Value", "Float64Value", "BooleanValue", "BigInt", "BigUint", "Text", "Data"):
            ms = back.get(k, set())
            img = set()
            for m_ in ms:
                img |= built.get(m_, set())
            r.check(len(ms) >= 1 and img == {k}, "Value::write_with/%s/round-trips-to-own-kind" % k, where(vw), "Value::%s is written with %s, which the model builder turns back into Value::%s" % (k, sorted(ms), k),
                    "Value::%s is written with %s, which the model builder turns into %s" % (k, sorted(ms), sorted(img)))

    with ctx.rule("C16.R7", "T12", "resumable recognisers: an event handed to a nested recogniser that needs more events leaves the machine in a state that keeps forwarding to it", floor=6) as r:
        # The hand-written struct recognisers are state machines over ReadEvents; the value of a field may take several events. When feed_event hands
        # the current event to the field's recogniser (through the vtable's select_recog or a nested feed_event) and that recogniser answers "more"
        # (`?` on None), the machine must already be in a state whose arm forwards the following events to the same recogniser. Otherwise the rest
        # of a multi-event field value (a Vec, a nested struct) is interpreted by the outer machine: the typed reader rejects - or misreads - what
        # the model path accepts.
        def forwards(b):
            """calls that hand the event on: an indirect call (vtable fn pointer) or a nested feed_event with `input` among the arguments"""
            out = []
            for c in b.calls:
                args = [describe_operand(b, a) for a in c.args]
                if "input" not in args and not any(a.startswith("input") for a in args):
                    continue
                if (c.name is None and len(args) >= 2) or c.via_name == "feed_event":
                    out.append(c)
            return out
        n_machines = 0
        for b in f.all_bodies():
            if b.meta.get("name") != "feed_event" or "read::recognizer::" not in b.defpath or "{closure" in b.defpath or "::primitive::" in b.defpath:
                continue
            sw = [si for si in b.switches_on(lambda p, si: True) if si.get("kind") == "disc" and describe_place(b, si["place"]) in ("self.state", "(*self.state)")]
            fw = forwards(b)
            if not sw or not fw:
                continue
            si = sw[0]
            ve = b.variant_edges(si["block"])
            tag = (b.meta.get("self_adt") or b.defpath).split("::")[-1].split("<")[0]
            ctx.saw(b)
            n_machines += 1
            # states whose arm forwards the event on every path
            item_states = set()
            for v, t in ve.items():
                blocks = {c.block for c in fw if b.dominates(t, c.block) or c.block == t}
                if blocks and t != si["otherwise"] and b.must_pass([t], blocks)[0] or (t in blocks):
                    item_states.add(v)
            if not item_states:
                # not written as one `match state`: (OrdinalFieldsRecognizer sets its Item state in the fall-through branch before it forwards); not judged
                r.ok("%s/not-a-match-on-state-machine" % tag, where(b), "the machine is not a single match on its state; the forwarding discipline is not evaluated for it")
                continue
            r.ok("%s/forwarding-states" % tag, where(b), "states that forward every event to the field's recogniser: %s" % sorted(item_states))
            writes = []
            for i, j, p_, rv, line in b.assigns():
                if describe_place(b, p_) in ("self.state", "(*self.state)"):
                    if rv[0] == "agg":
                        writes.append((i, rv[1].get("variant"), line))
                    else:
                        d_ = describe_rvalue(b, rv)
                        mm = re.match(r"^(?:[\w:]+::)?(\w+)\(.*\)$", d_)
                        if mm:
                            writes.append((i, mm.group(1), line))
            for k_, c in enumerate(sorted(fw, key=lambda x: x.line)):
                arm = [v for v, t in ve.items() if t != si["otherwise"] and (b.dominates(t, c.block) or t == c.block)]
                if not arm or set(arm) <= item_states:
                    continue
                te = b.try_edges(c)
                if te is None:
                    continue  # the result is not propagated with `?`: the arm inspects it itself
                brk = te[1]
                # on the way to the "more events needed" return the state must have been set to a forwarding state
                ok_w = [i for i, v, line in writes if v in item_states and (b.dominates(i, c.block) or i == c.block) and any(b.dominates(t, i) or t == i for t in [ve[a] for a in arm])]
                later = [i for i, v, line in writes if v in item_states and b.dominates(brk, i)]
                r.check(bool(ok_w) or bool(later), "%s/%s/forward#%d/resumes-in-a-forwarding-state" % (tag, "|".join(sorted(arm)), k_), c.loc(),
                        "when the nested recogniser needs more events the machine is in %s, whose arm forwards to it" % sorted({v for i, v, line in writes if i in ok_w + later}),
                        "in state %s the event is handed to a nested recogniser with `?`, but no state that forwards to it (%s) is set before the early return: a field value that spans several events (a list, a nested struct) is continued in the outer machine, which rejects it or takes its end for the end of the header" % ("|".join(sorted(arm)), sorted(item_states)))
        if n_machines < 4:
            raise AnchorMissing("expected the hand-written struct recognisers (found %d state machines that forward events)" % n_machines)

    with ctx.rule("C16.R8", "T5", "Timestamp: the unit the writer emits is the unit the recogniser reconstructs from", floor=3) as r:
        UNITS = {"timestamp": 1, "timestamp_millis": 1_000, "timestamp_micros": 1_000_000, "timestamp_nanos": 1_000_000_000, "timestamp_nanos_opt": 1_000_000_000}
        tw = [b for b in f.all_bodies() if b.meta.get("name") == "write_with" and "Timestamp" in b.defpath and "StructuralWritable" in b.defpath]
        tr = [b for b in f.all_bodies() if b.meta.get("name") == "feed_event" and "TimestampRecognizer" in b.defpath]
        if len(tw) != 1 or len(tr) != 1:
            raise AnchorMissing("Timestamp writer / recogniser")
        tw, tr = ctx.saw(tw[0]), ctx.saw(tr[0])
        unit = [UNITS[c.name] for c in tw.calls if c.name in UNITS]
        r.check(len(unit) == 1, "Timestamp/write/unit", where(tw), "a Timestamp is written as a count of 1/%s seconds" % (unit[0] if unit else "?"), "the unit Timestamp is written in was not recognised")
        per_s = unit[0] if unit else None
        n = 0
        for c in tr.calls:
            if c.name != "timestamp_opt" or per_s is None:
                continue
            n += 1
            kind = [l for d, l, _ in dom_guards(tr, c.block) if d.startswith("disc(input<Number>")]
            secs = describe_operand(tr, c.args[1])
            sub = describe_operand(tr, c.args[2])
            scale = 1_000_000_000 // per_s
            ok_secs = ("%d)" % per_s) in secs and ("div" in secs.lower())
            ok_sub = ("%d)" % per_s) in sub and ("rem" in sub.lower()) and (scale == 1 or ("Mul" in sub and (", %d)" % scale) in sub))
            r.check(ok_secs and ok_sub, "Timestamp/read/%s/seconds-and-nanoseconds-from-the-written-unit" % (kind[-1] if kind else n), c.loc(),
                    "seconds = n / %d, nanoseconds = (n %% %d) * %d" % (per_s, per_s, scale),
                    "the recogniser rebuilds the time as timestamp_opt(%s, %s) from a count of 1/%d s: the second argument is in nanoseconds, so the sub-second part must be the remainder times %d - otherwise a timestamp does not survive conversion to the model and back" % (secs[:50], sub[:60], per_s, scale))
            if kind and kind[-1] == "Int":
                r.check("euclid" in secs and "euclid" in sub, "Timestamp/read/Int/negative-counts-split-towards-the-floor", c.loc(), "a negative count is split with euclidean division (the nanosecond part is never negative)",
                        "a negative count is split with truncating `/` and `%`: the remainder is negative and does not fit the unsigned nanosecond argument (times before 1970 are rejected or wrap)")
        same_unit = [c for c in tr.calls if c.name in UNITS and UNITS[c.name] == per_s or (c.name or "").rstrip("_opt") in UNITS and UNITS.get((c.name or "").replace("_opt", "")) == per_s]
        if n == 0 and same_unit:
            r.ok("Timestamp/read/constructor-of-the-written-unit", same_unit[0].loc(), "the recogniser rebuilds the time with %s, the constructor for the unit that is written" % same_unit[0].name)
        elif n < 2 and not same_unit:
            raise AnchorMissing("TimestampRecognizer: neither timestamp_opt sites (%d) nor a constructor for the written unit" % n)

    with ctx.rule("C16.R9", "T5", "reset() returns a recogniser to the state its constructor gives it", floor=6) as r:
        # Recognisers are reused: the element recogniser of a Vec is reset between elements, a decoder resets after every frame. The machine's state
        # field must come back to what the constructor(s) choose - for recognisers of attribute bodies that is not the plain initial state.
        def variants_of(b, operand):
            out = set()
            for s_ in b.sources(operand):
                if s_[0] == "agg" and s_[2] is not None:
                    out.add(s_[2])
                if s_[0] == "const" and isinstance(s_[2], dict) and s_[2].get("variant"):
                    out.add(s_[2]["variant"])
            d = describe_operand(b, operand)
            mm = re.match(r"^(?:[\w:]+::)?(\w+)\(\)$", d)
            if mm:
                out.add(mm.group(1))
            return out
        n = 0
        # exception (one reason): the `variant(..)` constructors build the recogniser of an enum variant *after* its tag has been read; TaggedEnumRecognizer
        # creates one per value through select_var and drops it on reset (checked here), so such a recogniser is never reset itself
        te = [b for b in f.all_bodies() if b.meta.get("name") == "reset" and "TaggedEnumRecognizer" in b.defpath]
        te_ok = len(te) == 1 and any(describe_place(te[0], p_) == "self.variant" and "None" in describe_rvalue(te[0], rv) for i, j, p_, rv, line in te[0].assigns())
        r.check(te_ok, "TaggedEnumRecognizer/reset-drops-the-variant-recogniser", where(te[0]) if te else "-", "reset() drops the variant's recogniser (a new one is made for the next value)",
                "TaggedEnumRecognizer::reset keeps the variant recogniser: it would have to be reset into its post-tag state")
        cands = []
        for e in f.index:
            if "promoted" in e or e.get("name") != "reset" or "read::recognizer" not in e.get("def", ""):
                continue
            cands.append(e)
        for e in cands:
            rs = f.body(e)
            sadt = rs.meta.get("self_adt")
            if not sadt:
                continue
            try:
                a = f.adt(sadt.split("recognizer::")[-1] if "recognizer::" in sadt else sadt)
            except Exception:
                continue
            flds = [x[0] for v in a.get("variants", []) for x in v.get("fields", [])]
            sf = [x for x in flds if x in ("state", "stage")]
            if not sf:
                continue
            sf = sf[0]
            reset_vals = set()
            guarded = False
            for i, j, p_, rv, line in rs.assigns():
                if describe_place(rs, p_) == "self." + sf:
                    if rv[0] == "use":
                        reset_vals |= variants_of(rs, rv[1])
                    elif rv[0] == "agg":
                        reset_vals.add(rv[1].get("variant"))
            ctor_vals = set()
            nctor = 0
            opaque = False
            for b in f.all_bodies():
                if "::tests" in b.defpath or b is rs:
                    continue
                if te_ok and b.meta.get("name") == "variant":
                    continue
                for i, j, p_, rv, line in b.assigns():
                    if rv[0] == "agg" and rv[1].get("adt") == a["path"] and sf in rv[1].get("fields", []):
                        nctor += 1
                        vs = variants_of(b, rv[2][rv[1]["fields"].index(sf)])
                        if not vs:
                            opaque = True
                        ctor_vals |= vs
            if not ctor_vals or not reset_vals or opaque or not all(v[:1].isupper() for v in ctor_vals | reset_vals):
                continue  # the initial state is not a literal variant (e.g. Default::default()): not judged
            n += 1
            ctx.saw(rs)
            tag = sadt.split("::")[-1]
            r.check(reset_vals == ctor_vals, "%s/reset-state=constructor-state" % tag, where(rs), "reset() puts `%s` back to %s, what the %d constructor site(s) choose" % (sf, sorted(reset_vals), nctor),
                    "reset() sets `%s` to %s but the constructors start it in %s: a recogniser built for an attribute body (which starts after the body's opening) is reset into a state that expects the opening again, so the second value read with it is rejected although the model path accepts it" % (sf, sorted(reset_vals), sorted(ctor_vals)))
        if n < 6:
            raise AnchorMissing("expected the recognisers with a state field and a reset() (found %d)" % n)

    with ctx.rule("C16.R10", "T5", "a collection read from an attribute accepts both forms the writers and the model produce", floor=2) as r:
        # `@v(1,2)` (the items are the attribute's body) and `@v({1,2})` / the model's Attr(v, Record) (the body is one item, a record):
        # every make_attr_recognizer that builds the first ("flattened") form of a recogniser also offers the second through FirstOf + SimpleAttrBody
        n = 0
        for b in f.all_bodies():
            if b.meta.get("name") != "make_attr_recognizer" or "read::recognizer" not in b.defpath or "::tests" in b.defpath:
                continue
            flat = [c for c in b.calls if c.name == "new_attr" or (c.name == "new" and c.args and describe_operand(b, c.args[0]) == "True")]
            if not flat:
                continue
            n += 1
            ctx.saw(b)
            ty = (b.meta.get("self_ty") or b.defpath).split(" as ")[0].split("::")[-1][:40]
            both = any(c.name == "new" and "FirstOf" in c.defpath for c in b.calls) and any(c.name == "new" and "SimpleAttrBody" in c.defpath for c in b.calls)
            r.check(both, "%s/make_attr_recognizer/both-forms" % (b.defpath.split("for ")[-1].split(">::")[0] if " for " in b.defpath else ty), where(b),
                    "the attribute recogniser accepts the items as the attribute body or as a single record item (FirstOf + SimpleAttrBody)",
                    "the attribute recogniser only accepts the flattened form: the writers produce `@m({..})` for any number of entries but one, and the model always presents a record, so a field of this type promoted to an attribute cannot be read back")
            # where a text is accepted in both forms (`@a({})` for a collection of collections: the empty collection in record form, or one empty
            # element in the flattened form) the record form must win: the writers use it for fewer than two elements, and a single element that
            # is itself empty is written `@a({{}})`
            fo = [c for c in b.calls if c.name == "new" and "FirstOf" in c.defpath and len(c.args) == 2]
            if both and fo:
                first = describe_operand(b, fo[0].args[0])
                r.check(first.startswith("new(") and any(c.name == "new" and "SimpleAttrBody" in c.defpath and c.dest is not None and b.copy_root(fo[0].args[0]) == c.dest[0] for c in b.calls),
                        "%s/make_attr_recognizer/record-form-first" % (b.defpath.split("for ")[-1].split(">::")[0] if " for " in b.defpath else ty), fo[0].loc(),
                        "on a text both forms accept the record form takes precedence (first argument of FirstOf is the SimpleAttrBody)",
                        "the flattened form takes precedence over the record form: `@a({})` for a collection of collections is read as one empty element although the writers "
                        "produce it for the empty collection - an empty Vec<Vec<T>> promoted to an attribute comes back as vec![vec![]] from its text and from its model value")
        if n < 2:
            raise AnchorMissing("expected the attribute recognisers of Vec and HashMap (found %d)" % n)

    with ctx.rule("C16.R12", "T3", "collection recognisers reset an element recogniser after every element it completed", floor=4) as r:
        # VecRecognizer / HashMapRecognizer feed one sub-recogniser again and again; a sub-recogniser that has answered is only guaranteed to start
        # afresh after reset() (OptionRecognizer keeps `reading_value`, struct recognisers keep their progress): on every path on which the value it
        # produced is used and the collection goes on (answers None), the same sub-recogniser is reset first
        n = 0
        for b in f.all_bodies():
            if b.meta.get("name") != "feed_event" or "::recognizer::" not in b.defpath or "::{closure" in b.defpath:
                continue
            def fld(c):
                d = describe_operand(b, c.args[0]).lstrip("&")
                return d[4:] if d.startswith("mut ") else d
            feeds = [c for c in b.calls if c.name == "feed_event" and c.args and fld(c).startswith("self.")]
            coll = [c for c in b.calls if c.name in ("push", "insert", "push_back", "extend") and c.args and fld(c).startswith("self.")]
            if not feeds or not coll:
                continue
            ctx.saw(b)
            nones = [i_ for i_, j_, p_, rv, line in b.assigns() if describe_rvalue(b, rv).startswith("Option::None")]
            for k, c in enumerate(sorted(feeds, key=lambda x: x.block)):
                FLD = fld(c)
                resets = {x.block for x in b.calls if x.name == "reset" and x.args and fld(x) == FLD}
                # where the produced value is read: an operand that is the Ok payload of this call's result
                used = set()
                for i_, j_, p_, rv, line in b.assigns():
                    d = describe_rvalue(b, rv)
                    if ("<Ok>.0" in d and "feed_event(%s" % FLD in d) and b.dominates(c.block, i_):
                        used.add(i_)
                for x in b.calls:
                    if x is c or not b.dominates(c.block, x.block):
                        continue
                    if any("<Ok>.0" in describe_operand(b, a) and "feed_event(%s" % FLD in describe_operand(b, a) for a in x.args):
                        used.add(x.block)
                used = {u for u in used if not any(b.dominates(o, u) and o != u for o in used)}
                if not used:
                    continue
                n += 1
                bad = None
                for u in sorted(used):
                    for nb in nones:
                        p1 = b.path_avoiding([u], {nb}, avoid=resets) if u != nb else [u]
                        if p1 is not None and nb not in resets and b.path_avoiding([nb], set(b.exits()), avoid=resets) is not None:
                            bad = (u, nb)
                            break
                    if bad:
                        break
                nm = (b.meta.get("self_adt") or "?").split("::")[-1]
                r.check(bad is None and bool(resets), "%s/%s#%d/reset-after-each-element" % (nm, FLD.replace("self.", ""), k), c.loc(), "%s is reset on every path that keeps the value it produced and goes on" % FLD,
                        "%s keeps the value produced by %s and goes on to the next element without %s.reset() (blocks %s): a sub-recogniser that remembers anything across events "
                        "(Option's `reading_value`, a struct's progress) treats the next element as a continuation - `[Some(1), None]` and `{1,,3}` are rejected on every reading path" % (nm, FLD, FLD, bad))
        if n < 4:
            raise AnchorMissing("collection recognisers: expected at least 4 element feeds whose value is kept (Vec x2, HashMap key/value), found %d" % n)

    with ctx.rule("C16.R13", "T5", "an absent delegated body: every form a writer produces is accepted by the reader of an optional body", floor=3) as r:
        # `#[form(body)] v: Option<T>` with v = None. The Recon printers write nothing after the attributes (an empty body); the model writer and the
        # MessagePack path present a body holding one empty item. The recogniser of an optional body (EmptyBodyRecognizer) must accept every form
        # some writer produces, or `to model and back` / `MessagePack and back` fail for None.
        forms = {}
        mw = ctx.saw(f.fn(name="with_delegate_body", self_adt="to_model::ValueInterpreter"))
        sw = [si for si in mw.switches_on(lambda p, si: True) if si.get("kind") == "disc" and (si.get("adt") or "").endswith("value::Value")]
        if not sw:
            raise AnchorMissing("ValueInterpreter::with_delegate_body: no match on the body value")
        ve = mw.variant_edges(sw[0]["block"])
        wraps = {c.block for c in mw.calls if c.name == "of" and "Item" in (c.defpath or "")}
        te = ve.get("Extant")
        forms["model writer"] = "item" if (te in wraps or any(mw.reaches(te, {w}) for w in wraps)) else "nothing"
        mp = ctx.crate("swimos_msgpack")
        rb = ctx.saw(mp.fn(suffix="reader::read_record_body"))
        msw = [si for si in rb.switches_on(lambda p, si: True) if si.get("kind") == "disc" and (si.get("adt") or "").endswith("Marker")]
        nv = rb.variant_edges(msw[0]["block"]).get("Null") if msw else None
        if nv is None:
            raise AnchorMissing("msgpack read_record_body: no arm for the nil marker")
        nil_calls = [c for c in rb.calls if c.block == nv or rb.dominates(nv, c.block)]
        forms["MessagePack (nil in the body position)"] = "item" if any("ReadEvent::Extant" in describe_operand(rb, a) for c in nil_calls for a in c.args) else "nothing"
        forms["Recon printers"] = "nothing"
        eb = ctx.saw(f.fn(name="feed_event", self_adt="impls::EmptyBodyRecognizer"))
        accepted = {"nothing"}
        nones = {i_ for i_, j_, p_, rv, line in eb.assigns() if describe_rvalue(eb, rv).startswith("Option::None")}
        for si in eb.switches_on(lambda p, si: True):
            if si.get("kind") == "disc" and (si.get("adt") or "").endswith("event::ReadEvent"):
                e_ve = eb.variant_edges(si["block"])
                t = e_ve.get("Extant")
                if t is not None and "EndRecord" in e_ve and e_ve["EndRecord"] != t and t != si.get("otherwise") and (t in nones or any(eb.reaches(t, {n_}) for n_ in nones)) and e_ve.get("TextValue") != t:
                    accepted.add("item")
        for w, form in sorted(forms.items()):
            r.check(form in accepted, "absent-body/%s" % w.split(" ")[0], where(eb), "%s writes %s: accepted" % (w, "a single empty item" if form == "item" else "an empty body"),
                    "%s presents an absent delegated body as %s, which the recogniser of an optional body rejects: a struct with `#[form(body)] v: Option<T>` and v = None cannot be read back on that path" % (w, "a body holding one empty item" if form == "item" else "an empty body"))

    with ctx.rule("C16.R11", "T12", "struct recognisers: an event that is accepted without being handed on moves the machine (no state accepts unboundedly many empty items)", floor=4) as r:
        # The model path sees `@Tag(,)` as an attribute whose value is a record of two empty items and rejects it for a struct without header fields;
        # a recogniser that answers "more" to an Extant and stays where it is accepts any number of them: the two reading paths disagree.
        n = 0
        STATE_PLACES = ("self.state", "(*self.state)", "self.stage", "(*self.stage)")
        for b in f.all_bodies():
            if b.meta.get("name") != "feed_event" or "read::recognizer::" not in b.defpath or "{closure" in b.defpath or "::primitive::" in b.defpath:
                continue
            sw = [si for si in b.switches_on(lambda p, si: True) if si.get("kind") == "disc" and describe_place(b, si["place"]) in STATE_PLACES]
            if not sw:
                continue
            st = sw[0]
            sve = b.variant_edges(st["block"])
            tag = (b.meta.get("self_adt") or b.defpath).split("::")[-1].split("<")[0]
            writes = {i for i, j, p_, rv, line in b.assigns() if describe_place(b, p_) in STATE_PLACES}
            none_rets = {i for i, j, p_, rv, line in b.assigns() if p_[0] == 0 and not p_[1] and describe_rvalue(b, rv) in ("Option::None()", "None")}
            fw_blocks = {c.block for c in b.calls if (c.name is None or c.via_name == "feed_event") and any(describe_operand(b, a) == "input" for a in c.args)}
            for isw in [si for si in b.switches_on(lambda p, si: True) if si.get("kind") == "disc" and describe_place(b, si["place"]) in ("input", "(*input)") and (si.get("adt") or "").endswith("event::ReadEvent")]:
                ive = b.variant_edges(isw["block"])
                if "Extant" not in ive or ive["Extant"] == isw["otherwise"]:
                    continue
                states = [v for v, t in sve.items() if t != st["otherwise"] and (b.dominates(t, isw["block"]) or t == isw["block"])]
                if not states:
                    continue
                start = ive["Extant"]
                # paths from the Extant edge to a `None` answer
                targets = {i for i in none_rets if b.dominates(start, i) or i == start}
                if not targets:
                    continue
                n += 1
                ctx.saw(b)
                ok, wit = b.must_pass([start], writes | fw_blocks, targets=targets) if start not in (writes | fw_blocks) else (True, None)
                r.check(ok, "%s/%s/Extant-accepted=>state-changes" % (tag, "|".join(sorted(states))), b.loc(b.blocks[isw["block"]]["t"].get("line")),
                        "an empty item accepted in state %s moves the machine on" % "|".join(sorted(states)),
                        "in state %s an Extant event is answered with `None` without changing state: `@Tag(,,,)` is accepted with any number of empty items when read directly, but rejected when read through the model" % "|".join(sorted(states)))
        if n < 4:
            raise AnchorMissing("expected the tag-attribute arms of the struct recognisers (found %d)" % n)

    with ctx.rule("C16.R14", "T3", "an end event ends a recogniser's own body only in a state in which no nested value is being read", floor=6) as r:
        # While a machine forwards events to a nested recogniser (its `Item` state), EndRecord / EndAttribute belong to the nested value: a struct in
        # a tuple, an attribute of an item. A test for the machine's own end that is not confined to the other states takes the end of an item's
        # attribute for the end of the body - the direct reader then rejects (or cuts short) what the model path reads.
        def fwd_calls(b):
            out = []
            for c in b.calls:
                args = [describe_operand(b, a) for a in c.args]
                if "input" not in args and not any(a.startswith("input") for a in args):
                    continue
                if (c.name is None and len(args) >= 2) or c.via_name == "feed_event":
                    out.append(c)
            return out
        n_m = 0
        for b in f.all_bodies():
            if b.meta.get("name") != "feed_event" or "read::recognizer::" not in b.defpath or "{closure" in b.defpath or "::primitive::" in b.defpath:
                continue
            SP = ("self.state", "(*self.state)", "self.stage", "(*self.stage)")
            sw = [si for si in b.switches_on(lambda p, si: True) if si.get("kind") == "disc" and describe_place(b, si["place"]) in SP]
            fw = fwd_calls(b)
            if not sw or not fw:
                continue
            tag = (b.meta.get("self_adt") or b.defpath).split("::")[-1].split("<")[0]
            sd = {"disc(%s)" % x for x in SP}
            fstates = set()
            # (1) arms of a match on the state that hand the event on whatever it is
            for si in sw:
                ve = b.variant_edges(si["block"]) or {}
                for v, t in ve.items():
                    blocks = {c.block for c in fw if b.dominates(t, c.block) or c.block == t}
                    if blocks and t != si.get("otherwise") and (t in blocks or b.must_pass([t], blocks)[0]):
                        fstates.add(v)
            # (2) a state written just before the event is handed on with `?` (the machine stays in it while the nested value needs more events)
            for i, j, p_, rv, line in b.assigns():
                if describe_place(b, p_) in SP:
                    v = rv[1].get("variant") if rv[0] == "agg" else None
                    if v is None:
                        mm_ = re.match(r"^(?:[\w:]+::)?(\w+)\(.*\)$", describe_rvalue(b, rv))
                        v = mm_.group(1) if mm_ else None
                    if v and any((b.dominates(i, c.block) or i == c.block) and b.try_edges(c) is not None for c in fw):
                        fstates.add(v)
            if not fstates:
                continue
            ctx.saw(b)
            n_m += 1
            # a *completion*: the machine answers with a value of its own (`Some(x)`, x not an error) - as opposed to handing the event on
            done = set()
            for i_, j_, p_, rv, line in b.assigns():
                if p_[0] == 0 and not p_[1]:
                    d_ = describe_rvalue(b, rv)
                    if d_.startswith("Option::Some(") and not re.match(r"^Option::Some\((Result::)?Err\(", d_):
                        done.add(i_)
            fwb = {c.block for c in fw}
            in_sw = [si for si in b.switches_on(lambda p, si: True) if si.get("kind") == "disc" and describe_place(b, si["place"]) in ("input", "(*input)")]
            first = [si for si in sw if all(b.dominates(si["block"], o["block"]) for o in sw)]
            for v in sorted(fstates):
                for kind in ("EndRecord", "EndAttribute"):
                    a_in = None
                    for si in in_sw:
                        a_in = a_in or b.variant_assumption(si, kind)
                    a_st = b.variant_assumption(first[0], v) if first else None
                    if a_st is not None:
                        # from the first test of the state, on the edge the assumed state takes (the block of the test itself may set up the borrow)
                        ve0 = b.variant_edges(first[0]["block"]) or {}
                        src = [ve0[v]] if v in ve0 else ([first[0]["otherwise"]] if first[0].get("otherwise") is not None else [])
                    else:
                        # the state is matched on once: start inside its arm
                        src = [t for si in sw for vv, t in (b.variant_edges(si["block"]) or {}).items() if vv == v]
                    if not src:
                        continue
                    dst = done if a_in is not None else {x for x in done if any(dd in ("disc(input)", "disc((*input))") and set(ll.split("|")) <= {"EndRecord", "EndAttribute"} and kind in ll.split("|") for dd, ll, _ in dom_guards(b, x))}
                    w = b.path_avoiding(src, dst, avoid=fwb, assume=(a_st or ()) + (a_in or ())) if dst else None
                    r.check(w is None, "%s/%s/%s/belongs-to-the-nested-value" % (tag, v, kind), where(b),
                            "in state %s an %s is handed to the nested recogniser before the machine answers with a value of its own" % (v, kind),
                            "in state %s (a nested value is being read) an %s can make the machine answer with a value of its own without consulting the nested recogniser (blocks %s): the end of an item's own attribute / record is taken for the end of the outer body, so the direct reader rejects or cuts short what the model path reads" % (v, kind, (w or [])[:8]))
        if n_m < 3:
            raise AnchorMissing("expected the recogniser state machines that forward events (found %d)" % n_m)

    with ctx.rule("C16.R17", "T2", "FirstOf: when the first alternative completes, its result is the answer", floor=2) as r:
        # `FirstOf<A, B>` states a precedence: Option<T> is FirstOf<Empty.., Some(T)>, a collection in an attribute is FirstOf<SimpleAttrBody, items>.
        # On a text both alternatives accept (an empty attribute for an Option<Vec<_>>), the first one's result is the value - the model and the
        # MessagePack path carry an explicit Extant that only the first accepts, so the other answer makes the reading paths disagree.
        fo = [b for b in f.all_bodies() if b.meta.get("name") == "feed_event" and "recognizer::FirstOf" in (b.meta.get("self_adt") or "")]
        if len(fo) != 1:
            raise AnchorMissing("FirstOf::feed_event (found %d)" % len(fo))
        fo = ctx.saw(fo[0])
        fes = [c for c in fo.calls if c.via_name == "feed_event" or c.name == "feed_event"]
        c1 = [c for c in fes if describe_operand(fo, c.args[0]).endswith("recognizer1")]
        c2 = [c for c in fes if describe_operand(fo, c.args[0]).endswith("recognizer2")]
        both = [x for x in c1 if any(fo.reaches(x.block, {y.block}) or fo.reaches(y.block, {x.block}) for y in c2)]
        if not both or not c2:
            raise AnchorMissing("FirstOf::feed_event: the branch that feeds both alternatives")
        first = both[0]
        seconds = {y.block for y in c2}
        OPT_SOME, RES_OK = 1, 0
        retl = return_locals(fo)
        bad_paths, n_ret = [], 0
        seen_, work = set(), [(first.block, frozenset())]
        budget = 40000

        def learned(env, blk, succ):
            # what the edge blk -> succ says about the value whose discriminant the block reads
            t_ = fo.term(blk)
            if t_["k"] != "switch":
                return env, True
            dp = op_place(t_["discr"])
            for s_ in fo.stmts(blk):
                if s_[0] == "A" and dp is not None and s_[1] == [dp[0], []] and s_[2][0] == "disc":
                    src, spr = s_[2][1]
                    fp = fo._fpath(spr)
                    if fp is None:
                        return env, True
                    key = (src, "variant") if not fp else (src, tuple(fp) + ("#v",))
                    names = s_[2][3] if len(s_[2]) > 3 else []
                    arms = [(int(v_) if isinstance(v_, str) else v_, tb) for v_, tb in t_["arms"]]
                    vals = [v_ for v_, tb in arms if tb == succ]
                    d_ = dict(env)
                    known = d_.get(key)
                    if succ == t_["otherwise"] and not vals:
                        rest = [k_ for k_, _ in names if k_ not in [v_ for v_, _ in arms]] if names else []
                        if names and not rest:
                            return env, False      # every variant has an arm of its own: the fall-through cannot be taken
                        if known is not None:
                            return env, known in rest or not rest
                        if len(rest) == 1:
                            d_[key] = rest[0]
                            note(d_, src, tuple(fp), rest[0])
                        return frozenset(d_.items()), True
                    if known is not None:
                        return env, known in vals
                    if len(vals) == 1:
                        d_[key] = vals[0]
                        note(d_, src, tuple(fp), vals[0])
                    return frozenset(d_.items()), True
            return env, True

        def note(d_, src, fp, idx):
            # what is learnt about the first alternative's result is kept apart from the local that holds it (the local is dropped before the answer)
            if d_.get((src, fp + ("#o",))) == ("orig", 1):
                d_[("R1", "top")] = idx
            elif fp and fp[-1] == 0 and d_.get((src, fp[:-1] + ("#o",))) == ("orig", 1):
                d_[("R1", "payload")] = idx
        while work and budget > 0:
            budget -= 1
            blk, env = work.pop()
            if (blk, env) in seen_ or fo.is_cleanup(blk):
                continue
            seen_.add((blk, env))
            t_ = fo.term(blk)
            for s_, e_ in fo.cp_successors(blk, env):
                e2, feasible = learned(e_, blk, s_)
                if not feasible:
                    continue
                if t_["k"] == "call" and t_.get("dest") is not None and not t_["dest"][1] and blk in ({first.block} | seconds):
                    d_ = dict(e2)
                    d_[(t_["dest"][0], ("#o",))] = ("orig", 1 if blk == first.block else 2)
                    e2 = frozenset(d_.items())
                work.append((s_, e2))
            # an answer: a value put into the return place in this block
            d_after = dict(fo._cp_transfer(blk, env, sym=True))
            for st in fo.stmts(blk):
                if st[0] == "A" and st[1][0] in retl and not st[1][1] and st[2][0] in ("use", "agg"):
                    org = d_after.get((st[1][0], ("#o",)))
                    if org == ("orig", 2):
                        n_ret += 1
                        # where the first alternative's result is now, and what is known about it
                        holders = [(l_, p_[:-1]) for (l_, p_), v_ in d_after.items() if isinstance(p_, tuple) and p_ and p_[-1] == "#o" and v_ == ("orig", 1)]
                        ruled_out = d_after.get(("R1", "top")) == 0 or (d_after.get(("R1", "top")) == OPT_SOME and d_after.get(("R1", "payload")) == 1)
                        for l_, pre in holders:
                            v1 = d_after.get((l_, "variant")) if not pre else d_after.get((l_, pre + ("#v",)))
                            v2 = d_after.get((l_, pre + (0, "#v")))
                            if v1 == 0 or (v1 == OPT_SOME and v2 == 1):
                                ruled_out = True
                        if not ruled_out and not holders:
                            # the first result is gone: it was examined before the second alternative was fed (the sequential form); decided there
                            ruled_out = all(fo.dominates(first.block, y) for y in seconds) and not any(fo.path_avoiding([first.block], {y}, avoid=set()) is None for y in seconds) and \
                                all(any(d.startswith("disc(feed_event(") and "recognizer1" in d and l in ("None", "Err") for d, l, _ in dom_guards(fo, y)) for y in seconds)
                        if not ruled_out:
                            if os.environ.get("DBG17"): print("DBG17", blk, {k: v for k, v in d_after.items() if k[0] == "R1" or (isinstance(k[1], tuple) and k[1] and k[1][-1] in ("#o", "#v")) or k[1] == "variant"})
                            bad_paths.append(blk)
                    elif org == ("orig", 1):
                        n_ret += 1
        r.check(budget > 0 and n_ret >= 2, "FirstOf/feed_event/analysed", where(fo), "%d answers that hand on the result of one of the alternatives" % n_ret, "could not follow the results of the two alternatives to the answers (%d found)" % n_ret)
        r.check(not bad_paths, "FirstOf/feed_event/first-alternative-wins", where(fo), "the second alternative's result is the answer only when the first one did not complete with a value",
                "FirstOf::feed_event can answer with the second alternative's result although the first alternative may have completed successfully on the same event (blocks %s): for an absent "
                "Option<Vec<_>> / Option<HashMap<_, _>> in an attribute or body, read from text, both alternatives accept and `Some(empty)` wins over `None` - the direct reading and the reading via the model disagree" % sorted(set(bad_paths))[:4])

    # text path of a derived type: what the printers write for a #[form(body)] field inside an attribute must be readable (F64)
    from rules import C09 as _C09
    ctx.borrow(_C09, {"C09.R1d": ("C16.R18", "a #[form(body)] value inside an attribute is printed inside the parenthesis that is already open (C09.R1d)")})

    with ctx.rule("C16.R15", "T5", "derive(Tag): the name a variant is written under (as_ref, VARIANTS) is the name it is read back by (from_str)", floor=3) as r:
        # One clause of the derive macros that *is* table agreement inside a single function: DeriveTag::to_tokens builds three tables from the same
        # (variant, rename) pairs. Each must turn the pair into a literal through the same NameTransform::transform - a table that spells the
        # name by other means disagrees with the others for every variant renamed by a convention (kebab, camel, ..): the tag is written under one
        # name and accepted only under another, so a `#[form(tag)]` field holding it cannot be read back from the model, MessagePack or Recon.
        fd = ctx.crate("swimos_form_derive")
        tt = [b for b in fd.all_bodies() if "tag::DeriveTag" in b.defpath and b.defpath.endswith("::to_tokens")]
        if len(tt) != 1:
            raise AnchorMissing("swimos_form_derive::tag::DeriveTag::to_tokens (found %d)" % len(tt))
        tt = ctx.saw(tt[0])
        tables = [cb for cb in fd.closures_of(tt.defpath) if cb.defpath.count("{closure") == 1]
        maps = [c for c in tt.calls if c.name == "map"]
        if len(tables) < 3 or len(maps) < 3:
            raise AnchorMissing("DeriveTag::to_tokens: expected the three per-variant tables (found %d closures, %d maps)" % (len(tables), len(maps)))
        for k_, cb in enumerate(sorted(tables, key=lambda x: x.defpath)):
            tr = [c for c in cb.calls if c.name == "transform" and "NameTransform" in ((c.self_adt or "") + (c.defpath or ""))]
            other = [rv for i, j, p_, rv, line in cb.assigns() if rv[0] == "agg" and False]
            # the literal spliced into the tokens derives from that call
            r.check(len(tr) == 1 and cb.must_pass([0], {tr[0].block})[0], "DeriveTag/table#%d/name-through-transform" % k_, where(cb), "the variant's name is produced by NameTransform::transform on every path",
                    "this table of the Tag derive does not spell the variant's name through NameTransform::transform on every path: for a variant renamed by a naming convention the generated as_ref / VARIANTS / from_str disagree - the tag is written as `high-priority` and only `HighPriority` is read back")

