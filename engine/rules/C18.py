"""C18 Routing is deterministic: patterns invert, ambiguity is detected (structural clauses)."""
import struct

from mirlib import switch_desc, AnchorMissing, describe_call, describe_operand, describe_place, describe_rvalue, dom_guards, guards, _suffix_match
from rules.common import success_edge, aggregates, panic_sites, where

META = {
    "explanation": (
        "C18 (necessary structural clauses, not the inversion law itself): R1 unapply never binds a parameter to an empty segment and rejects missing or "
        "surplus segments; R2 sibling agreement inside RoutePattern: literal segments are compared the same way (after percent-decoding) by unapply and by "
        "are_ambiguous, and the parameter name used as a key is the same expression in unapply, apply and parameters(); R3 table agreement between the "
        "encoder and the URI grammar: every byte apply leaves unescaped (in values and in literal segments) is a byte the route-URI grammar accepts in a "
        "path, '/' and '%' are always escaped in values, and the URI parser consumes its whole input; R4 the plane builder tests every unordered pair of "
        "routes with are_ambiguous and refuses to build when one is ambiguous; the server resolves a URI by unapply_route_uri alone; R5 panic audit."),
    "does_not_decide": "unapply(apply(p)) = p over all strings; soundness/completeness of are_ambiguous against the actual overlap of the matched sets",
}

RO = "swimos_route"
SA = "swimos_server_app"
RP = "route_pattern::RoutePattern"


def ascii_set(const):
    raw = const.get("raw")
    if not raw or len(raw) < 16:
        raise AnchorMissing("no value for constant %s (driver too old?)" % const.get("path"))
    mask = struct.unpack("<4I", bytes(raw[:16]))
    return {b for b in range(128) if (mask[b // 32] >> (b % 32)) & 1}


def run(ctx):
    ro = ctx.crate(RO)
    up = ctx.saw(ro.fn(name="unapply_parts", self_adt=RP))
    ap = ctx.saw(ro.fn(name="apply", self_adt=RP))
    am = ctx.saw(ro.fn(name="are_ambiguous", self_adt=RP))

    with ctx.rule("C18.R1", "T1", "unapply: no empty binding; missing and surplus segments do not match", floor=4) as r:
        ins = [c for c in up.calls if c.name == "insert" and "HashMap" in str(c.self_adt)]
        if len(ins) != 1:
            raise AnchorMissing("unapply_parts: expected one param_map.insert, found %d" % len(ins))
        g = dom_guards(up, ins[0].block)
        r.check(any(d.startswith("is_empty(") and l == "false" for d, l, _ in g), "unapply_parts/no-empty-binding", ins[0].loc(), "a parameter is bound only when the decoded segment is not empty", "param_map.insert is not guarded by !collected.is_empty(): %s" % [(d[:40], l) for d, l, _ in g])
        val = describe_operand(up, ins[0].args[2])
        r.check("decode_utf8_lossy(" in val and "percent_decode_str(" in val and "next(parts)" in val, "unapply_parts/value=decoded-part", ins[0].loc(), "the bound value is the percent-decoded route segment", "the bound value is `%s`" % val[:80])
        r.check(any(d.endswith(".parameter") and l == "true" for d, l, _ in g), "unapply_parts/binds-only-parameters", ins[0].loc(), "only parameter segments bind")
        # None returns: (part, no segment), (no part, segment), literal mismatch, empty parameter
        nones = []
        for i, j, p, rv, line in up.assigns():
            if p[0] == 0 and not p[1] and describe_rvalue(up, rv) == "Option::None()":
                nones.append([(d, l) for d, l, _ in dom_guards(up, i)])
        def has(gs, a, b):
            return any(d.startswith(a) and l == b for d, l in gs)
        surplus = any(has(gs, "disc(next(parts))", "Some") and has(gs, "disc(next(self.segments", "None") or (has(gs, "disc(next(parts))", "Some") and any(l == "None" and "segments" in d for d, l in gs)) for gs in nones)
        missing = any(has(gs, "disc(next(parts))", "None") and (has(gs, "is_some(", "true") or any(l == "Some" and "segments" in d for d, l in gs)) for gs in nones)
        # the same two facts read off the control flow (a `match (parts.next(), segments.next())` sends both mismatches to one shared arm, which no
        # single test dominates): from the edge on which one side has an element and the other has none, every way on ends in `None`
        none_blocks = {i for i, j, p, rv, line in up.assigns() if p[0] == 0 and not p[1] and describe_rvalue(up, rv) == "Option::None()"}
        s_parts = [si for si in up.switches_on(lambda p_, si: si.get("kind") == "disc") if (switch_desc(up, si["block"]) or "") == "disc(next(parts))"]
        s_segs = [si for si in up.switches_on(lambda p_, si: si.get("kind") == "disc") if (switch_desc(up, si["block"]) or "").startswith("disc(next(") and "segments" in (switch_desc(up, si["block"]) or "")]
        def mismatch_ends_in_none(outer, o_var, inner, i_var):
            for so in outer:
                to = (up.variant_edges(so["block"]) or {}).get(o_var)
                if to is None:
                    continue
                for sn in inner:
                    if not (sn["block"] == to or up.dominates(to, sn["block"])):
                        continue
                    tn = (up.variant_edges(sn["block"]) or {}).get(i_var)
                    if tn is not None and none_blocks and up.must_pass([tn], none_blocks, targets=set(up.exits()) | {so["block"]})[0]:
                        return True
            return False
        surplus = surplus or mismatch_ends_in_none(s_parts, "Some", s_segs, "None") or mismatch_ends_in_none(s_segs, "None", s_parts, "Some")
        missing = missing or mismatch_ends_in_none(s_parts, "None", s_segs, "Some") or mismatch_ends_in_none(s_segs, "Some", s_parts, "None")
        r.check(surplus, "unapply_parts/surplus-route-segment=>None", where(up), "a route with more segments than the pattern does not match", "no None return for a surplus route segment (guards of the None returns: %s)" % nones)
        r.check(missing, "unapply_parts/missing-route-segment=>None", where(up), "a route with fewer segments than the pattern does not match", "no None return for a missing route segment")

    with ctx.rule("C18.R2", "T5", "siblings agree: literal comparison and parameter-name key", floor=5) as r:
        # the normal form in which literal segments are compared: raw text / percent-decoded bytes / lossily decoded text
        def form(d):
            if "decode_utf8_lossy(" in d:
                return "lossy-utf8"
            if "percent_decode_str(" in d or "percent_decode(" in d:
                return "decoded-bytes"
            return "raw"

        def literal_cmp(b0):
            out = []
            # (in the function itself, or in a closure it hands to an adapter: `left.iter().zip(right).all(|(l, r)| ..)`)
            for b in [b0] + list(ro.closures_of(b0.defpath)):
              for c in b.calls:
                  if c.name in ("eq", "ne") and len(c.args) == 2:
                      a0, a1 = describe_operand(b, c.args[0]), describe_operand(b, c.args[1])
                      if "segment_str(" in a0 + a1:
                          out.append((c, form(a0), form(a1)))
            return out
        eqs = literal_cmp(up)
        if len(eqs) != 1:
            raise AnchorMissing("unapply_parts: expected one comparison of a literal segment, found %d" % len(eqs))
        uc, f0, f1 = eqs[0]
        r.check(f0 == f1 and f0 != "raw", "unapply_parts/literal-compare/both-sides-same-form", uc.loc(), "unapply compares route segment and literal in the same form (%s)" % f0, "unapply compares a %s route segment with a %s literal" % (f0, f1))
        cmps_ = literal_cmp(am)
        if not cmps_:
            raise AnchorMissing("are_ambiguous: comparison of literal segments not found")
        cmps = [c for c, _, _ in cmps_]
        for c, g0, g1 in cmps_:
            r.check(g0 == g1 == f0 == f1, "are_ambiguous/literal-compare=same-normal-form-as-unapply", c.loc(), "are_ambiguous compares literals in the form unapply matches them in (%s)" % g0,
                    "are_ambiguous compares literals as %s/%s but unapply matches them as %s/%s: two patterns whose literals are equal in unapply's form and different in are_ambiguous's accept the same routes without being reported (raw vs decoded: /a%%2Db and /a-b; bytes vs lossy text: /caf%%E9 and /caf%%E8)" % (g0, g1, f0, f1))
        # every reason for which are_ambiguous answers `false` must be one that rules out a common route for *all* URIs.
        # unapply treats a scheme as a wildcard when either the pattern or the URI has none, so the scheme never separates
        # two patterns; only the segment count, a pair of unequal literals and absolute-vs-relative do.
        DECISIVE = ("len(", ".parameter", "segment_str(", "percent_decode", ".segments", "absolute", "disc(next(", "next(into_iter(")
        for i, j, p, rv, line in am.assigns():
            if p[0] == 0 and not p[1] and describe_rvalue(am, rv) == "False":
                g = guards(am, i)
                alien = [d for d, l, _ in g if not any(t in d for t in DECISIVE)]
                r.check(not alien, "are_ambiguous/false-only-for-decisive-reasons", am.loc(line), "`false` is returned only on grounds that exclude a common route for every URI (segment count, unequal literals)",
                        "are_ambiguous answers false on the ground of `%s`, which unapply does not treat as decisive (a pattern without a scheme matches URIs of any scheme, and a URI without a scheme is matched by patterns of any scheme): two patterns that both match the same URI are accepted as unambiguous" % (alien[0][:80] if alien else ""))
        g = dom_guards(cmps[0].body, cmps[0].block)
        r.check(sum(1 for d, l, _ in g if d.endswith(".parameter") and l == "false") == 2, "are_ambiguous/only-literal-pairs-can-differ", cmps[0].loc(), "a pair of segments separates two patterns only if both are literals")
        lens = [c for c in am.calls if c.name == "len" and "segments" in describe_operand(am, c.args[0])]
        r.check(len(lens) == 2, "are_ambiguous/length-test", where(am), "patterns of different length are not ambiguous (unapply requires the exact number of segments)")
        # the parameter-name key
        key_un = describe_operand(up, ins[0].args[1])
        gets = [c for c in ap.calls if c.name == "get" and "HashMap" in str(c.self_adt)]
        if len(gets) != 1:
            raise AnchorMissing("apply: params.get")
        key_ap = describe_operand(ap, gets[0].args[1])
        pm = [b for b in ro.all_bodies() if "RoutePattern::parameters::{closure#1}" in b.defpath]
        key_pm = None
        if pm:
            for c in pm[0].calls:
                if c.name == "segment_str":
                    key_pm = "segment_str"
        norm = lambda s: "decoded" if "percent_decode" in s or "decode_utf8" in s else ("raw" if "segment_str(" in s else "?")
        r.check(norm(key_un) == norm(key_ap) == "raw" and key_pm == "segment_str", "parameter-name/same-key-in-unapply-apply-parameters", ins[0].loc(), "the parameter name is the raw pattern text in unapply, apply and parameters()",
                "unapply keys parameters by the %s name, apply looks them up by the %s name: the map returned by unapply cannot be given back to apply for names containing escapes" % (norm(key_un), norm(key_ap)))

    with ctx.rule("C18.R3", "T5", "what apply leaves unescaped is what the route-URI grammar accepts", floor=5) as r:
        ipc = ctx.saw(ro.fn(suffix="route_uri::parser::is_path_char"))
        path_ok = set()
        for i, j, p, rv, line in ipc.assigns():
            if rv[0] == "bin" and rv[1] == "Eq" and rv[3][0] == "k":
                v = rv[3][1].get("v")
                if isinstance(v, int):
                    path_ok.add(v)
        if any(c.name == "is_ascii_alphanumeric" for c in ipc.calls):
            path_ok |= {b for b in range(128) if chr(b).isalnum()}
        if len(path_ok) < 70:
            raise AnchorMissing("is_path_char: could not read the accepted character set (%d)" % len(path_ok))
        encs = [c for c in ap.calls if c.name == "utf8_percent_encode"]
        r.check(len(encs) == 2, "apply/encodes-values-and-literals", where(ap), "apply percent-encodes parameter values and literal segments", "apply has %d percent-encode sites (values and literals expected)" % len(encs))
        for c in encs:
            src = describe_operand(ap, c.args[0])
            which = "value" if "get(params" in src else "literal"
            cn = c.args[1][1].get("item") if c.args[1][0] == "k" else None
            if not cn:
                # the set handed on through a helper's parameter: the one named constant it can be
                items_ = {x[2].get("item") for x in ap.sources(c.args[1], stop_at_calls=False) if x[0] == "const" and isinstance(x[2], dict) and x[2].get("item")}
                cn = next(iter(items_)) if len(items_) == 1 else None
            if not cn:
                r.bad("apply/%s/encode-set" % which, c.loc(), "the AsciiSet passed to utf8_percent_encode is not a named constant")
                continue
            enc = ascii_set(ro.const(cn.split("swimos_route::")[-1]))
            plain = {b for b in range(0x21, 0x7f) if b not in enc}
            bad = sorted(chr(b) for b in plain if b not in path_ok and not (which == "literal" and b == ord("%")))
            r.check(not bad, "apply/%s/unescaped-bytes-are-path-chars" % which, c.loc(), "every byte left unescaped (%s) is accepted in a path segment by the route-URI parser" % "".join(sorted(chr(b) for b in plain)),
                    "apply leaves %s unescaped in a %s but the route-URI grammar does not accept it in a path: the route produced does not parse (or parses as a truncated path) and does not match the pattern" % (bad, which))
            if which == "value":
                r.check(ord("/") in enc and ord("%") in enc and 0x20 in enc, "apply/value/separator-and-escape-are-escaped", c.loc(), "'/', '%' and space are always escaped in a parameter value")
            else:
                r.check(ord("%") not in enc and ord("/") in enc, "apply/literal/existing-escapes-kept", c.loc(), "existing %XX escapes of the pattern are kept")
        ru = ctx.saw(ro.fn(suffix="route_uri::parser::route_uri"))
        r.check(any(c.name == "all_consuming" for c in ru.calls) or any("eof" == c.name for c in ru.calls), "route_uri/parser-consumes-all-input", where(ru), "the route-URI parser requires the whole input to be a URI",
                "route_uri accepts a valid prefix and ignores the rest: '/x/a^b' parses as path '/x/a', so a truncated parameter is bound")
        emp = [c for c in ap.calls if c.name == "is_empty" and "get(params" in describe_operand(ap, c.args[0])]
        emp_ok = len(emp) == 1
        if not emp:
            # `params.get(name).filter(|value| !value.is_empty())`: the same test as a predicate on the looked-up value
            for c in ap.calls:
                if c.name == "filter" and c.args and "get(params" in describe_operand(ap, c.args[0]):
                    for cd in c.callee.get("closure_args", ()):
                        if cd in ro.by_def and any(x.name == "is_empty" for x in ro.body(cd).calls):
                            rets_ = [describe_rvalue(ro.body(cd), rv) for i, j, p, rv, line in ro.body(cd).assigns() if p[0] == 0 and not p[1]]
                            if rets_ and all(x.startswith("Not(is_empty(") for x in rets_):
                                emp_ok = True
                                emp = [c]
        r.check(emp_ok, "apply/empty-value-is-missing", emp[0].loc() if emp else where(ap), "an empty parameter value is reported as missing (it could not be matched back)")

    with ctx.rule("C18.R4", "T2", "the plane refuses ambiguous routes; the server resolves by the URI alone", floor=5) as r:
        sa = ctx.crate(SA)
        bd = ctx.saw(sa.fn(name="build", self_adt="plane::PlaneBuilder"))
        amb = [c for c in bd.calls if c.name == "are_ambiguous"]
        if len(amb) != 1:
            raise AnchorMissing("PlaneBuilder::build: are_ambiguous call")
        # every unordered pair of routes is tested: two nested iterations, the inner one started afresh for every outer element and covering
        # every later element (whatever iterator adaptors or index ranges spell it)
        nxt = [c for c in bd.calls if c.name == "next" and bd.reaches(c.block, {amb[0].block}) and bd.reaches(amb[0].block, {c.block})]
        r.check(len(nxt) >= 2, "build/doubly-nested", where(bd), "are_ambiguous is called inside two nested iterations")
        if len(nxt) >= 2:
            outer = [c for c in nxt if all(bd.dominates(c.block, x.block) for x in nxt)]
            inner = [c for c in nxt if c not in outer]
            if len(outer) != 1 or not inner:
                raise AnchorMissing("PlaneBuilder::build: cannot tell the outer from the inner iteration")
            it = bd.copy_root(inner[-1].args[0])
            # the cursor that is really advanced: through `into_iter` (identity on an iterator) and `by_ref` / `&mut` (a borrow of another cursor)
            for _ in range(6):
                ds = bd.defs.get(it, ())
                if len(ds) == 1 and ds[0][0] == "call" and ds[0][2].name in ("into_iter", "by_ref") and ds[0][2].args:
                    nx = bd.copy_root(ds[0][2].args[0])
                    if nx is None or nx == it:
                        break
                    it = nx
                else:
                    break
            defs = [d for d in bd.defs.get(it, ())]
            dblocks = {d[1] for d in defs}
            fresh = bool(dblocks) and all(bd.dominates(outer[0].block, b_) and b_ != outer[0].block and bd.reaches(b_, {outer[0].block}) for b_ in dblocks)
            r.check(fresh, "build/inner-iteration-restarts-for-every-route", inner[-1].loc(), "the inner iterator is built inside the outer loop: every route is compared with the routes after it",
                    "the inner iteration is not started afresh for each outer route (one cursor shared by all outer iterations): after the first route the inner loop is empty, so only pairs with the first route are tested")
            src = describe_operand(bd, inner[-1].args[0]).replace("AddWithOverflow(", "Add(").replace(").0", ")")
            sk = [c for c in bd.calls if c.name == "skip" and bd.dominates(outer[0].block, c.block)]
            if sk:
                off = describe_operand(bd, sk[0].args[1]).replace("AddWithOverflow(", "Add(")
                r.check(off.startswith("Add(") and ", 1)" in off and "<Some>" in off, "build/inner-loop-skips-i+1", sk[0].loc(), "inner iterator = routes.skip(i + 1): every unordered pair is tested once",
                        "the inner loop does not start at i + 1: %s (a route compared with itself is always `ambiguous`; starting later leaves pairs untested)" % off)
            else:
                rng = [a for a in aggregates(bd, "core::ops::range::Range") if bd.dominates(outer[0].block, a[0])]
                offs = [describe_operand(bd, a[2][0]).replace("AddWithOverflow(", "Add(") for a in rng]
                distinct = any(d.startswith(("Ne(", "Lt(", "Gt(")) or (d.startswith("Eq(") and l == "false") for d, l, _ in dom_guards(bd, amb[0].block))
                r.check(any(o.startswith("Add(") and ", 1)" in o for o in offs) or distinct, "build/inner-loop-skips-i+1", inner[-1].loc(), "the inner iteration starts after the outer element, or equal indices are excluded",
                        "the inner iteration neither starts at i + 1 nor excludes i == j (inner source: %s)" % src[:80])
        a0, a1 = describe_operand(bd, amb[0].args[0]), describe_operand(bd, amb[0].args[1])
        r.check(a0 != a1 and "<Some>" in a0 and "<Some>" in a1, "build/compares-outer-with-inner", amb[0].loc(), "are_ambiguous(p, q) with p from the outer and q from the inner iteration")
        be = bd.bool_edges(amb[0])
        insr = [c for c in bd.calls if c.name == "insert" and "HashSet" in str(c.self_adt)]
        r.check(be is not None and len(insr) == 2 and all(bd.dominates(be[0], c.block) for c in insr), "build/ambiguous=>both-recorded", amb[0].loc(), "a positive test records both indices")
        errs = [(i, line) for i, j, p, rv, line in bd.assigns() if describe_rvalue(bd, rv).startswith("Result::Err(")]
        oks = [(i, line) for i, j, p, rv, line in bd.assigns() if describe_rvalue(bd, rv).startswith("Result::Ok(")]
        ge = [dom_guards(bd, i) for i, _ in errs]
        go = [dom_guards(bd, i) for i, _ in oks]
        r.check(len(errs) == 1 and len(oks) == 1 and any(d.startswith("is_empty(") and l == "false" for d, l, _ in ge[0]) and any(d.startswith("is_empty(") and l == "true" for d, l, _ in go[0]), "build/Err-iff-any-ambiguous", where(bd),
                "build returns Err(AmbiguousRoutes) exactly when the set of ambiguous routes is not empty", "build returns Ok although ambiguous routes were found (guards: Ok %s)" % (go[0] if go else None))
        fr = [b for b in sa.all_bodies() if "Routes::find_route" in b.defpath]
        if not fr:
            raise AnchorMissing("Routes::find_route")
        calls = [c.name for b in fr for c in b.calls if c.name in ("unapply_route_uri", "unapply_str", "find_map", "find")]
        for b in fr:
            ctx.saw(b)
        # in order, first match wins: `iter().find_map(..)`, or a loop over the routes that returns from inside on the first Ok
        in_order = "find_map" in calls
        for b in fr:
            for c in b.calls:
                if c.name == "unapply_route_uri":
                    se = success_edge(b, c, "Ok")
                    nx = [x for x in b.calls if x.name == "next" and b.dominates(x.block, c.block)]
                    if se is not None and nx and not b.reaches(se, {nx[0].block}) and not any(x.name in ("rev", "sort", "sort_by", "sort_by_key", "last", "max_by", "min_by") for x in b.calls):
                        in_order = True
        r.check("unapply_route_uri" in calls and in_order, "find_route/first-pattern-that-unapplies", where(fr[0]), "a node URI is resolved by RoutePattern::unapply_route_uri over the routes in order (URI alone)", "find_route uses %s" % calls)
        # registration goes through the builder (so the ambiguity check cannot be bypassed): who pushes onto PlaneModel.routes
        pushers = set()
        for b in sa.all_bodies():
            for c in b.calls:
                if c.name == "push" and c.args:
                    p = c.arg_path(0)
                    if p is not None and p.has_field("plane::PlaneModel", "routes"):
                        pushers.add(b.defpath.split("::{")[0])
        r.check(all("PlaneBuilder" in x for x in pushers) and pushers, "PlaneModel.routes/only-the-builder-adds-routes", "-", "routes are added only by %s" % sorted(x.split("::")[-1] for x in pushers), "routes are added outside the builder: %s" % sorted(pushers))

    with ctx.rule("C18.R4b", "T5", "every meta route the server registers is tested against the user's routes", floor=5) as r:
        si = ctx.crate("swimos_introspection")
        regs = [b for b in si.all_bodies() if any(c.name == "register" for c in b.calls) and "::tests" not in b.defpath]
        if not regs:
            raise AnchorMissing("swimos_introspection: no function registers a meta route")

        def pattern_fns(body, op):
            return {c.name for c in body.derives_from_call(op, lambda c: "swimos_introspection::route::" in (c.defpath or ""))}
        registered = {}
        for b in regs:
            ctx.saw(b)
            for c in b.calls:
                if c.name == "register" and len(c.args) >= 2:
                    fs = pattern_fns(b, c.args[1])
                    r.check(bool(fs), "%s/register/pattern-from-route-module#%d" % (b.defpath.split("::")[-1], len(registered)), c.loc(), "the registered meta pattern is %s" % sorted(fs), "a meta route is registered with a pattern that does not come from swimos_introspection::route: %s" % describe_operand(b, c.args[1])[:80])
                    for f in fs:
                        registered[f] = c.loc()
        cm = ctx.saw(sa.fn(name="check_meta_collisions", self_adt="plane::PlaneModel"))
        tested = {}
        for c in cm.calls:
            if c.name == "are_ambiguous":
                fs = pattern_fns(cm, c.args[0]) | pattern_fns(cm, c.args[1])
                other = [describe_operand(cm, a) for a in c.args if not pattern_fns(cm, a)]
                ok_user = any("self.routes" in o for o in other)
                for f in fs:
                    if ok_user:
                        tested[f] = c
        for f, loc in sorted(registered.items()):
            r.check(f in tested, "check_meta_collisions/tests-%s" % f, tested[f].loc() if f in tested else where(cm), "the registered meta pattern %s() is compared with every user route" % f,
                    "the meta route %s() is registered (%s) but check_meta_collisions never compares it with the user's routes: a user route that also matches it is accepted" % (f, loc))
        # a positive test makes the check fail: the route is recorded and a non-empty record is an error
        # the record of colliding routes is the vector whose emptiness decides the result (its name is a local's)
        ie = [c for c in cm.calls if c.name == "is_empty" and "Vec" in c.defpath]
        rec_local = cm.copy_root(ie[0].args[0]) if len(ie) == 1 else None
        pushes = [c for c in cm.calls if c.name == "push" and rec_local is not None and cm.copy_root(c.args[0]) == rec_local]
        heads = {c.block for c in cm.calls if c.name == "next" and "self.routes" in describe_operand(cm, c.args[0])}
        for f, c in sorted(tested.items()):
            ok = bool(heads) and any(cm.reaches(tr, heads) and cm.must_pass([tr], {p_.block for p_ in pushes}, targets=heads)[0] for tr, fa, b in cm.bool_switches_from(c))
            r.check(ok, "check_meta_collisions/%s-collision-recorded" % f, c.loc(), "when a route is ambiguous with %s() it is recorded before the next route is examined" % f, "a positive are_ambiguous(%s(), route) does not record the route: the check can still return Ok" % f)
        errs = [i for i, j, p_, rv, line in cm.assigns() if describe_rvalue(cm, rv).startswith("Result::Err(")]
        oks = [i for i, j, p_, rv, line in cm.assigns() if describe_rvalue(cm, rv).startswith("Result::Ok(")]
        r.check(len(errs) == 1 and len(oks) == 1 and len(ie) == 1 and bool(pushes) and any(d.startswith("is_empty(") and l == "true" for d, l, _ in dom_guards(cm, oks[0])) and any(d.startswith("is_empty(") and l == "false" for d, l, _ in dom_guards(cm, errs[0])),
                "check_meta_collisions/Err-iff-any-recorded", where(cm), "Err(AmbiguousRoutes) exactly when a route was recorded")
        callers = [(b, c) for b in sa.all_bodies() for c in b.calls if c.name == "check_meta_collisions"]
        r.check(len(callers) >= 1 and all(b.try_edges(c) is not None for b, c in callers), "build_server/collision-check-is-propagated", callers[0][1].loc() if callers else "-", "the server builder runs the check and propagates its error with ?", "check_meta_collisions is not called, or its result is dropped")

    with ctx.rule("C18.R5", "T9", "panic audit of route_pattern and route_uri", floor=3) as r:
        ALLOW = {
            ("segment_str", "index"): "start..end recorded by the pattern parser at char boundaries of the same string",
            ("scheme_str", "index"): "0..scheme offset recorded by the pattern parser (position of ':')",
            ("apply", "expect"): "fmt::Write for String never fails",
            ("next", "index"): "PathSegmentIterator: offsets returned by str::find on the same string",
        }
        nb = 0
        for b in ro.all_bodies():
            if "::tests" in b.defpath:
                continue
            nb += 1
            fn = b.defpath.split("::{")[0].split("::")[-1]
            for k_, (kind, desc, line, blk) in enumerate(panic_sites(b, include_index=True)):
                why = ALLOW.get((fn, kind.split(":")[0]))
                if why is None and kind.startswith("index") and fn in ("path", "query", "fragment", "scheme", "path_iter", "new"):
                    why = "offsets computed by the URI parser on the same string (nom spans)"
                r.check(why is not None, "%s/%s#%d" % (fn, kind.split(":")[0], k_), b.loc(line), "%s: %s" % (kind, why), "potential panic on a pattern or URI: %s %s" % (kind, desc[:80]))
        r.check(nb >= 30, "scope/bodies", "-", "%d bodies audited" % nb)
