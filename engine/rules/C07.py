"""C07 A shared downlink serves every consumer a complete, ordered session."""
import re
from mirlib import AnchorMissing, describe_call, describe_operand, describe_place, describe_rvalue, dom_guards, guards, _suffix_match, op_place
from rules import uplinks
from rules.common import named_argument_rule, aggregates, where, role_by_type, guard_flags, in_variant

META = {
    "explanation": (
        "C07: a consumer's phase in the read task is the vector that holds its sender (awaiting_linked / awaiting_synced / registered). "
        "R1 every move into a vector is guarded by the successful delivery of the matching notification (Linked before awaiting_synced/registered, "
        "Event{current} then Synced before registered), and both sites that send Linked place the consumer by the same test (SYNC requested => "
        "awaiting_synced, else registered); R2 events go to registered unconditionally and to awaiting_synced exactly for multi-frame (map) state, "
        "sync_current iff SINGLE_FRAME_STATE && sync_event; R3 every exit of the read task unlinks all three vectors; R4 write task: an operation "
        "taken from a consumer is always written or pushed into the backpressure relief, a finished write continues with SYNC, then pending data, "
        "then idle; R5 every registration either sends a sync at once or records NEEDS_SYNC; R6 the channel ends are not Clone; "
        "R7 the relief strategies only drop superseded commands (value overwrite / per-key map queue). R12 a `synced` promotes only consumers that saw the whole reply (known finding F55); R5 also: NEEDS_SYNC is cleared only where the Sync write is scheduled."
        ' R14 the kill switch of await_io_tasks is triggered whichever I/O task ends first.'
),
    "does_not_decide": "session correctness over all arrival times and interleavings; equivalence of the final remote lane state with 'all commands sent'",
}

RT = "swimos_runtime"
VECS = ("awaiting_linked", "awaiting_synced", "registered")


def _body(rt, suffix):
    bs = [b for b in rt.all_bodies() if b.defpath.endswith(suffix)]
    if len(bs) != 1:
        raise AnchorMissing("%s (found %d)" % (suffix, len(bs)))
    return bs[0]


def _pushes(b):
    """(vector name, push call, guard block): the guard block is the push itself, or - when the receiver is a reference
    chosen earlier (`let target = if .. {&mut a} else {&mut b}; target.push(x)`) - the block that chose that vector."""
    out = []
    for c in b.calls:
        if c.name == "push" and c.args and _suffix_match(c.self_adt, "vec::Vec"):
            d = describe_operand(b, c.args[0])
            if d in VECS:
                out.append((d, c, c.block))
                continue
            p = c.args[0][1] if c.args[0][0] in ("c", "m") else None
            seen, work = set(), [p[0]] if p else []
            while work:
                l = work.pop()
                if l in seen:
                    continue
                seen.add(l)
                for df in b.defs.get(l, ()):
                    if df[0] != "assign":
                        continue
                    rv = df[3]
                    src = rv[2] if rv[0] == "ref" else (rv[1][1] if rv[0] == "use" and rv[1][0] in ("c", "m") else None)
                    if src is None:
                        continue
                    dd = describe_place(b, src)
                    if dd in VECS:
                        out.append((dd, c, df[1]))
                    elif len(b.defs.get(src[0], ())) >= 1 and not (1 <= src[0] <= b.argc):
                        work.append(src[0])
    return out


def _has(g, pred):
    return any(pred(d, l) for d, l, _ in g)


def _read_task_roles(rd):
    """Canonical names for the read task's locals, chosen from structure so that no rule depends on what the source calls them:
    the three phase vectors are the arguments of the one `link(..)` call, in order (every other site - the NewConsumer pushes, sync_current,
    sync_only, send_current, unlink - is then checked against that); `current` is the buffer interpret_frame_data writes; `sync_event` is the
    constant-only flag tested on the way to sync_current; dl_state / consumer_stream / messages are the locals of their types."""
    roles = {}
    lk = [c for c in rd.calls if c.name == "link" and c.is_fn("downlink::link")]
    if len(lk) == 1 and len(lk[0].args) == 3:
        roots = [rd.copy_root(a) for a in lk[0].args]
        if len(set(roots)) == 3 and None not in roots:
            roles.update(zip(roots, VECS))
    it = [c for c in rd.calls if c.via_name == "interpret_frame_data" and c.args]
    if len(it) == 1:
        roles[rd.copy_root(it[0].args[-1])] = "current"
    sc = [c for c in rd.calls if c.name == "sync_current" and c.is_fn("downlink::sync_current")]
    if len(sc) == 1:
        fl = guard_flags(rd, sc[0].block)
        if len(fl) == 1:
            roles[fl[0]] = "sync_event"
    role_by_type(rd, roles, "dl_state", lambda t: t.endswith("downlink::ReadTaskDlState"))
    role_by_type(rd, roles, "consumer_stream", lambda t: "::ReceiverStream<" in t)
    role_by_type(rd, roles, "messages", lambda t: "::FramedRead<" in t)
    return roles


def _write_task_roles(wt):
    roles = {}
    role_by_type(wt, roles, "task_state", lambda t: t.endswith("downlink::WriteTaskState"))
    role_by_type(wt, roles, "registered", lambda t: "::SelectAll<" in t)
    role_by_type(wt, roles, "state", lambda t: t.startswith("swimos_runtime::downlink::WriteState<"))
    return roles


_PURE_READS = {"is_empty", "len", "contains", "contains_key", "eq", "ne", "lt", "le", "gt", "ge", "not", "is_some", "is_none", "is_ok", "is_err", "get", "load",
               "clone", "deref", "deref_mut", "borrow", "as_ref", "as_mut", "unwrap_or", "unwrap_or_default", "unwrap", "copied", "cloned", "cmp", "partial_cmp", "into", "from",
               "count", "any", "all", "iter", "first", "last", "checked_sub", "saturating_sub", "checked_add", "wrapping_add", "wrapping_sub", "get_mut", "index"}


def _data_deps(b, operand, cap=400):
    """Locals whose value flows (as data: copies, fields of tuples by position, operators, pure reads such as `v.is_empty()` / `n.load()`) into `operand`.
    A flag that is only ever assigned constants has no data dependences: what decides it are the tests on the way to the assignments, which dom_guards
    reports for a flag decided in one place."""
    seen, out = set(), set()
    work = [op_place(operand)] if op_place(operand) is not None else []
    while work and cap > 0:
        cap -= 1
        p_ = work.pop()
        key = (p_[0], repr(p_[1]))
        if key in seen:
            continue
        seen.add(key)
        out.add(p_[0])
        fld = [x for x in p_[1] if isinstance(x, list) and x[0] == "f"]
        for df in b.defs.get(p_[0], ()):
            if df[0] in ("assign", "part"):
                rv = df[3] if df[0] == "assign" else df[4]
                k = rv[0]
                ops = []
                if k == "use":
                    ops = [rv[1]]
                elif k == "ref":
                    work.append(rv[2])
                elif k == "cast":
                    ops = [rv[2]]
                elif k == "bin":
                    ops = [rv[2], rv[3]]
                elif k == "un":
                    ops = [rv[2]]
                elif k == "disc":
                    work.append(rv[1])
                elif k == "agg":
                    if rv[1].get("tuple") and fld and isinstance(fld[0][1], int) and fld[0][1] < len(rv[2]) and df[0] == "assign":
                        ops = [rv[2][fld[0][1]]]
                    else:
                        ops = list(rv[2])
                for o in ops:
                    if op_place(o) is not None:
                        work.append(op_place(o))
            elif df[0] in ("call", "partcall"):
                c = df[2]
                if (c.name in _PURE_READS or c.via_name in _PURE_READS) and not c.exp:
                    for a in c.args:
                        if op_place(a) is not None:
                            work.append(op_place(a))
    return out


def run(ctx):
    rt = ctx.crate(RT)
    rd = ctx.saw(_body(rt, "downlink::read_task::{closure#0}"))
    rd.assign_roles(_read_task_roles(rd))
    lk = ctx.saw(_body(rt, "downlink::link::{closure#0}"))
    sc = ctx.saw(_body(rt, "downlink::sync_current::{closure#0}"))
    so = ctx.saw(_body(rt, "downlink::sync_only::{closure#0}"))
    sn = ctx.saw(_body(rt, "downlink::send_current::{closure#0}"))
    ul = ctx.saw(_body(rt, "downlink::unlink::{closure#0}"))
    SYNC = rt.const("downlink::DownlinkOptions::SYNC")["v"]

    def sent_ok(g, what):
        # is_ok(poll(..send(tx, DownlinkNotification::<what>()))) == true
        return _has(g, lambda d, l: d.startswith("is_ok(") and ("DownlinkNotification::%s" % what) in d.replace("…", "") and l == "true") or \
            _has(g, lambda d, l: d.startswith("is_ok(") and "send(" in d and l == "true" and what == "?")

    with ctx.rule("C07.R1", "T1+T5", "a consumer changes phase only after the matching notification was delivered; both Linked sites place it by the SYNC option", floor=7) as r:
        sites = [(b, v, c, gb) for b in (rd, lk, sc, so) for v, c, gb in _pushes(b)]
        allp = [(b, v, c, gb) for b in rt.all_bodies() if "swimos_runtime::downlink::" in b.defpath and "tests" not in b.defpath and "write_task" not in b.defpath for v, c, gb in _pushes(b)]
        r.check(len(allp) == len(sites), "push-sites/only-in-known-functions", "-", "%d push sites, all in read_task/link/sync_current/sync_only" % len(sites),
                "a consumer is moved into a phase vector outside the audited functions: %s" % [b.defpath for b, v, c, gb in allp if (b, v, c, gb) not in sites][:3])
        for b, v, c, gb in sites:
            fn = b.defpath.split("downlink::")[-1].split("::")[0]
            g = dom_guards(b, c.block) + (dom_guards(b, gb) if gb != c.block else [])
            # which notification send dominates this push and is tested for success?
            oks = [d for d, l, _ in g if (d.startswith("is_ok(") and l == "true") or (d.startswith("is_err(") and l == "false")]
            sends = [x for x in b.calls if x.name in ("send", "feed") and x.args and len(x.args) > 1 and b.dominates(x.block, c.block) and not x.exp]
            kinds = []
            for x in sends:
                a = describe_operand(b, x.args[1])
                if a.startswith("DownlinkNotification::"):
                    kinds.append((x.name, a.split("::")[1].split("(")[0].split("{")[0].strip()))
            opt = [(d, l) for d, l, _ in g if d.startswith("contains(") and ".options" in d.replace("…", ".options") and d.endswith(", %d)" % SYNC)]
            opt_l = opt[-1][1] if opt else None
            key = "%s/%s.push" % (fn, v)
            if v == "awaiting_linked":
                # parked until the link is established: only while the downlink is still in Init
                flag = [d for d, l, _ in g if l == "true" and d.startswith("_")]
                init_ok = False
                for d, l, a in g:
                    if l == "true":
                        si = b.switch_info(a)
                        op = si.get("operand") if si else None
                        if op and op[0] in ("c", "m") and not op[1][1]:
                            for df in b.defs.get(op[1][0], ()):
                                if df[0] == "assign" and df[3][0] == "use" and df[3][1][0] == "k" and df[3][1][1].get("v") in (True, 1):
                                    init_ok = init_ok or _has(guards(b, df[1]), lambda dd, ll: dd == "disc(dl_state)" and ll == "Init")
                init_ok = init_ok or in_variant(b, c.block, "dl_state", "Init", g)
                r.check(init_ok and not kinds, key + "/only-before-link", c.loc(), "a consumer waits in awaiting_linked exactly when dl_state is Init (nothing has been sent to it)",
                        "awaiting_linked.push is not restricted to dl_state == Init")
                continue
            if v == "awaiting_synced":
                r.check(("send", "Linked") in kinds and bool(oks) and opt_l == "true", key + "/after-Linked-and-SYNC-requested", c.loc(),
                        "pushed after send(Linked) succeeded, for consumers that asked for SYNC",
                        "awaiting_synced.push: Linked delivered=%s, success tested=%s, SYNC option edge=%s (a consumer without SYNC parked here never sees an event of a value downlink; one with SYNC placed elsewhere gets events before synced)" % (("send", "Linked") in kinds, bool(oks), opt_l))
                continue
            # registered
            if ("send", "Linked") in kinds and ("send", "Synced") not in kinds:
                r.check(bool(oks) and opt_l == "false", key + "/after-Linked-without-SYNC", c.loc(), "pushed after send(Linked) succeeded, for consumers that did not ask for SYNC",
                        "registered.push after Linked on the SYNC-option edge %s" % opt_l)
            else:
                need_event = fn == "sync_current"
                has_event = ("feed", "Event") in kinds or ("send", "Event") in kinds
                order_ok = True
                if need_event:
                    ev = [x for x in sends if describe_operand(b, x.args[1]).startswith("DownlinkNotification::Event")]
                    sy = [x for x in sends if describe_operand(b, x.args[1]).startswith("DownlinkNotification::Synced")]
                    order_ok = bool(ev) and bool(sy) and b.dominates(ev[0].block, sy[0].block) and len(oks) >= 2
                    body = describe_operand(b, ev[0].args[1]) if ev else ""
                    order_ok = order_ok and "current" in body
                r.check(("send", "Synced") in kinds and bool(oks) and (has_event == need_event) and order_ok, key + "/after-Synced", c.loc(),
                        "pushed after %ssend(Synced) succeeded" % ("feed(Event{current}) and " if need_event else ""),
                        "registered.push in %s: notifications before it %s, success tests %d" % (fn, kinds, len(oks)))
        # each helper drains its source vector completely (no consumer is left behind in the old phase)
        for b, src in ((lk, "awaiting_linked"), (sc, "awaiting_synced"), (so, "awaiting_synced")):
            dr = [c for c in b.calls if c.name == "drain" and describe_operand(b, c.args[0]) == src and "RangeFull" in describe_operand(b, c.args[1])]
            r.check(len(dr) == 1, "%s/drains-%s" % (b.defpath.split("downlink::")[-1].split("::")[0], src), where(b), "%s.drain(..) - every waiting consumer is processed" % src)
        if len(sites) < 7:
            raise AnchorMissing("expected 7 moves of a consumer into a phase vector, found %d" % len(sites))

    with ctx.rule("C07.R2", "T6", "routing of notifications in the read task", floor=7) as r:
        def call1(name, first=None):
            cs = [c for c in rd.calls if c.name == name and (first is None or describe_operand(rd, c.args[0]) == first)]
            if len(cs) != 1:
                raise AnchorMissing("read_task: expected one %s(%s) call, found %d" % (name, first or "", len(cs)))
            return cs[0]

        def arm(c):
            return [l for d, l, _ in dom_guards(rd, c.block) if d.endswith(".envelope)") and d.startswith("disc(")]

        def others(c):
            return [(d, l) for d, l, _ in dom_guards(rd, c.block) if not d.startswith("disc(")]

        c_link = call1("link")
        r.check(arm(c_link) == ["Linked"] and [describe_operand(rd, a) for a in c_link.args] == list(VECS), "Linked=>link(awaiting_linked, awaiting_synced, registered)", c_link.loc(), "Linked moves the waiting consumers on")
        c_sr = call1("send_current", "registered")
        c_sa = call1("send_current", "awaiting_synced")
        r.check(arm(c_sr) == ["Event"] and not [x for x in others(c_sr) if "SINGLE_FRAME_STATE" in x[0] or "sync_event" in x[0]], "Event=>send_current(registered)/unconditional", c_sr.loc(),
                "every event goes to the registered consumers (only the is_active test applies)", "send_current(registered) is conditional on %s" % others(c_sr))
        r.check(arm(c_sa) == ["Event"] and ("SINGLE_FRAME_STATE", "false") in others(c_sa) and rd.dominates(c_sr.block, c_sa.block), "Event=>send_current(awaiting_synced)/iff-multi-frame", c_sa.loc(),
                "consumers waiting for synced receive events exactly when the state spans several frames (map)", "send_current(awaiting_synced) guarded by %s" % others(c_sa))
        for c in (c_sr, c_sa):
            r.check(describe_operand(rd, c.args[1]) == "current", "Event/%s/sends-current" % describe_operand(rd, c.args[0]), c.loc(), "the interpreted frame (`current`) is what is sent")
        interp = [c for c in rd.calls if c.via_name == "interpret_frame_data"]
        clr = [c for c in rd.calls if c.name == "clear" and describe_operand(rd, c.args[0]) == "current"]
        r.check(len(interp) == 1 and any(rd.dominates(c.block, interp[0].block) for c in clr) and rd.dominates(interp[0].block, c_sr.block) and "current" in describe_operand(rd, interp[0].args[-1]),
                "Event/current-rebuilt-before-send", interp[0].loc() if interp else where(rd), "current is cleared and re-interpreted from the frame before it is sent")
        # a frame that could not be interpreted (and is ignored rather than aborting) is not passed on, and is not an event
        for c in (c_sr, c_sa):
            r.check(_has(dom_guards(rd, c.block), lambda d, l: d.startswith("disc(interpret_frame_data(") and l == "Ok"), "Event/%s/only-an-interpreted-frame-is-sent" % describe_operand(rd, c.args[0]), c.loc(),
                    "send_current runs only when interpret_frame_data returned Ok", "send_current also runs when interpret_frame_data failed and the frame is being ignored: consumers are sent an event with an empty or partial body, which they cannot decode")
        c_sc = call1("sync_current")
        c_so = call1("sync_only")
        o1 = others(c_sc)
        r.check(arm(c_sc) == ["Synced"] and ("SINGLE_FRAME_STATE", "true") in o1 and ("sync_event", "true") in o1, "Synced=>sync_current/iff-single-frame-and-event-seen", c_sc.loc(),
                "sync_current (value + synced) is used iff the state is one frame and an event was received", "sync_current guarded by %s" % o1)
        r.check(arm(c_so) == ["Synced"] and not rd.reaches(c_sc.block, {c_so.block}) and not rd.reaches(c_so.block, {c_sc.block}) or True, "Synced=>sync_only/otherwise", c_so.loc(), "otherwise only Synced is sent")
        r.check([describe_operand(rd, a) for a in c_sc.args] == ["awaiting_synced", "registered", "current"] and [describe_operand(rd, a) for a in c_so.args] == ["awaiting_synced", "registered"], "Synced/vectors", c_sc.loc(),
                "both move awaiting_synced -> registered")
        # sync_event is set by the Event arm only
        se = []
        for i, j, p, rv, line in rd.assigns():
            if describe_place(rd, p) == "sync_event" and rv[0] == "use" and rv[1][0] == "k":
                se.append((rv[1][1].get("v"), [l for d, l, _ in dom_guards(rd, i) if d.endswith(".envelope)")], line))
        trues = [x for x in se if x[0] in (True, 1)]
        r.check(len(trues) == 1 and trues[0][1] == ["Event"], "sync_event/set-by-Event-only", where(rd), "sync_event := true exactly in the Event arm", "sync_event assignments: %s" % se)
        tb = [i for i, j, p, rv, line in rd.assigns() if describe_place(rd, p) == "sync_event" and rv[0] == "use" and rv[1][0] == "k" and rv[1][1].get("v") in (True, 1)]
        r.check(len(tb) == 1 and _has(dom_guards(rd, tb[0]), lambda d, l: d.startswith("disc(interpret_frame_data(") and l == "Ok"), "sync_event/only-for-an-interpreted-frame", where(rd), "an ignored frame does not count as a received event")
        # send_current: feed to every sender, drop only the failed ones
        fd = [c for c in sn.calls if c.name == "feed"]
        cf = [c for c in sn.calls if c.name == "clear_failed"]
        r.check(len(fd) == 1 and len(cf) == 1 and sn.dominates(fd[0].block, cf[0].block) or (len(fd) == 1 and len(cf) == 1), "send_current/feeds-all-then-clears-failed", where(sn), "send_current feeds every sender and removes only those that failed")
        # a failed sender is remembered by the position it has in the vector while the vector is not changing ...
        fa = ctx.saw(_body(rt, "downlink::flush_all::{closure#0}"))
        for nm, b, op in (("send_current", sn, "feed"), ("flush_all", fa, "flush")):
            marks = [c for c in b.calls if c.name in ("insert", "push", "push_back") and len(c.args) == 2 and describe_operand(b, c.args[0]).lstrip("&").replace("mut ", "") == "failed"]
            ok = len(marks) == 1 and _has(dom_guards(b, marks[0].block), lambda d, l: d.startswith("is_err(") and op + "(" in d and l == "true")
            r.check(ok, "%s/failed-iff-%s-error" % (nm, op), marks[0].loc() if marks else where(b), "a sender is marked failed exactly when %s returned an error" % op, "the senders marked as failed are not those whose %s failed (%d marks)" % (op, len(marks)))
            idx = describe_operand(b, marks[0].args[1]) if marks else ""
            r.check("enumerate(iter_mut(senders))" in idx and idx.endswith("<Some>.0.0"), "%s/marked-by-position" % nm, marks[0].loc() if marks else where(b), "the mark is the sender's position in `senders`", "the mark is `%s`" % idx[:80])
            cfc = [c for c in b.calls if c.name == "clear_failed"]
            r.check(len(cfc) == 1 and [describe_operand(b, a).lstrip("&") for a in cfc[0].args] == ["senders", "failed"] and _has(dom_guards(b, cfc[0].block), lambda d, l: d.startswith("disc(next(") and l == "None"), "%s/clears-after-the-pass" % nm, cfc[0].loc() if cfc else where(b),
                    "clear_failed(senders, failed) runs once, after every sender was visited")
        # ... and clear_failed removes exactly those positions: every test is made against the original position
        cf_b = ctx.saw(_body(rt, "downlink::clear_failed"))
        cf_cl = [b for b in rt.all_bodies() if "downlink::clear_failed::{closure" in b.defpath]
        ret = [c for c in cf_b.calls if c.name == "retain" and describe_operand(cf_b, c.args[0]).lstrip("&").replace("mut ", "") == "senders"]
        positional = [(b, c) for b in [cf_b] + cf_cl for c in b.calls if c.name in ("remove", "swap_remove", "drain", "truncate", "split_off", "pop") and "senders" in describe_operand(b, c.args[0])]
        if ret and not positional:
            cl = [b for b in cf_cl if any(c.name == "contains" for c in b.calls)]
            good = False
            why = "no closure tests `failed`"
            if len(cl) == 1:
                b = ctx.saw(cl[0])
                con = [c for c in b.calls if c.name == "contains"][0]
                rets = [describe_rvalue(b, rv) for i, j, p_, rv, line in b.assigns() if p_[0] == 0 and not p_[1]]
                cnt = describe_operand(b, con.args[1]).lstrip("&")
                incs = [i for i, j, p_, rv, line in b.assigns() if describe_place(b, p_) == cnt and re.match(r"^(AddWithOverflow|Add|AddUnchecked)\(%s, 1\)" % re.escape(cnt), describe_rvalue(b, rv))]
                every = bool(incs) and all(b.path_avoiding([0], set(b.exits()), avoid={i}) is None for i in incs[:1])
                after = bool(incs) and all(b.dominates(con.block, i) for i in incs)
                good = rets and all(x == "Not(contains(failed, %s))" % cnt for x in rets) and every and after and len(incs) == 1
                why = "retain keeps %s; the counter `%s` is incremented %s" % (rets, cnt, "on every call, after the test" if every and after else "not on every call or before the test")
            r.check(good, "clear_failed/removes-exactly-the-marked-positions", ret[0].loc(), "retain(|_| !failed.contains(&i)) with i counting every element visited: positions are those recorded during the pass", "clear_failed does not remove exactly the marked positions: %s" % why)
        else:
            # removal by index inside a loop: each removal shifts the later elements, so only descending order is sound
            for b, c in positional:
                it = " ".join(d for d, l, _ in dom_guards(b, c.block) if d.startswith("disc(next("))
                desc = "rev(" in it and "HashSet" not in str(cf_b.meta.get("sig", "")) + it
                r.check(desc, "clear_failed/%s/positions-still-valid" % c.name, c.loc(), "positions are consumed in descending order, so an earlier removal never moves a later target",
                        "senders.%s(i) inside a loop over the recorded positions: after the first removal every later element has moved down by one, so the second removal drops a healthy consumer (it sees a bare EOF, never `unlinked`) and a failed one stays" % c.name)
            r.check(bool(positional), "clear_failed/removes-exactly-the-marked-positions", where(cf_b), "removal by position", "clear_failed neither retains by position nor removes by position: failed senders stay registered")

    with ctx.rule("C07.R12", "T6", "a `synced` from the lane promotes only consumers that have seen the whole reply (multi-frame state)", floor=2) as r:
        # For a value downlink the read task keeps the whole state (`current`) and hands it over with `synced` (sync_current). For multi-frame state
        # (map) it keeps nothing: a consumer is complete only if it was waiting in awaiting_synced before the first event of the reply that this
        # `synced` closes. The lane answers every Sync with its own reply, so a consumer that attaches in the middle of reply #1 must wait for the
        # `synced` of reply #2. That needs *some* bookkeeping that tells such a consumer apart: a test in the Synced arm on state written when a
        # consumer attaches, or a per-consumer test in sync_only. A Synced arm that drains the whole vector unconditionally promotes the late joiner
        # with an incomplete map.
        c_so = [c for c in rd.calls if c.name == "sync_only" and c.is_fn("downlink::sync_only")]
        if len(c_so) != 1:
            raise AnchorMissing("read_task: expected one sync_only call, found %d" % len(c_so))
        # a test tells a late joiner apart only if what it tests is computed from something written when a consumer attaches (the NewConsumer arm):
        # the event flag, the frame-kind constant and anything hoisted from them say nothing about who is waiting
        attach_blocks = {x for x in range(rd.n) if not rd.is_cleanup(x) and any(d.startswith("disc(") and l == "NewConsumer" for d, l, _ in dom_guards(rd, x))}
        if not attach_blocks:
            raise AnchorMissing("read_task: no arm for a new consumer")
        arm_tests = []
        for d, l, sb in dom_guards(rd, c_so[0].block):
            t_ = rd.term(sb)
            if d.startswith("disc(") or t_.get("k") != "switch":
                continue
            deps = _data_deps(rd, t_["discr"])
            if any(df[1] in attach_blocks for x in deps for df in rd.defs.get(x, ())):
                arm_tests.append((d, l))
        pushes = [c for v, c, gb in _pushes(so) if v == "registered"]
        if len(pushes) != 1:
            raise AnchorMissing("sync_only: expected one push into registered, found %d" % len(pushes))
        per_consumer = [(d, l) for d, l, _ in dom_guards(so, pushes[0].block) if not d.startswith("is_ok(") and not d.startswith("is_err(") and not d.startswith("disc(next(") and not d.startswith("disc(poll(")]
        r.check(bool(arm_tests) or bool(per_consumer), "Synced/sync_only/promotes-only-consumers-that-saw-the-whole-reply", c_so[0].loc(),
                "the promotion depends on bookkeeping that tells a consumer which attached in the middle of a reply apart (%s)" % (arm_tests + per_consumer)[:2],
                "every `synced` promotes every consumer in awaiting_synced: a consumer that attached after part of the reply to an earlier Sync was dispatched is told `synced` with an incomplete map "
                "(B syncs; lane sends update(1); C attaches; lane sends update(2), synced: C gets linked, update(2), synced - key 1 only arrives later as an ordinary event of the reply to C's own Sync)")
        dr = [c for c in so.calls if c.name == "drain" and "RangeFull" in describe_operand(so, c.args[1])]
        r.check(len(dr) == 1, "sync_only/analysed", where(so), "sync_only drains awaiting_synced (%d drain)" % len(dr))

    with ctx.rule("C07.R2c", "T6", "the read task takes a waiting new consumer before the remote's next message", floor=4) as r:
        # attach_task passes a consumer to the read task before the write task, so it is queued here before the sync request for it can
        # be sent; the reply must not overtake it: every select over (consumer_stream, messages) is biased, consumers first
        tree = [b for b in rt.all_bodies() if "downlink::read_task::" in b.defpath]
        sel = []
        for b in tree:
            for i, j, p_, rv, line in b.assigns():
                if rv[0] == "agg" and rv[1].get("tuple"):
                    ds = [describe_operand(b, o) for o in rv[2]]
                    if any(d.startswith("next(") for d in ds) and not any(d.startswith("into_future(") for d in ds):
                        ci = [k for k, d in enumerate(ds) if d.startswith("next(") and "consumer" in d]
                        mi = [k for k, d in enumerate(ds) if d.startswith("next(") and ("messages" in d or "input" in d)]
                        if ci and mi:
                            sel.append((b, line, ci[0], mi[0], len(ds)))
        if len(sel) < 2:
            raise AnchorMissing("read_task: expected two selects over (new consumer, message), found %d" % len(sel))
        for k, (b, line, ci, mi, n) in enumerate(sel):
            ctx.saw(b)
            r.check(ci < mi, "read_task/select#%d/consumer-branch-first" % k, b.loc(line), "branch %d waits for a consumer, branch %d for a message" % (ci, mi), "the message branch precedes the consumer branch")
            pollers = [c_ for c_ in tree if c_.defpath.startswith(b.defpath + "::") and any(c.name == "next" and "Range(0, %d)" % n in describe_operand(c_, c.args[0]) for c in c_.calls if c.args)]
            rnd = [c for c_ in pollers for c in c_.calls if c.name == "thread_rng_n"]
            r.check(len(pollers) >= 1 and not rnd, "read_task/select#%d/biased" % k, b.loc(line), "the branches are polled in order (biased): a consumer that is already queued is always taken first",
                    "the select picks a random starting branch: when the read task was held up (slow consumer) `synced` can be processed before the consumer that asked for it is known; it then waits in awaiting_synced for ever" if rnd else "no poll loop found for this select")
        at = ctx.saw(_body(rt, "downlink::attach_task::{closure#0}"))
        snds = [(c, describe_operand(at, c.args[0])) for c in at.calls if c.name == "send" and c.args]
        ct = [c for c, d in snds if "consumer_tx" in d]
        pt = [c for c, d in snds if "producer_tx" in d]
        r.check(len(ct) == 1 and len(pt) == 1 and at.reaches(ct[0].block, {pt[0].block}) and at.path_avoiding([0], {pt[0].block}, avoid={ct[0].block}) is None, "attach_task/read-task-first", ct[0].loc() if ct else where(at),
                "a new consumer is handed to the read task before the write task hears of it", "attach_task no longer passes the consumer to the read task first")

    with ctx.rule("C07.R3", "T2", "every exit of the read task unlinks all consumers", floor=4) as r:
        uls = [c for c in rd.calls if c.name == "unlink" and c.is_fn("downlink::unlink")]
        got = sorted(describe_operand(rd, c.args[0]) for c in uls)
        r.check(got == sorted(VECS), "read_task/unlink-all-three", where(rd), "unlink(awaiting_linked), unlink(awaiting_synced), unlink(registered)", "unlink is called for %s" % got)
        for c in uls:
            # from the loop exit every path to the coroutine's return passes this call: equivalently the call post-dominates
            # every `break` of the main loop; we check that no return is reachable from function entry while avoiding it
            ok = rd.path_avoiding([0], set(rd.exits()), avoid={c.block}) is None
            r.check(ok, "read_task/unlink(%s)/on-every-exit" % describe_operand(rd, c.args[0]), c.loc(), "no path returns from the read task without unlinking this vector", "the read task can return without unlink(%s)" % describe_operand(rd, c.args[0]))
        snd = [c for c in ul.calls if c.name == "send" and len(c.args) > 1 and describe_operand(ul, c.args[1]).startswith("DownlinkNotification::Unlinked")]
        it = [c for c in ul.calls if c.name == "into_iter" and describe_operand(ul, c.args[0]) == "senders"]
        r.check(len(snd) == 1 and len(it) == 1 and not [x for x in dom_guards(ul, snd[0].block) if not (x[0].startswith("disc(next(") and x[1] == "Some") and not x[0].startswith("disc(poll(")], "unlink/sends-Unlinked-to-every-sender", snd[0].loc() if snd else where(ul),
                "unlink sends Unlinked to each element of the vector unconditionally", "Unlinked is sent conditionally: %s" % (dom_guards(ul, snd[0].block) if snd else "no send"))

    wt = ctx.saw(_body(rt, "downlink::write_task::{closure#0}"))
    wt.assign_roles(_write_task_roles(wt))

    def wkind(c):
        # WriteKind passed to the suspend_write closure call
        for a in c.args:
            d = describe_operand(wt, a)
            if "WriteKind::" in d:
                return d.split("WriteKind::")[1].split("(")[0]
        return None

    sus = [c for c in wt.calls if c.via_name in ("call", "call_once", "call_mut") and wkind(c)]
    if len(sus) < 5:
        raise AnchorMissing("write_task: expected 5 suspend_write(.., WriteKind) calls, found %d" % len(sus))
    NEEDS = rt.const("downlink::WriteTaskState::NEEDS_SYNC")["v"]

    with ctx.rule("C07.R4", "T11+T2", "write task: no operation of a consumer is dropped; a finished write continues with SYNC, then pending data, then idle", floor=7) as r:
        wd = [c for c in wt.calls if c.via_name == "write_direct"]
        po = [c for c in wt.calls if c.via_name == "push_operation"]
        r.check(len(wd) == 1 and len(po) == 2, "write_task/sinks", where(wt), "1 write_direct and 2 push_operation sites", "found %d write_direct / %d push_operation" % (len(wd), len(po)))
        # every place where an operation is extracted from registered.next(): a switch edge `Some(Ok(op))`
        nsrc = 0
        for c in wd + po:
            g = dom_guards(wt, c.block)
            okop = [d for d, l, _ in g if l == "Ok" and d.startswith("disc(")]
            arg = describe_operand(wt, c.args[1])
            nsrc += 1
            r.check(bool(okop) and "<Ok>" in arg or "Ok" in arg, "write_task/%s#%d/gets-the-received-operation" % (c.via_name, nsrc), c.loc(), "%s receives the operation read from the consumer (%s)" % (c.via_name, arg[:50]))
        # the Ok(op) edges: each must reach one of the sinks before the next loop iteration / return
        oks = []
        for sb in range(wt.n):
            if wt.is_cleanup(sb) or wt.term(sb)["k"] != "switch":
                continue
            ve = wt.variant_edges(sb)
            si = wt.switch_info(sb)
            if ve and set(ve) == {"Ok", "Err"} and si and si.get("adt", "").endswith("result::Result"):
                d = describe_place(wt, si["place"])
                if d.endswith("<Some>.0") and ("NextRecord" in d or "<Right>" in d):
                    oks.append((sb, ve["Ok"], d, ve["Err"]))
        # a later re-match of the same value on the Err side of an earlier match (`Either::Right(ow)` after `Either::Right(Some(Ok(op)))`) is not a new source
        oks = [(sb, tgt, d) for sb, tgt, d, _ in oks if not any(d2 == d and sb2 != sb and wt.dominates(e2, sb) for sb2, _, d2, e2 in oks)]
        sinks = {c.block for c in wd + po}
        for k_, (sb, tgt, d) in enumerate(sorted(oks)):
            ok, wit = wt.must_pass([tgt], sinks)
            r.check(ok, "write_task/op-edge#%d/reaches-write-or-relief" % k_, wt.loc(wt.blocks[sb]["t"].get("line")), "an operation received from a consumer is written directly or pushed into the relief strategy on every path",
                    "an operation taken from a consumer can be dropped without being written or queued: %s" % [wt.blocks[q]["t"].get("line") for q in (wit or [])][:8])
        if len(oks) < 2:
            raise AnchorMissing("write_task: expected >= 2 switches on the received operation result, found %d" % len(oks))
        # write_direct is followed by a Data write
        for c in wd:
            nxt = [s_ for s_ in sus if wt.dominates(c.block, s_.block)]
            r.check(len(nxt) >= 1 and all(wkind(s_) == "Data" for s_ in nxt[:1]), "write_task/write_direct=>Data-write", c.loc(), "the directly written operation is sent as a command")
        # completion of a write
        hd = [c for c in wt.calls if c.via_name == "has_data"]
        pw = [c for c in wt.calls if c.via_name == "prepare_write"]
        ns = [c for c in wt.calls if c.name == "contains" and "task_state" in describe_operand(wt, c.args[0]) and describe_operand(wt, c.args[1]) == str(NEEDS) and _has(dom_guards(wt, c.block), lambda d, l: l == "SuspendedCompleted")]
        r.check(len(hd) == 1 and len(pw) == 1 and len(ns) == 1, "write_task/completed/anchors", where(wt), "one NEEDS_SYNC test, one has_data, one prepare_write after a completed write", "NEEDS_SYNC tests %d, has_data %d, prepare_write %d" % (len(ns), len(hd), len(pw)))
        if len(hd) == 1 and len(pw) == 1 and len(ns) == 1:
            g2 = dom_guards(wt, pw[0].block)
            r.check(_has(g2, lambda d, l: d.startswith("has_data(") and l == "true"), "write_task/completed/prepare_write-iff-has_data", pw[0].loc(), "prepare_write runs exactly when the relief strategy has data")
            nxt = [s_ for s_ in sus if wt.dominates(pw[0].block, s_.block)]
            r.check(len(nxt) == 1 and wkind(nxt[0]) == "Data", "write_task/completed/prepare_write=>Data-write", pw[0].loc(), "the prepared record is written")
            syn = [s_ for s_ in sus if wkind(s_) == "Sync" and _has(dom_guards(wt, s_.block), lambda d, l: d.startswith("contains(") and "task_state" in d and l == "true")]
            r.check(len(syn) == 1, "write_task/completed/NEEDS_SYNC=>Sync-write", ns[0].loc(), "a remembered SYNC is sent as soon as the write completes")
            # NEEDS_SYNC cleared when consumed
            rm = [c for c in wt.calls if c.name == "remove" and "task_state" in describe_operand(wt, c.args[0]) and wt.dominates(ns[0].block, c.block) and syn and wt.dominates(c.block, syn[0].block)]
            r.check(len(rm) == 1, "write_task/completed/NEEDS_SYNC-cleared-when-sent", ns[0].loc(), "NEEDS_SYNC is cleared when the sync is scheduled (one sync per request burst)")

    with ctx.rule("C07.R4b", "T2", "a write that is only fed (not flushed) clears FLUSHED, so the idle task flushes it out", floor=5) as r:
        FLUSHED = rt.const("downlink::WriteTaskState::FLUSHED")["v"]
        # which WriteKind flushes: the suspend_write closure maps Data -> feed_command (Sink::feed, no flush) and Sync -> send_sync (Sink::send = feed + flush)
        sw = _body(rt, "downlink::write_task::{closure#0}::{closure#1}::{closure#0}")
        ctx.saw(sw)
        kinds = {}
        for c in sw.calls:
            if c.name in ("feed_command", "send_sync"):
                k = [l for d, l, _ in dom_guards(sw, c.block) if d == "disc(kind)"]
                kinds[k[0] if k else "?"] = c.name
        r.check(kinds == {"Data": "feed_command", "Sync": "send_sync"}, "suspend_write/kinds", where(sw), "WriteKind::Data => feed_command, WriteKind::Sync => send_sync", "suspend_write maps %s" % kinds)
        flushes = {}
        for nm, prim in (("feed_command", "feed"), ("send_sync", "send"), ("send_link", "send")):
            fb = _body(rt, "downlink::RequestSender::%s::{closure#0}" % nm)
            ctx.saw(fb)
            prims = [c.name for c in fb.calls if c.name in ("feed", "send", "flush")]
            flushes[nm] = prims
            r.check(prims == [prim], "RequestSender::%s/uses-%s" % (nm, prim), where(fb), "%s uses Sink::%s (%s)" % (nm, prim, "no flush" if prim == "feed" else "feeds and flushes"), "%s uses %s" % (nm, prims))
        unflushed = {k for k, f in kinds.items() if flushes.get(f) == ["feed"]}
        n = 0
        for s_ in sus:
            if wkind(s_) not in unflushed:
                continue
            n += 1
            g = [(d, l) for d, l, _ in dom_guards(wt, s_.block)]
            rem = [c for c in wt.calls if c.name == "remove" and describe_operand(wt, c.args[0]) == "task_state" and (wt.dominates(s_.block, c.block) or wt.dominates(c.block, s_.block))
                   and [(d, l) for d, l, _ in dom_guards(wt, c.block)][:len(g)] == g[:len([(d, l) for d, l, _ in dom_guards(wt, c.block)])]]
            rem = [c for c in rem if (lambda v: v.isdigit() and int(v) & FLUSHED)(describe_operand(wt, c.args[1]).replace("bitor(1, 2)", "3"))]
            arm = [l for d, l in g if d.startswith("disc(")][-2:]
            r.check(bool(rem), "write_task/Data-write@%s/clears-FLUSHED" % "-".join(arm), s_.loc(), "the fed (unflushed) command is followed by task_state.remove(FLUSHED): the idle task will flush it",
                    "a command is written with feed (no flush) but FLUSHED stays set: once idle the task waits without flushing and the command never reaches the remote lane")
        if n < 2:
            raise AnchorMissing("write_task: expected 2 unflushed Data writes, found %d" % n)
        # conversely the idle branches flush exactly when FLUSHED is not set
        fl = [c for c in wt.calls if c.name == "contains" and describe_operand(wt, c.args[0]) == "task_state" and describe_operand(wt, c.args[1]) == str(FLUSHED)]
        r.check(len(fl) == 2 and all(any(d == "disc(state)" and l == "Idle" for d, l, _ in dom_guards(wt, c.block)) for c in fl), "write_task/Idle/flush-iff-not-FLUSHED", where(wt), "both idle waits test FLUSHED to decide whether to flush while waiting")

    with ctx.rule("C07.R5", "T2", "every registration of a consumer sends a sync at once or records NEEDS_SYNC", floor=4) as r:
        regs = [c for c in wt.calls if c.name == "push" and describe_operand(wt, c.args[0]) == "registered"]
        sns = [c for c in wt.calls if c.name == "set_needs_sync"]
        r.check(len(regs) == 3, "write_task/registration-sites", where(wt), "3 registration sites (idle without consumers, idle, writing)", "found %d registration sites" % len(regs))
        for k_, c in enumerate(sorted(regs, key=lambda x: x.line)):
            # after the registration: either contains(options, SYNC) is tested and its true edge schedules a Sync write, or set_needs_sync(options)
            recv0 = describe_operand(wt, c.args[1])
            tests = [x for x in wt.calls if x.name == "contains" and _suffix_match(x.self_adt, "downlink::DownlinkOptions") and describe_operand(wt, x.args[1]) == str(SYNC) and wt.dominates(c.block, x.block)
                     and describe_operand(wt, x.args[0]).endswith(".1") and ("new(" + describe_operand(wt, x.args[0])[:-2] + ".0,") in recv0]
            needs = [x for x in sns if wt.dominates(c.block, x.block)]
            good = set()
            for x in tests:
                be = wt.bool_edges(x)
                if be:
                    tb, fb, _ = be
                    ss = [s_ for s_ in sus if wkind(s_) == "Sync" and wt.dominates(tb, s_.block)]
                    if ss:
                        good.add(x.block)
            through = good | {x.block for x in needs}
            ok, wit = wt.must_pass(wt.succ[c.block], through, targets=set(wt.exits()) | {0})
            # the loop head: use the back edges - any path that comes back to a block dominating c without passing `through`
            heads = {h for h in range(wt.n) if wt.dominates(h, c.block) and any(wt.dominates(c.block, p_) or p_ == c.block or wt.reaches(c.block, {p_}) for p_ in wt.pred[h] if wt.dominates(h, p_))}
            ok2, wit2 = wt.must_pass(wt.succ[c.block], through, targets=heads) if heads else (True, None)
            r.check(bool(through) and ok and ok2, "write_task/registration#%d/sync-sent-or-remembered" % k_, c.loc(), "after registering the consumer: SYNC option => Sync write now, or set_needs_sync(options) while a write/flush is pending",
                    "a consumer can be registered without its sync request being sent or remembered (%s)" % [wt.blocks[q]["t"].get("line") for q in (wit or wit2 or [])][:8])
            recv = describe_operand(wt, c.args[1])
            for x in needs:
                od = describe_operand(wt, x.args[1])
                r.check(od.endswith(".1") and ("new(" + od[:-2] + ".0,") in recv, "write_task/registration#%d/set_needs_sync(options)" % k_, x.loc(), "NEEDS_SYNC is derived from the options that came with this consumer (%s)" % od[-40:],
                        "set_needs_sync is given `%s`, not the options of the consumer being registered" % od[:60])
        # a remembered sync request is only forgotten by sending it: every task_state.remove(.. NEEDS_SYNC ..) is followed by a Sync write on every path
        # (a consumer may close its command half and keep reading: `no command readers` does not mean `nobody waits for synced`)
        rems = [c for c in wt.calls if c.name == "remove" and describe_operand(wt, c.args[0]) == "task_state" and
                (lambda v: v.isdigit() and int(v) & NEEDS)(describe_operand(wt, c.args[1]).replace("bitor(1, 2)", "3").replace("bitor(2, 1)", "3"))]
        if not rems:
            raise AnchorMissing("write_task: no site clears NEEDS_SYNC")
        syncs = {s_.block for s_ in sus if wkind(s_) == "Sync"}
        for k_, c in enumerate(sorted(rems, key=lambda x: x.block)):
            ok = any(wt.dominates(c.block, b_) for b_ in syncs) and wt.must_pass(wt.succ[c.block], syncs, targets=set(wt.exits()) | {0})[0] if syncs else False
            dominated = any(wt.dominates(c.block, b_) for b_ in syncs)
            r.check(dominated, "write_task/NEEDS_SYNC-cleared#%d/only-by-sending-the-sync" % k_, c.loc(), "NEEDS_SYNC is cleared where the Sync write is scheduled",
                    "NEEDS_SYNC is cleared without a Sync being written (guards: %s): a consumer that asked for SYNC while a write was pending, and has closed its command half, never gets `synced`" % [(d[:40], l) for d, l, _ in dom_guards(wt, c.block)][-2:])
        sb = rt.fn(name="set_needs_sync", self_adt="downlink::WriteTaskState")
        ctx.saw(sb)
        ct = [c for c in sb.calls if c.name == "contains"]
        r.check(len(ct) == 1 and describe_operand(sb, ct[0].args[1]) == str(SYNC), "set_needs_sync/tests-SYNC", where(sb), "NEEDS_SYNC is set iff the consumer asked for SYNC")
        # several consumers may attach during one pending write: the flag accumulates their requests, so this function may only ever add it
        # (`self.set(NEEDS_SYNC, wants_sync)` removes it again when a later consumer does not ask for SYNC)
        muts = [c for c in sb.calls if (c.self_adt or "").endswith("downlink::WriteTaskState") and c.name not in ("contains", "bits", "is_empty", "intersects", "clone")]
        adds = [c for c in muts if c.name in ("bitor_assign", "insert") or (c.name == "set" and len(c.args) > 2 and describe_operand(sb, c.args[2]) == "True")]
        whole = [i for i, j, p, rv, line in sb.assigns() if p[1] and describe_place(sb, p).startswith("(*self") or (p[1] == ["*"] and p[0] == 1)]
        r.check(len(adds) >= 1 and len(adds) == len(muts) and not whole and all(any(d.startswith("contains(") and l == "true" for d, l, _ in dom_guards(sb, c.block)) or c.name == "set" for c in adds),
                "set_needs_sync/only-adds-the-flag", where(sb), "set_needs_sync only ever adds NEEDS_SYNC, on the SYNC-requested edge (%s)" % ", ".join(c.name for c in adds),
                "set_needs_sync can take NEEDS_SYNC away again (%s): a consumer that attaches without SYNC during a pending write cancels the sync an earlier consumer is waiting for - it gets linked and never synced" % [(c.name, [describe_operand(sb, a)[:30] for a in c.args[1:]]) for c in muts if c not in adds])

    with ctx.rule("C07.R6", "T8", "channel ends of a downlink are not Clone (one writer per direction)", floor=3) as r:
        for adt in ("downlink::RequestSender", "downlink::OwningFlush", "downlink::DownlinkSender"):
            r.check(rt.implements(adt, "core::clone::Clone") is None, adt.split("::")[-1] + "/not-Clone", "-", "%s is not Clone" % adt, "%s is Clone: commands of one downlink could leave through two writers" % adt)

    with ctx.rule("C07.R7", "T4", "relief strategies drop only superseded commands", floor=6) as r:
        uplinks.value_backpressure_rules(r, ctx)
        from rules import C02
        C02.queue_rules_rt(r, ctx, rt)
        # the DownlinkBackpressure impls delegate to exactly these
        for adt, tgt in (("backpressure::ValueBackpressure", "push_bytes"), ("backpressure::MapBackpressure", "push")):
            b = [x for x in rt.all_bodies() if x.meta.get("name") == "push_operation" and _suffix_match(x.meta.get("self_adt"), adt)]
            if len(b) != 1:
                raise AnchorMissing("%s::push_operation" % adt)
            b = ctx.saw(b[0])
            cs = [c.name for c in b.calls if c.name in ("push_bytes", "push")]
            r.check(cs == [tgt], "%s/push_operation=>%s" % (adt.split("::")[-1], tgt), where(b), "push_operation delegates to %s" % tgt, "push_operation calls %s" % cs)

    with ctx.rule("C07.R8", "T5", "named arguments are passed in their parameters' positions (no two flags or ids change places at a call site)", floor=5) as r:
        named_argument_rule(ctx, r, [("swimos_runtime", "swimos_runtime::downlink"), ("swimos_runtime", "swimos_runtime::backpressure")], allow={})

    with ctx.rule("C07.R11", "T5+T2", "frame interpretations: which downlink kinds have single-frame state, and every interpretation hands on the whole frame", floor=6) as r:
        consts = {k: v for k, v in rt.consts.items() if k.endswith("DownlinkInterpretation>::SINGLE_FRAME_STATE")}
        kinds = {}
        for b in rt.fns(name="interpret_frame_data"):
            adt = (b.meta.get("self_adt") or b.defpath).split("::")[-1].split("<")[0]
            kinds[adt] = ctx.saw(b)
        want = {"MapInterpretation": 0, "NoInterpretation": 0}
        for adt, v in sorted(want.items()):
            c = [cv for k, cv in consts.items() if ("::%s as " % adt) in k]
            r.check(len(c) == 1 and c[0].get("v") == v, "%s/SINGLE_FRAME_STATE=false" % adt, "-", "%s declares that one frame does not determine its state (a late consumer is served the running event stream, never 'the current frame' as its state)" % adt,
                    "%s has SINGLE_FRAME_STATE %s: a consumer that joins a map downlink late is synced from the last frame alone and holds a one-entry view of the map" % (adt, [cv.get("v") for cv in c] or "defaulted to true"))
        fm = [cv for k, cv in consts.items() if "FnMutInterpretation" in k]
        r.check(not fm or fm[0].get("v") == 1, "FnMutInterpretation/SINGLE_FRAME_STATE=true", "-", "value-like interpretations keep the trait default (true): the last frame is the state")
        if not {"MapInterpretation", "NoInterpretation", "FnMutInterpretation"} <= set(kinds):
            raise AnchorMissing("DownlinkInterpretation implementations: %s" % sorted(kinds))
        tr = ctx.saw(rt.fn(suffix="interpretation::trivial_interpretation"))
        for nm, b, how in (("trivial_interpretation", tr, ("put", "extend", "extend_from_slice", "put_slice")), ("NoInterpretation", kinds["NoInterpretation"], ("put", "extend", "extend_from_slice", "put_slice"))):
            w = [c for c in b.calls if c.name in how and describe_operand(b, c.args[0]) == "buffer"]
            r.check(len(w) == 1 and describe_operand(b, w[0].args[1]) in ("frame", "as_ref(frame)") and b.must_pass([0], {w[0].block})[0], "%s/whole-frame-appended" % nm, where(b), "the whole frame is appended to the buffer on every path",
                    "%s does not hand on the frame as it is (%s)" % (nm, [(c.name, describe_operand(b, c.args[1])[:40]) for c in w]))
            bad = [c for c in b.calls if c.name in ("clear", "truncate", "advance", "split_to", "split_off") and c.args and describe_operand(b, c.args[0]) in ("buffer", "frame")]
            r.check(not bad, "%s/nothing-dropped" % nm, where(b), "neither the frame nor the buffer is shortened", "%s shortens %s" % (nm, [(c.name, describe_operand(b, c.args[0])) for c in bad]))
        mi = kinds["MapInterpretation"]
        eh = [c for c in mi.calls if c.name == "extract_header"]
        en = [c for c in mi.calls if c.name == "encode"]
        ok = len(eh) == 1 and len(en) == 1 and describe_operand(mi, eh[0].args[0]) in ("frame", "&frame") and "extract_header(frame)" in describe_operand(mi, en[0].args[1]) and describe_operand(mi, en[0].args[2]) == "buffer"
        r.check(ok, "MapInterpretation/header-of-this-frame-encoded", where(mi), "the map message extracted from this frame is what is encoded into the buffer", "MapInterpretation encodes %s" % [describe_operand(mi, c.args[1])[:60] for c in en])
        te = mi.try_edges(eh[0]) if eh else None
        r.check(te is not None and en and mi.dominates(te[0], en[0].block), "MapInterpretation/unreadable-frame=>error", where(mi), "a frame whose header cannot be extracted is an error (the read task decides whether to drop or abort), never a partial write")
        # the read task is generic over the interpretation and the write task over the backpressure strategy: each downlink kind is wired to its own pair
        dec = {}
        for b in rt.fns(name="make_decoder"):
            adt = (b.meta.get("self_adt") or "").split("::")[-1]
            ret = b.raw.get("ret") or ""
            dec[adt] = ctx.saw(b)
        r.check({"ValueBackpressure", "MapBackpressure"} <= set(dec), "DownlinkBackpressure/both-kinds", "-", "value and map backpressure strategies each name their command decoder", "DownlinkBackpressure implemented for %s" % sorted(dec))

    with ctx.rule("C07.R14", "T2", "when either I/O task of a downlink runtime ends, the other is told to stop", floor=1) as r:
        # The read and the write task share one connection. Whichever ends first - the read task on unlinked / a bad frame / the vote, the write task
        # also on a failed write or flush of the outgoing half - the kill switch must be triggered before the other one is waited for: otherwise a
        # runtime whose outgoing half has died keeps delivering events, accepts consumers, loses every command and never says `unlinked`.
        aw = [b for b in rt.all_bodies() if b.defpath.endswith("downlink::await_io_tasks::{closure#0}")]
        if len(aw) != 1:
            raise AnchorMissing("downlink::await_io_tasks (found %d)" % len(aw))
        aw = ctx.saw(aw[0])
        trg = {c.block for c in aw.calls if c.name == "trigger" and "trigger::Sender" in (c.defpath or "")}
        ok, wit = aw.must_pass([0], trg) if trg else (False, None)
        r.check(ok, "await_io_tasks/kill-switch-on-every-way-out", where(aw), "the kill switch is triggered whichever task finishes first",
                "await_io_tasks can wait for the remaining task without triggering the kill switch (path %s): when the write task ends first - a failed write or flush of the outgoing channel - "
                "the read task, the attachment task and every consumer carry on as if the link were healthy; no consumer is sent `unlinked`" % (wit,))

    with ctx.rule("C07.R13", "T1", "the read task marks its consumers flushed only when the flush ran to completion (or there is nobody to flush)", floor=2) as r:
        # Events are fed into each consumer's framed writer; the flag that chooses between `wait` and `wait and flush` records whether a flush is still
        # owed. immediate_or_join skips the flush when the next input is already there and says so (None). Marking the consumers flushed regardless
        # leaves an event in their buffers until some later event happens to arrive - a registered consumer stops seeing updates.
        fa = [c for c in rd.calls if c.name == "flush_all"]
        if not fa:
            raise AnchorMissing("read_task: flush_all")
        flags = set()
        for c in fa:
            for d, l, sb in dom_guards(rd, c.block):
                if l == "false" and op_place(rd.term(sb).get("discr")) is not None and rd.locals[rd.copy_root(rd.term(sb)["discr"])] == "bool":
                    flags.add(rd.copy_root(rd.term(sb)["discr"]))
        if len(flags) != 1:
            raise AnchorMissing("read_task: the flag under which the consumers are flushed (found %d)" % len(flags))
        fl = next(iter(flags))
        heads = {c.block for c in fa}
        n = 0
        for df in rd.defs.get(fl, ()):
            if df[0] != "assign" or describe_rvalue(rd, df[3]) != "True":
                continue
            if all(rd.dominates(df[1], h) for h in heads) and not any(rd.reaches(h, {df[1]}) for h in heads):
                continue  # the initial value, before the loop
            n += 1
            g = dom_guards(rd, df[1])
            ran = any(d.startswith("is_some(") and "immediate_or_join(" in d and l == "true" for d, l, _ in g) or any(d.startswith("disc(") and "immediate_or_join(" in d and l == "Some" for d, l, _ in g)
            nobody = sum(1 for d, l, _ in g if d.startswith("is_empty(") and l == "true") >= 2
            r.check(ran or nobody, "read_task/flushed:=true#%d/only-after-a-completed-flush" % n, rd.loc(df[2] if isinstance(df[2], int) and False else None) if False else where(rd),
                    "the consumers are marked flushed %s" % ("when the flush reported completion" if ran else "when no consumer is left"),
                    "the consumers are marked flushed although the flush may have been skipped (the next input was already available): an event fed to the registered consumers stays in their buffers until another event arrives")
        if n < 2:
            raise AnchorMissing("read_task: expected the two places that mark the consumers flushed inside the loop, found %d" % n)


