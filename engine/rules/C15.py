"""C15 Comparing and hashing Recon text agrees with comparing parsed values - necessary structural conditions only."""
import collections
import re

from mirlib import op_place, describe_rvalue, AnchorMissing, describe_operand, dom_guards, guards, _suffix_match
from rules.common import answers_only_with, crate_aggregates, owner_def, where
from rules.C19 import table

META = {
    "explanation": (
        "C15 is a law over all pairs of strings and is NOT decided. What is decided are structural clauses that are necessary for it: "
        "R1 the event-level numeric equality (NumericValue::eq, which compare_recon_values uses through ReadEvent::eq) is a symmetric table whose "
        "narrowing fall-backs are `false`; R2 the event-level hash (NumericValue::hash, which recon_hash uses through ReadEvent::hash) writes the same "
        "tag and normal form for every pair of kinds eq can identify, draws the small/big line where the width written says, and normalises the "
        "float classes eq identifies (NaN, the two zeros); R3 ReadEvent's equality and hash are both derived; R4 the fall-backs for invalid "
        "Recon (plain string equality / the string's own hash) are wired to the failure edges, and comparator and hasher configure their parsers alike; "
        "R5 the hasher's bracket stack: every attribute start pushes exactly one flag, a synthetic StartBody is hashed exactly when `true` is pushed, "
        "a synthetic EndRecord exactly when `true` is popped and before the EndAttribute, and every parser event is itself hashed; "
        "R6 the comparator treats both sides alike (same skippable events, each side's events fed to its own validator, refills from its own iterator) and "
        "the events it may skip are exactly the ones the hasher synthesises; R7 the hasher's textual look-ahead stops at every character its decision arms "
        "test and steps over string literals; R8 ReconKey is wired to compare_recon_values / recon_hash. R9 the comparator skips a body delimiter only at an attribute-body boundary (known finding F60)."
        ' R1 also evaluates the Int/UInt cells of NumericValue::eq on sample pairs where the cell is plain arithmetic (0 is the one integer the tokenizer delivers in both kinds).'
),
    "does_not_decide": "the law itself (agreement of the event-stream heuristics - ValueValidator, is_implicit_record - with parse + Value::eq for every pair of strings); "
                       "this is a value-level statement over all inputs that no path-shape rule bounds",
}

F = "swimos_form"
R = "swimos_recon"
RT = "swimos_runtime"
NV = "event::NumericValue"
INTS = ("Int", "UInt", "BigInt", "BigUint")


def cell(t, a, b):
    if (a, b) in t:
        return t[(a, b)]
    return t.get((a, "*"))


def const_false(c):
    return c is not None and c["consts"] == {"False"} and not c["computed"]


def run(ctx):
    f = ctx.crate(F)
    rc = ctx.crate(R)
    eq_b = ctx.saw(f.fn(name="eq", self_adt=NV, trait="core::cmp::PartialEq"))
    hs_b = ctx.saw(f.fn(name="hash", self_adt=NV, trait="core::hash::Hash"))
    kinds = [v["name"] for v in f.adt(NV)["variants"]]
    if len(kinds) < 5:
        raise AnchorMissing("NumericValue has %d variants, expected >= 5" % len(kinds))
    eqc = table(eq_b)

    with ctx.rule("C15.R1", "T10", "NumericValue::eq (event equality used by the comparator): symmetric table, diagonal computed, narrowing fall-backs are false", floor=30) as r:
        for a in kinds:
            for b in kinds:
                e1, e2 = cell(eqc, a, b), cell(eqc, b, a)
                if e1 is None or e2 is None:
                    r.bad("eq/%s-%s/missing" % (a, b), where(eq_b), "no decision path for this pair of kinds")
                    continue
                if a == b:
                    r.check(bool(e1["computed"]), "eq/%s-%s/diagonal-computed" % (a, b), where(eq_b), "same-kind numbers are compared by value (%s)" % sorted(e1["computed"]),
                            "eq(%s, %s) is the constant %s" % (a, b, sorted(e1["consts"])))
                elif a < b:
                    f1, f2 = const_false(e1), const_false(e2)
                    r.check(f1 == f2, "eq/%s-%s/symmetric" % (a, b), where(eq_b), "eq(%s, %s) and eq(%s, %s) are both %s" % (a, b, b, a, "constant false" if f1 else "computed"),
                            "eq(%s, %s) is %s but eq(%s, %s) is %s: two Recon strings would compare equal in one order only" % (a, b, "constant false" if f1 else "computed", b, a, "constant false" if f2 else "computed"))
                    if a in INTS and b in INTS:
                        r.check(not f1 and not f2, "eq/%s-%s/integer-kinds-comparable" % (a, b), where(eq_b), "integers of different width/sign can be equal (numeric spellings of one value)",
                                "eq(%s, %s) is constant false: the same integer written so that it parses to different kinds (e.g. a big literal) is never equal to itself" % (a, b))
        # where the answer for a signed and an unsigned integer is plain arithmetic (a sign test and a cast instead of a checked conversion) it can be
        # evaluated: zero is the one integer the tokenizer delivers in both kinds (`0` is UInt, `-0` is Int), the boundary a sign test gets wrong
        vix = {v["name"]: k for k, v in enumerate(f.adt("event::NumericValue")["variants"])}
        for (ka, kb) in (("Int", "UInt"), ("UInt", "Int")):
            for x, y, want in ((0, 0, True), (1, 1, True), (5, 7, False), (-1, 1, False) if ka == "Int" else (1, -1, False)):
                res = eq_b.eval_const({(1, "variant"): vix[ka], (1, (0,)): x, (2, "variant"): vix[kb], (2, (0,)): y})
                decided = len(res) == 1 and list(res)[0] in (True, False, 0, 1)
                if decided:
                    got = bool(list(res)[0])
                    r.check(got == want, "eq/%s-%s/(%d,%d)" % (ka, kb, x, y), where(eq_b), "%s(%d) == %s(%d) is %s" % (ka, x, kb, y, want),
                            "NumericValue::eq(%s(%d), %s(%d)) is %s: %s - `0` and `-0` (the tokenizer reads them as UInt and Int) compare as different events although they parse to the same value and hash alike" % (
                                ka, x, kb, y, got, "equal integers of different kinds are unequal" if want else "different integers are equal"))
                else:
                    r.ok("eq/%s-%s/(%d,%d)" % (ka, kb, x, y), where(eq_b), "decided by a library conversion (not evaluated)")
        n = 0
        for b in [eq_b] + list(f.closures_of(eq_b.defpath)):
            for c in b.calls:
                if c.name in ("unwrap_or", "is_some_and", "map_or"):
                    n += 1
                    idx = 1
                    d = describe_operand(b, c.args[idx]) if len(c.args) > idx else "?"
                    g = [l for dd, l, _ in dom_guards(b, c.block) if dd in ("disc(self)", "disc(other)")]
                    r.check(d == "False", "eq/%s/narrowing-failure=>false#%d" % ("-".join(g) or "?", n), where(eq_b, None), "a value that does not fit the other kind is unequal",
                            "the fall-back when the narrowing conversion fails is %s: a number too large for the other kind would be equal to every number of that kind" % d)

    with ctx.rule("C15.R2", "T5", "NumericValue::hash (event hash used by recon_hash): kinds that can be equal write the same tag and normal form; float classes normalised like eq", floor=14) as r:
        tags = collections.defaultdict(set)
        forms = collections.defaultdict(set)
        thr = collections.defaultdict(set)
        widen = {}
        loc = where(hs_b)
        for c in hs_b.calls:
            k = [l for d, l, _ in dom_guards(hs_b, c.block) if d == "disc(self)"]
            if not k:
                continue
            k = k[0]
            if c.via_name == "write_u8":
                d = describe_operand(hs_b, c.args[1])
                if d.isdigit():
                    tags[k].add(int(d))
                continue
            if c.via_name in ("write_i128", "write_u128", "write_u64", "write_i64", "hash"):
                forms[k].add(c.via_name)
                if c.via_name.startswith("write_") and k in ("Int", "UInt"):
                    widen[k] = (c, describe_operand(hs_b, c.args[1]))
            if re.match(r"^to_[iu](8|16|32|64|128|size)$", c.name or ""):
                thr[k].add(c.name)
        for k in kinds:
            r.check(bool(tags.get(k)), "hash/%s/tag" % k, loc, "%s writes tag(s) %s then %s" % (k, sorted(tags.get(k, [])), sorted(forms.get(k, []))), "%s writes no kind tag" % k)
        for a in kinds:
            for b in kinds:
                if a >= b:
                    continue
                e = cell(eqc, a, b)
                if e is None or const_false(e):
                    # kinds that are never equal must not be forced to collide, nothing to check
                    continue
                common = tags[a] & tags[b]
                r.check(bool(common), "hash/%s-%s/shared-tag" % (a, b), loc, "%s and %s can be equal and share tag %s" % (a, b, sorted(common)),
                        "%s and %s can be equal but never write the same tag (%s vs %s): strings that compare equal hash differently" % (a, b, sorted(tags[a]), sorted(tags[b])))
                r.check(bool(forms[a] & forms[b]), "hash/%s-%s/shared-form" % (a, b), loc, "both use %s" % sorted(forms[a] & forms[b]),
                        "%s hashes with %s, %s with %s: equal numbers of the two kinds hash differently" % (a, sorted(forms[a]), b, sorted(forms[b])))
        # fixed-width kinds are widened from their own field by one cast (no intermediate narrowing or sign change)
        for k in ("Int", "UInt"):
            if k not in widen:
                r.bad("hash/%s/widened-directly" % k, loc, "%s does not write a fixed-width normal form" % k)
                continue
            c, d = widen[k]
            casts = hs_b.cast_chain(c.args[1])
            r.check(len(casts) <= 1 and ("self<%s>.0" % k) in d, "hash/%s/widened-directly" % k, c.loc(),
                    "the %s payload is widened to the written width in one step (%s)" % (k, d), "the %s payload goes through %d conversions (%s) before it is hashed: values that change under the detour hash unlike the equal value of another kind" % (k, len(casts), d))
        multi = [k for k in kinds if len(tags.get(k, ())) > 1]
        r.check(set(multi) >= {"BigInt", "BigUint"}, "hash/big-kinds-have-two-forms", loc, "BigInt and BigUint choose between the small and the big form (%s)" % multi,
                "kinds with two normal forms: %s; a big integer that fits the small form must be hashed like Int/UInt" % multi)
        writers = {k: {w for w in forms[k] if w.startswith("write_")} for k in kinds}
        for k in multi:
            want = {"to_" + w[len("write_"):] for w in writers[k]}
            r.check(thr[k] == want and len(want) == 1, "hash/%s/threshold=width-written" % k, loc, "%s chooses its normal form with %s and writes %s" % (k, sorted(thr[k]), sorted(writers[k])),
                    "%s decides between its normal forms with %s but the small form is written with %s: integers between the two ranges are hashed in the big form while the equal Int/UInt is hashed in the small form" % (k, sorted(thr[k]), sorted(writers[k])))
        for a in multi:
            for b in multi:
                if a < b:
                    r.check(thr[a] == thr[b], "hash/%s-%s/same-threshold" % (a, b), loc, "both draw the small/big line with %s" % sorted(thr[a]),
                            "%s uses %s, %s uses %s: a value between the thresholds hashes differently in the two kinds although they are equal" % (a, sorted(thr[a]), b, sorted(thr[b])))
        # the big form of BigUint is the hash of the BigInt it converts to (BigInt and BigUint beyond i128 can be equal)
        bu = [c for c in hs_b.calls if c.via_name == "hash" and any(d == "disc(self)" and l == "BigUint" for d, l, _ in dom_guards(hs_b, c.block))]
        r.check(len(bu) == 1 and "to_bigint" in describe_operand(hs_b, bu[0].args[0]), "hash/BigUint/big-form-as-BigInt", loc, "a BigUint beyond the small range is hashed as the BigInt it converts to",
                "the big form of BigUint hashes %s: an equal BigInt hashes differently" % ([describe_operand(hs_b, c.args[0]) for c in bu]))
        nan = [c for c in hs_b.calls if c.name == "is_nan"]
        r.check(bool(nan), "hash/Float/NaN-normalised", loc, "NaN (all NaNs are eq) is hashed as one value", "eq identifies all NaNs but their bit patterns are hashed")
        zero_norm = False
        for c in hs_b.calls:
            if c.name == "to_bits":
                g = guards(hs_b, c.block)
                zero_norm = zero_norm or any(("0.0" in d or ("Eq(" in d and "0" in d)) for d, l, _ in g if "is_nan" not in d)
        r.check(zero_norm, "hash/Float/zero-normalised", loc, "+0.0 and -0.0 (eq) are hashed alike",
                "Float(0.0) == Float(-0.0) under eq, but the bit patterns are hashed: \"0.0\" and \"-0.0\" compare equal and hash differently")

    with ctx.rule("C15.R3", "T8", "ReadEvent: PartialEq and Hash are both derived (field-wise, so they agree given R1/R2)", floor=2) as r:
        RE = "event::ReadEvent"
        pe = f.implements(RE, "core::cmp::PartialEq")
        hh = f.implements(RE, "core::hash::Hash")
        r.check(pe is not None and pe["derived"], "ReadEvent/eq-derived", "-", "PartialEq for ReadEvent is derived", "PartialEq for ReadEvent is hand-written: its agreement with Hash is no longer structural")
        r.check(hh is not None and hh["derived"], "ReadEvent/hash-derived", "-", "Hash for ReadEvent is derived", "Hash for ReadEvent is hand-written: its agreement with PartialEq is no longer structural")
        npe = f.implements(NV, "core::cmp::PartialEq")
        nh = f.implements(NV, "core::hash::Hash")
        r.check(npe is not None and nh is not None and not npe["derived"] and not nh["derived"], "NumericValue/eq-hash-hand-written-pair", "-", "NumericValue's PartialEq and Hash are the hand-written pair analysed by R1/R2",
                "NumericValue's PartialEq/Hash are no longer the analysed pair (derived eq would distinguish Int(1) from UInt(1))")

    with ctx.rule("C15.R4", "T7", "fall-backs for invalid Recon and parser configuration", floor=5) as r:
        cmpv = ctx.saw(rc.fn(name="compare_recon_values"))
        inc = [c for c in cmpv.calls if c.name == "incremental_compare"]
        streq = [c for c in cmpv.calls if c.name == "eq" and [describe_operand(cmpv, a) for a in c.args] in (["first", "second"], ["second", "first"])]
        if len(inc) != 1:
            raise AnchorMissing("compare_recon_values: expected one call of incremental_compare")
        none_edge = None
        some_edge = None
        for si in cmpv.result_switches(inc[0]):
            ve = cmpv.variant_edges(si["block"])
            if ve and "None" in ve:
                none_edge, some_edge = ve["None"], ve.get("Some")
        ok = len(streq) == 1 and none_edge is not None and cmpv.dominates(none_edge, streq[0].block)
        if not ok and not streq:
            # `incremental_compare(..).unwrap_or_else(|| first == second)`: the same fall-back as the adapter's closure (a decided answer is kept by
            # the adapter itself)
            for c in cmpv.calls:
                if c.name in ("unwrap_or_else",) and c.args and any(x[0] == "call" and x[1] is inc[0] for x in cmpv.sources(c.args[0])):
                    for cd in c.callee.get("closure_args", ()):
                        if cd in rc.by_def:
                            cb = rc.body(cd)
                            eqs_ = [x for x in cb.calls if x.name == "eq" and sorted(describe_operand(cb, a) for a in x.args) == ["first", "second"]]
                            if len(eqs_) == 1 and all(describe_rvalue(cb, rv).startswith("eq(") or True for i, j, p, rv, line in cb.assigns() if p[0] == 0 and not p[1]):
                                ok = True
                                r.ok("compare_recon_values/decided=>answer-kept", where(cmpv), "a decided comparison is returned as it is (unwrap_or_else)")
        r.check(ok, "compare_recon_values/undecided=>string-equality", where(cmpv), "when the incremental comparison gives no answer (both invalid) the strings are compared as plain text",
                "the `None` result of incremental_compare is not answered by `first == second`")
        if ok and some_edge is not None and streq:
            r.check(not cmpv.dominates(some_edge, streq[0].block) and not cmpv.reaches(some_edge, {streq[0].block}), "compare_recon_values/decided=>answer-kept", where(cmpv), "a decided comparison is returned as it is",
                    "the plain string comparison is also reachable after the comparator decided")
        rh = ctx.saw(rc.fn(name="recon_hash"))
        hp = [c for c in rh.calls if c.name == "hash" and "HashParser" in c.defpath]
        sh = [c for c in rh.calls if c.name == "hash" and "for str" in c.defpath or (c.name == "hash" and describe_operand(rh, c.args[0]) == "value")]
        if len(hp) != 1:
            raise AnchorMissing("recon_hash: expected one call of HashParser::hash")
        ok = False
        if len(sh) == 1:
            g = dom_guards(rh, sh[0].block)
            ok = any(("is_some" in d and l == "true") or ("is_none" in d and l == "false") or (d.startswith("disc(hash(") and l == "Some") for d, l, _ in g) and describe_operand(rh, sh[0].args[0]) == "value"
        r.check(ok, "recon_hash/invalid=>string-hash", where(rh), "when the text is not valid Recon its own bytes are hashed (equal invalid strings hash alike)", "recon_hash does not hash the raw string on the parser's error edge")
        # same parser configuration (comments flag) everywhere
        flags = []
        for b, names in ((cmpv, ("new",)),):
            for c in b.calls:
                if c.name == "new" and "ParseIterator" in c.defpath:
                    flags.append(("compare_recon_values/ParseIterator::new", describe_operand(b, c.args[1])))
        for b in rc.fns(self_adt="hash::HashParser"):
            for c in b.calls:
                if c.name == "new" and "IncrementalReconParser" in c.defpath:
                    flags.append((b.defpath.split("::")[-1] + "/IncrementalReconParser::new", describe_operand(b, c.args[0])))
        vals = {v for _, v in flags}
        r.check(len(flags) >= 3 and len(vals) == 1 and vals <= {"True", "False"}, "parser-configuration/same-comments-flag", where(cmpv), "comparator and hasher build their parsers with the same flag (%s at %d sites)" % (sorted(vals), len(flags)),
                "comparator and hasher configure their parsers differently (%s): a text one accepts and the other rejects compares equal to a reformatting but hashes as a raw string" % flags)
        both = [c for c in cmpv.calls if c.name == "new" and "ParseIterator" in c.defpath]
        args = sorted(describe_operand(cmpv, c.args[0]) for c in both)
        r.check(args == ["new(first)", "new(second)"], "compare_recon_values/one-iterator-per-argument", where(cmpv), "one parse iterator over each argument", "parse iterators are built over %s" % args)

    hb = ctx.saw(rc.fn(name="hash", self_adt="hash::HashParser"))
    with ctx.rule("C15.R5", "T2+T3", "HashParser::hash: bracket stack pairs the synthetic StartBody/EndRecord; every event is hashed", floor=8) as r:
        def is_ev(d):
            # the event the parser produced (whatever the iterator local is called)
            return re.match(r"^take_event\([^()]*\)<Some>\.0<Event>\.0$", d) is not None

        def arm_of(c):
            v = [l for d, l, _ in dom_guards(hb, c.block) if d.startswith("disc(take_event(") and d.endswith("<Event>.0)")]
            return v[-1] if v else None
        hashes = [c for c in hb.calls if c.name == "hash" and "ReadEvent" in c.defpath]
        ev_h = [c for c in hashes if is_ev(describe_operand(hb, c.args[0]))]
        syn = [(c, describe_operand(hb, c.args[0])) for c in hashes if not is_ev(describe_operand(hb, c.args[0]))]
        pushes = [c for c in hb.calls if c.name == "push" and describe_operand(hb, c.args[0]).endswith("closing_brackets")]
        pops = [c for c in hb.calls if c.name == "pop" and describe_operand(hb, c.args[0]).endswith("closing_brackets")]
        te = [c for c in hb.calls if c.name == "take_event"]
        if len(te) != 1:
            raise AnchorMissing("HashParser::hash: expected one take_event call")
        loop_head = te[0].block
        # every event is hashed on every way round the loop
        sw = [si for si in hb.switches_on(lambda p, si: True) if si.get("kind") == "disc" and (si.get("adt") or "").endswith("event::ReadEvent")]
        if not sw:
            raise AnchorMissing("HashParser::hash: no match on the ReadEvent")
        variants = [v["name"] for v in f.adt("event::ReadEvent")["variants"]]
        ve = hb.variant_edges(sw[0]["block"])
        seen = set()
        for v in variants:
            tgt = ve.get(v, ve.get("_"))
            if tgt is None:
                r.bad("hash/%s/hashed" % v, where(hb), "no arm for this event")
                continue
            ok, w = hb.must_pass_assuming(sw[0]["block"], v, {c.block for c in ev_h}, targets={loop_head} | set(hb.exits()))
            r.check(ok, "hash/%s/event-hashed" % v, where(hb), "a %s event is always hashed" % v, "a %s event can go round the loop without being hashed (path %s): texts differing only there hash alike, and the hash no longer tracks the comparator" % (v, w))
        sa = ve.get("StartAttribute")
        ea = ve.get("EndAttribute")
        ok, w = hb.must_pass_assuming(sw[0]["block"], "StartAttribute", {c.block for c in pushes}, targets={loop_head} | set(hb.exits()))
        r.check(ok and len(pushes) >= 1 and all(hb.dominates(sa, c.block) or arm_of(c) == "StartAttribute" for c in pushes), "hash/StartAttribute/pushes-one-flag", where(hb), "every attribute start pushes a flag (and nothing else does)",
                "an attribute start can pass without pushing its flag (%s), or a flag is pushed elsewhere: the stack no longer pairs starts with ends" % w)
        twice = [(a, b) for a in pushes for b in pushes if a is not b and hb.reaches(a.block, {b.block}, avoid={loop_head})]
        r.check(not twice, "hash/StartAttribute/at-most-one-push", where(hb), "no path pushes two flags for one attribute")
        sb = [c for c, d in syn if "StartBody" in d]
        er = [c for c, d in syn if "EndRecord" in d]
        others = [d for c, d in syn if "StartBody" not in d and "EndRecord" not in d]
        r.check(len(sb) == 1 and len(er) == 1 and not others, "hash/synthetic-events={StartBody,EndRecord}", where(hb), "the hasher inserts exactly StartBody and EndRecord", "synthetic events hashed: %s" % [d for _, d in syn])
        if len(sb) == 1 and len(er) == 1:
            pt = [c for c in pushes if describe_operand(hb, c.args[1]) == "True"]
            pf = [c for c in pushes if describe_operand(hb, c.args[1]) == "False"]
            same = len(pt) == 1 and (hb.dominates(pt[0].block, sb[0].block) or hb.dominates(sb[0].block, pt[0].block)) and \
                hb.must_pass([pt[0].block], {sb[0].block}, targets={loop_head} | set(hb.exits()))[0] if pt and not hb.dominates(sb[0].block, pt[0].block) else bool(pt)
            agree = bool(same) and all(not hb.reaches(c.block, {sb[0].block}, avoid={loop_head}) and not hb.reaches(sb[0].block, {c.block}, avoid={loop_head}) for c in pf)
            if not agree and len(pushes) == 1 and op_place(pushes[0].args[1]) is not None:
                # `let wrap = ..; stack.push(wrap); if wrap { StartBody }`: the flag pushed is the very value that decides the synthetic event
                pr = hb.copy_root(pushes[0].args[1])
                for d_, l_, sb_ in dom_guards(hb, sb[0].block):
                    tt_ = hb.term(sb_)
                    if l_ == "true" and tt_.get("k") == "switch" and op_place(tt_["discr"]) is not None and hb.copy_root(tt_["discr"]) == pr:
                        # ... and it is tested after it was pushed or before, but not changed in between (a single definition point per path)
                        agree = hb.dominates(pushes[0].block, sb[0].block) or hb.dominates(sb_, pushes[0].block)
            r.check(agree,
                    "hash/StartBody<=>push(true)", sb[0].loc(), "a synthetic StartBody is hashed exactly on the path that pushes `true`",
                    "the synthetic StartBody and the pushed flag can disagree: the closing EndRecord is then missing or spurious")
            g = dom_guards(hb, sb[0].block)
            r.check(any("is_implicit_record" in d and l == "true" for d, l, _ in g) and any(d.endswith("<Event>.1") and l == "false" for d, l, _ in g), "hash/StartBody/iff-implicit-record-and-no-body-event", sb[0].loc(),
                    "StartBody is synthesised only when the parser reports no body of its own and the look-ahead finds an implicit record", "guards of the synthetic StartBody: %s" % [(d[-40:], l) for d, l, _ in g][-3:])
            g = dom_guards(hb, er[0].block)
            r.check(len(pops) == 1 and (hb.dominates(ea, pops[0].block) or arm_of(pops[0]) == "EndAttribute") and any("pop(" in d and l == "true" for d, l, _ in g), "hash/EndRecord<=>pop()==true", er[0].loc(),
                    "a synthetic EndRecord is hashed exactly when the flag popped at the attribute's end is `true`", "the synthetic EndRecord is not tied to the popped flag")
            # (one `event.hash(..)` shared by every kind of event is also the one of this kind)
            eah = [c for c in ev_h if arm_of(c) == "EndAttribute"] or [c for c in ev_h if arm_of(c) is None]
            r.check(len(eah) == 1 and hb.reaches(er[0].block, {eah[0].block}, avoid={loop_head}) and not hb.reaches(eah[0].block, {er[0].block}, avoid={loop_head}), "hash/EndRecord-before-EndAttribute", er[0].loc(),
                    "the synthetic EndRecord is hashed before the EndAttribute it belongs to (the order the explicit form produces)", "EndRecord is hashed after EndAttribute: implicit and explicit bodies hash differently")
            sah = [c for c in ev_h if arm_of(c) == "StartAttribute"] or [c for c in ev_h if arm_of(c) is None]
            r.check(len(sah) == 1 and hb.reaches(sah[0].block, {sb[0].block}, avoid={loop_head}) and not hb.reaches(sb[0].block, {sah[0].block}, avoid={loop_head}), "hash/StartAttribute-before-StartBody", sb[0].loc(),
                    "StartAttribute is hashed before the synthetic StartBody", "the synthetic StartBody is hashed before its StartAttribute")

    inc_b = ctx.saw(rc.fn(name="incremental_compare"))
    with ctx.rule("C15.R6", "T5", "incremental_compare treats both sides alike; its skippable events are the hasher's synthetic ones", floor=8) as r:
        # sides are told apart by data flow, not by variable names: input k is parameter k; validator k is the k-th ValueValidator::new(); an event
        # belongs to side k when it was bound from component k of the pair of `next()` results
        vnew = sorted([c for c in inc_b.calls if c.name == "new" and "ValueValidator" in c.defpath], key=lambda c: (c.line, c.block))
        vside = {c.dest[0]: k + 1 for k, c in enumerate(vnew)}

        def root_local(op):
            pl = op_place(op)
            if pl is None:
                return None
            return inc_b.resolve(pl).root

        def iter_side(op):
            rl = root_local(op)
            return rl if rl in (1, 2) else None

        def validator_side(op):
            return vside.get(root_local(op))

        def const_events(d):
            """the constant event(s) an operand stands for: `ReadEvent::StartBody`, or each element in turn of a literal array that is iterated
            (`for structural in [ReadEvent::StartBody, ReadEvent::EndRecord] { if event == structural {..} }`)"""
            if d.startswith("ReadEvent::") and d.endswith("()") and "," not in d:
                return [d[len("ReadEvent::"):-2]]
            m_ = re.match(r"^next\(into_iter\(agg\(((?:ReadEvent::\w+\(\)(?:, )?)+)\)\)\)<Some>\.0$", d)
            return [x[len("ReadEvent::"):-2] for x in m_.group(1).split(", ")] if m_ else []

        def event_side(op, _depth=0, _seen=None):
            """which input an event comes from. An event that went through a helper (`let Some(event_1) = skip_structural(.., event_1, ..)`) is one of
            several values - the event handed in, or the next one of that side's iterator: all of them must belong to the same input."""
            one = event_side_direct(op)
            if one is not None or _depth > 6:
                return one
            pl = op_place(op)
            if pl is None:
                return None
            _seen = set() if _seen is None else _seen
            if pl[0] in _seen:
                return None
            _seen.add(pl[0])
            sides = set()
            for d_ in inc_b.defs.get(pl[0], ()):
                if d_[0] in ("call", "partcall"):
                    c_ = d_[2]
                    if c_.name == "next" and c_.args:
                        sides.add(iter_side(c_.args[0]))
                    else:
                        for a_ in c_.args:
                            if op_place(a_) is not None and "ReadEvent" in (inc_b.locals[op_place(a_)[0]] if op_place(a_)[0] < len(inc_b.locals) else ""):
                                sides.add(event_side(a_, _depth + 1, _seen))
                elif d_[0] in ("assign", "part"):
                    rv_ = d_[3] if d_[0] == "assign" else d_[4]
                    ops_ = [rv_[1]] if rv_[0] == "use" else ([["c", rv_[2]]] if rv_[0] == "ref" else (list(rv_[2]) if rv_[0] == "agg" else []))
                    for o_ in ops_:
                        if op_place(o_) is not None:
                            sides.add(event_side(o_, _depth + 1, _seen))
            sides.discard(None)
            return next(iter(sides)) if len(sides) == 1 else None

        def event_side_direct(op):
            pl0 = op_place(op)
            if pl0 and pl0[1] and isinstance(pl0[1][0], list) and pl0[1][0][0] == "f" and isinstance(pl0[1][0][1], int) and len(pl0[1]) > 1:
                return pl0[1][0][1] + 1
            if pl0 is None:
                return None
            if not pl0[1] or pl0[1] == ["*"]:
                # a (reference to a) local: look at what it was bound from; `resolve` would run through to the pair itself
                rl = pl0[0]
                d0 = inc_b.single_def(rl)
                if d0 is not None and d0[0] == "assign" and d0[3][0] == "ref":
                    rl = d0[3][2][0]
            else:
                rl = root_local(op)
            for _hop in range(6):
                ds_ = inc_b.defs.get(rl, ())
                if len(ds_) == 1 and ds_[0][0] == "assign" and ds_[0][3][0] == "use" and op_place(ds_[0][3][1]) is not None and not op_place(ds_[0][3][1])[1]:
                    rl = op_place(ds_[0][3][1])[0]
                else:
                    break
            for d_ in inc_b.defs.get(rl, ()):
                if d_[0] == "assign" and d_[3][0] in ("use", "ref"):
                    pl = op_place(d_[3][1]) if d_[3][0] == "use" else d_[3][2]
                    if pl and pl[1] and isinstance(pl[1][0], list) and pl[1][0][0] == "f" and isinstance(pl[1][0][1], int):
                        return pl[1][0][1] + 1
            return None
        if len(vnew) != 2:
            raise AnchorMissing("incremental_compare: expected two ValueValidator::new() calls")
        nexts = [c for c in inc_b.calls if c.name == "next"]
        skips = collections.defaultdict(set)
        for c in inc_b.calls:
            if c.name in ("eq", "ne") and "ReadEvent" in (c.defpath + str(c.callee)):
                ds = [describe_operand(inc_b, a) for a in c.args]
                const = [d for d in ds if const_events(d)]
                var = [a for a, d in zip(c.args, ds) if not const_events(d)]
                for nm in (const_events(const[0]) if len(const) == 1 and len(var) == 1 and event_side(var[0]) is not None else []):
                    which = event_side(var[0])
                    skips[which].add(nm)
                    tr = inc_b.bool_edges(c)
                    if tr is None:
                        r.bad("compare/side%d/%s/refill" % (which, nm), c.loc(), "cannot see what happens when the event is skippable")
                        continue
                    tb = tr[0] if c.name == "eq" else tr[1]
                    nx = [n for n in nexts if inc_b.dominates(tb, n.block)]
                    fe = [x for x in inc_b.calls if x.name == "feed_event" and inc_b.dominates(tb, x.block) and root_local(x.args[1]) == root_local(var[0])]
                    it = sorted({iter_side(n.args[0]) for n in nx}, key=str)
                    r.check(it == [which], "compare/side%d/%s/refill-from-own-iterator" % (which, nm), c.loc(), "after skipping, side %d continues with the next event of its own input" % which,
                            "after skipping %s on side %d the next event is taken from input %s" % (nm, which, it))
                    vd = sorted({validator_side(x.args[0]) for x in fe}, key=str)
                    r.check(vd == [which], "compare/side%d/%s/skipped-event-fed-to-own-validator" % (which, nm), c.loc(), "the skipped event still advances this side's structure validator",
                            "the skipped %s of side %d is fed to validator %s" % (nm, which, vd))
        r.check(skips[1] == skips[2] and bool(skips[1]), "compare/skippable-events/same-on-both-sides", where(inc_b), "both sides may skip %s" % sorted(skips[1]),
                "side 1 may skip %s, side 2 %s: compare(a, b) and compare(b, a) differ" % (sorted(skips[1]), sorted(skips[2])))
        hsyn = set()
        for c in hb.calls:
            if c.name == "hash" and "ReadEvent" in c.defpath:
                d = describe_operand(hb, c.args[0])
                if d.startswith("ReadEvent::") and d.endswith("()"):
                    hsyn.add(d[len("ReadEvent::"):-2])
        r.check(skips[1] == hsyn, "compare/skippable-events=hasher-synthetic-events", where(inc_b), "the comparator skips what the hasher inserts: %s" % sorted(hsyn),
                "the comparator may skip %s but the hasher synthesises %s: an implicit and an explicit body compare equal and hash differently (or the reverse)" % (sorted(skips[1]), sorted(hsyn)))
        # validators never cross sides
        n = 0
        for c in inc_b.calls:
            if c.name != "feed_event":
                continue
            which = validator_side(c.args[0])
            src = event_side(c.args[1])
            n += 1
            r.check(which is not None and which == src, "compare/feed_event#%d/own-side" % n, c.loc(), "validator %s is fed an event of input %s" % (which, src),
                    "validator %s is fed an event of input %s: the structure of one input is tracked with events of the other" % (which, src))
        # after a skip the two validators report what the current events completed (the shape of a record that has just ended): the only trace of a
        # different brace structure once both return to their initial state. The two reports must be compared and a difference must be decisive.
        def feed_side(op):
            for s_ in inc_b.sources(op):
                if s_[0] == "call" and s_[1].name == "feed_event":
                    return validator_side(s_[1].args[0])
            return None
        vcmp = [c for c in inc_b.calls if c.name in ("ne", "eq") and len(c.args) == 2 and sorted(str(feed_side(a)) for a in c.args) == ["1", "2"]]
        okv = False
        if len(vcmp) == 1:
            e = inc_b.bool_edges(vcmp[0])
            if e is not None:
                diff_edge = e[0] if vcmp[0].name == "ne" else e[1]
                rets = [i for i, j, p_, rv, line in inc_b.assigns() if p_[0] == 0 and not p_[1] and describe_rvalue(inc_b, rv) == "Option::Some(False)" and inc_b.dominates(diff_edge, i)]
                okv = bool(rets)
        r.check(okv, "compare/values-completed-after-skips-are-compared", vcmp[0].loc() if vcmp else where(inc_b), "what the two events complete in their validators is compared, and a difference answers `false`",
                "the results of the two feed_event calls after a skip are not compared: when both inputs end there the validators are back in their initial state and differently nested records compare equal ({1,2,{}} vs {1,{2}}) while their hashes differ")
        skip_eqs = [c for c in inc_b.calls if c.name in ("eq", "ne") and any(const_events(describe_operand(inc_b, a)) for a in c.args)]
        fin = [c for c in inc_b.calls if c.name == "ne" and len(c.args) == 2 and not any(const_events(describe_operand(inc_b, a)) for a in c.args)
               and all(op_place(a) is not None and "ReadEvent" in inc_b.locals[op_place(a)[0]] and "Option<" not in inc_b.locals[op_place(a)[0]] for a in c.args)
               and sorted(str(event_side(a)) for a in c.args) == ["1", "2"] and skip_eqs and all(inc_b.reaches(x.block, {c.block}) for x in skip_eqs) and not any(inc_b.reaches(c.block, {x.block}, avoid={n_.block for n_ in nexts[:2]}) for x in skip_eqs)]
        r.check(len(fin) == 1, "compare/mismatch-after-skips-decides", where(inc_b), "after the skips the two current events are compared once more and a mismatch is decisive")

    with ctx.rule("C15.R9", "T6", "the comparator skips a body delimiter only where an implicit body can be (an attribute-body boundary)", floor=4) as r:
        # `@a(1,2)` and `@a({1,2})` are the same value: one side's parser emits StartBody/EndRecord where the other has none, and incremental_compare
        # steps over them. That is sound only right after a StartAttribute / right before an EndAttribute. A skip that depends on nothing but `this
        # event is StartBody and the two events differ` also aligns `{{1,1}}` with `{1,{1}}` (the validators only compare sizes), which then compare
        # equal although they are different values with different hashes.
        skips = []
        for c in inc_b.calls:
            if c.name != "next" or not c.args:
                continue
            g = dom_guards(inc_b, c.block)
            ev = [(d, l) for d, l, _ in g if (re.match(r"^eq\(.+, ReadEvent::(StartBody|EndRecord)\(\)\)$", d) and l == "true") or (re.match(r"^ne\(.+, ReadEvent::(StartBody|EndRecord)\(\)\)$", d) and l == "false")]
            # one site that takes each delimiter in turn from a literal array stands for a skip of each of them
            arr = [(d, l) for d, l, _ in g if re.match(r"^(eq|ne)\(.+, next\(into_iter\(agg\((ReadEvent::(StartBody|EndRecord)\(\)(, )?)+\)\)\)<Some>\.0\)$", d) and l == ("true" if d.startswith("eq") else "false")]
            if not ev and arr:
                ctxg = [(d, l) for d, l, _ in g if not d.startswith("disc(") and not re.match(r"^(eq|ne)\(", d)]
                side = "event_1" if inc_b.copy_root(c.args[0]) == 1 else "event_2"
                for nm_ in re.findall(r"ReadEvent::(\w+)\(\)", arr[-1][0].split("agg(")[1]):
                    skips.append((c, "%s %s" % (side, nm_), ctxg))
                continue
            if not ev:
                continue
            # guards that are not a comparison of events (with each other or with a constant event) and not the shape of the iterator results
            ctxg = [(d, l) for d, l, _ in g if not d.startswith("disc(") and not re.match(r"^(eq|ne)\(", d)]
            side = "event_1" if inc_b.copy_root(c.args[0]) == 1 else "event_2"
            skips.append((c, "%s %s" % (side, ev[-1][0].split("ReadEvent::")[1]), ctxg))
        if len(skips) < 4:
            raise AnchorMissing("incremental_compare: expected the four skip sites (StartBody / EndRecord on either side), found %d" % len(skips))
        free = [(c, e) for c, e, cg in skips if not cg]
        r.check(not free, "compare/skips-only-at-attribute-body-boundaries", skips[0][0].loc(), "every skip of a body delimiter is conditional on the position (attribute body) as well as on the event",
                "%d of %d skips of StartBody / EndRecord depend only on the two events being different: a body delimiter is stepped over anywhere, so differently nested records are aligned and "
                "compare equal (`{{1,1}}` vs `{1,{1}}`, `{{a,b}}` vs `{a,{b}}`) although they parse to different values and hash differently" % (len(free), len(skips)))
        for side in ("event_1", "event_2"):
            mine = [e for c, e, cg in skips if side in e]
            r.check(len(mine) == 2, "compare/%s/skip-sites" % side, where(inc_b), "StartBody and EndRecord can be skipped on this side (%d sites)" % len(mine))
        r.check(True, "compare/analysed", where(inc_b), "%d skip sites" % len(skips))

    with ctx.rule("C15.R10", "T5", "the structural validators compare attribute counts and item counts separately", floor=3) as r:
        # incremental_compare steps over implicit body delimiters, so the shape of the two values is judged by the validators alone: per builder segment
        # the number of attributes and the number of items. `@b {@a 2}` and `{@b @a 2}` differ exactly in which record an attribute belongs to: the
        # totals agree (1+2 = 0+3), the components do not. A comparison of merged sizes accepts them as equal although they parse to different values
        # and hash differently.
        ve = ctx.saw(rc.fn(name="eq", self_adt="comparator::ValueValidator"))

        def component(b_, op, hops=8):
            """`(a, b).0` is a - also when the pair is the result of a helper that was spliced in and is copied before it is taken apart"""
            while hops > 0:
                hops -= 1
                pl = op_place(op)
                if pl is None:
                    return op
                d_ = b_.single_def(pl[0])
                if d_ is None or d_[0] != "assign":
                    return op
                rv = d_[3]
                elems = [x for x in pl[1] if x != "*"]
                if rv[0] == "use" and op_place(rv[1]) is not None:
                    q = op_place(rv[1])
                    op = ["c", [q[0], list(q[1]) + list(pl[1])]]
                    continue
                if rv[0] == "agg" and rv[1].get("tuple") and elems and isinstance(elems[0], list) and elems[0][0] == "f" and isinstance(elems[0][1], int) and elems[0][1] < len(rv[2]):
                    o = rv[2][elems[0][1]]
                    rest = list(pl[1])[list(pl[1]).index(elems[0]) + 1:]
                    if op_place(o) is None:
                        return o
                    q = op_place(o)
                    op = ["c", [q[0], list(q[1]) + rest]]
                    continue
                return op
            return op

        def kinds_of(b_, op):
            ks = set()
            op = component(b_, op)
            for x in b_.sources(op, stop_at_calls=False):
                if x[0] == "call":
                    nm = x[1].name or ""
                    if nm == "attrs_len":
                        ks.add("attrs")
                    elif nm == "items_len":
                        ks.add("items")
                elif x[0] == "field":
                    fl = x[1].fields
                    if fl and fl[-1] == "attrs":
                        ks.add("attrs")
                    elif fl and fl[-1] in ("items", "items_count"):
                        ks.add("items")
            return ks
        cmps = []
        for i, j, p_, rv, line in ve.assigns():
            if rv[0] == "bin" and rv[1] in ("Eq", "Ne"):
                a, b_ = kinds_of(ve, rv[2]), kinds_of(ve, rv[3])
                if a or b_:
                    cmps.append((line, a, b_))
        for c in ve.calls:
            if c.name in ("eq", "ne") and len(c.args) == 2:
                a, b_ = kinds_of(ve, c.args[0]), kinds_of(ve, c.args[1])
                if a and b_ and "tuple(" in describe_operand(ve, c.args[0]):
                    # a component-wise comparison of pairs keeps the two sizes apart
                    cmps.append((c.line, {"attrs"}, {"attrs"}))
                    cmps.append((c.line, {"items"}, {"items"}))
        if not cmps:
            raise AnchorMissing("ValueValidator::eq: no comparison of builder sizes found")
        merged = [(line, a | b_) for line, a, b_ in cmps if len(a) > 1 or len(b_) > 1]
        r.check(not merged, "ValueValidator::eq/sizes-not-merged", where(ve), "no comparison is made on a sum of the attribute count and the item count",
                "a comparison at line %s is made on values that merge the attribute count and the item count: records that differ in where an attribute sits (`@b {@a 2}` / `{@b @a 2}`) have equal totals and compare equal although they are different values with different hashes" % (merged[0][0] if merged else "-"))
        for k in ("attrs", "items"):
            both = [line for line, a, b_ in cmps if a == {k} and b_ == {k}]
            r.check(bool(both), "ValueValidator::eq/%s-compared" % k, where(ve), "the %s counts of the two sides' segments are compared with each other" % k,
                    "the %s counts of corresponding builder segments are never compared with each other" % k)

    with ctx.rule("C15.R7", "T5", "the hasher's textual look-ahead stops at every character it tests and steps over string literals", floor=4) as r:
        il = ctx.saw(rc.fn(name="is_implicit_record"))
        prog = ctx.program(R)
        cone = [il]
        seen = {il.defpath}
        k_ = 0
        while k_ < len(cone):
            b = cone[k_]
            k_ += 1
            for c in b.calls:
                for cb in prog.callee_bodies(c):
                    if cb.defpath not in seen and cb.crate.name == R and "record::hash" in cb.defpath:
                        seen.add(cb.defpath)
                        cone.append(ctx.saw(cb))
            for cb in rc.closures_of(b.defpath):
                if cb.defpath not in seen:
                    seen.add(cb.defpath)
                    cone.append(cb)
        # stop sets: constants passed to is_not directly, or to a local helper that hands its parameter to is_not
        stops = []
        helper_params = set()
        for b in cone:
            for c in b.calls:
                if c.name in ("is_not", "take_till", "take_while", "take_until"):
                    d = describe_operand(b, c.args[0])
                    if d.startswith("'") or d.startswith('"'):
                        stops.append((b, c, d[1:-1]))
                    else:
                        helper_params.add((b.defpath, d))
        for b in cone:
            for c in b.calls:
                for cb in prog.callee_bodies(c):
                    if any(cb.defpath == hp for hp, _ in helper_params):
                        for a in c.args:
                            d = describe_operand(b, a)
                            if d.startswith("'") or d.startswith('"'):
                                stops.append((b, c, d[1:-1]))
        if len(stops) < 2:
            raise AnchorMissing("is_implicit_record: expected the stop sets of its two scanning states, found %d" % len(stops))
        uses_lit = any((c.name == "string_literal") or any("tokens::string_literal" in describe_operand(b, a) for a in c.args) for b in cone for c in b.calls)
        r.check(uses_lit, "is_implicit_record/steps-over-string-literals", where(il), "the scan consumes string literals with the tokenizer's own parser",
                "the look-ahead scans raw characters and does not know string literals: @a(\"x,y\") is hashed as a record body while the equal @a(\"x\\u002cy\") is hashed as a single value")
        for i, (b, c, s) in enumerate(sorted(stops, key=lambda x: x[2])):
            r.check('"' in s, "is_implicit_record/stop-set#%d/contains-quote" % i, c.loc(), "the scan stops at a double quote (stop set %r)" % s,
                    "stop set %r has no double quote: the scan runs into string literals and takes their characters for delimiters" % s)
        # items of an attribute body may be separated by line breaks alone: the scan at the top level stops at them and something decides on them
        top = [x for x in stops if "," in x[2] and ";" in x[2]]
        nl_fns = [b for b in cone for c in b.calls if c.name == "one_of" and any(ch in describe_operand(b, c.args[0]) for ch in ("\\n", "\n"))]
        r.check(bool(top) and all(("\\n" in x[2] or "\n" in x[2]) and ("\\r" in x[2] or "\r" in x[2]) for x in top) and bool(nl_fns), "is_implicit_record/line-break-is-a-separator", top[0][1].loc() if top else where(il),
                "the top-level scan stops at line breaks and a look-ahead decides whether one separates two items",
                "the top-level scan does not stop at line breaks (stop set %r) or nothing examines them: `@a(1\\n2)` is the same value as `@a(1,2)` and compares equal to it, but is hashed as a single value" % (top[0][2] if top else "?"))
        # every character a decision arm tests is a stop character of the scan that precedes it
        delim = {}
        for nm, adt in (("AttrBody", "record::AttrBody"), ("RecBody", "record::RecBody")):
            try:
                eb = rc.fn(name="end_delim", self_adt=adt)
                for _, _, p, rv, _ in eb.assigns():
                    if p[0] == 0 and rv[0] == "use":
                        delim[nm] = describe_operand(eb, rv[1]).strip("'")
            except AnchorMissing:
                pass
        sep = rc.fn(suffix="tokens::separator")
        sepset = None
        for c in sep.calls:
            if c.name == "one_of":
                sepset = describe_operand(sep, c.args[0]).strip("'\"")
        for b, c, s in stops:
            # decision characters in the same body: char(const) calls dominated by this scan call
            tested = set()
            # (the two scanning states may be arms of one loop over the state: what belongs to a scan is reached from it without going through the
            # dispatch on the state again)
            heads = {si["block"] for si in b.switches_on(lambda p_, si: True) if si.get("kind") == "disc" and (si.get("adt") or "").endswith("ValidationState")}
            for x in b.calls:
                if not b.dominates(c.block, x.block) or x is c:
                    continue
                if heads and c.block not in heads and not b.reaches(c.block, {x.block}, avoid=heads):
                    continue
                # stop at the next scan call (the other state)
                if any(o[1] is not c and b.dominates(c.block, o[1].block) and b.dominates(o[1].block, x.block) for o in stops if o[0] is b):
                    continue
                if x.name == "char":
                    d = describe_operand(b, x.args[0])
                    if d.startswith("'"):
                        tested.add(d.strip("'"))
                    elif "end_delim" in d:
                        src = [s2 for s2 in b.sources(x.args[0]) if s2[0] == "call"]
                        for s2 in src:
                            k = "AttrBody" if "AttrBody" in s2[1].defpath else "RecBody" if "RecBody" in s2[1].defpath else None
                            if k and k in delim:
                                tested.add(delim[k])
                if x.name == "map" and any("tokens::separator" in describe_operand(b, a) for a in x.args) and sepset:
                    tested |= set(sepset)
            if not tested:
                continue
            missing = sorted(t for t in tested if t not in s)
            r.check(not missing, "is_implicit_record/stop-set(%s)/covers-tested-delimiters" % "".join(sorted(tested)), c.loc(), "stop set %r contains every delimiter the following alternatives test (%s)" % (s, "".join(sorted(tested))),
                    "the alternatives after the scan test %s but the scan (stop set %r) runs past them" % (missing, s))

    with ctx.rule("C15.R8", "T8+T7", "ReconKey (map-key identity under backpressure relief) is wired to the comparator and the hasher", floor=3) as r:
        rt = ctx.crate(RT)
        RK = "backpressure::key::ReconKey"
        eq = ctx.saw(rt.fn(name="eq", self_adt=RK))
        aok, awhy = answers_only_with(eq, "compare_recon_values")
        r.check(aok, "ReconKey/eq=>compare_recon_values", where(eq), "PartialEq::eq is swimos_recon::compare_recon_values of the two texts, on every path",
                "ReconKey equality is not (only) the Recon comparator (%s): keys that differ only in spelling (16 / 0x10, 1e3 / 1E3) compare unequal although their values are equal and their hashes agree" % awhy)
        hs = ctx.saw(rt.fn(name="hash", self_adt=RK))
        r.check(any(c.name == "recon_hash" for c in hs.calls), "ReconKey/hash=>recon_hash", where(hs), "Hash::hash delegates to swimos_recon::recon_hash", "ReconKey hash no longer uses recon_hash: equal keys can hash differently")
        args_eq = sorted(describe_operand(eq, a) for c in eq.calls if c.name == "compare_recon_values" for a in c.args)
        r.check(len(args_eq) == 2 and args_eq[0] != args_eq[1] and any("self" in a for a in args_eq) and any("other" in a for a in args_eq), "ReconKey/eq/compares-self-with-other", where(eq),
                "the two keys compared are self and other (%s)" % args_eq, "compare_recon_values is applied to %s" % args_eq)
