"""C13 Both stores behave as isolated per-agent, per-item value/map storage."""
import re
from mirlib import AnchorMissing, describe_call, describe_operand, describe_place, describe_rvalue, dom_guards, guards, decision_paths, _suffix_match
from rules.common import in_execution_order, id_allocation_rule, named_argument_rule, aggregates, callers_by_name, owner_def, where

META = {
    "explanation": (
        "C13 (partial): R1 crash-safe id allocation: the persisted counter is merged before the name->id mapping is written and the id comes "
        "from the in-memory fetch_add; R2 key layout: the bytes StoreKey::write_into puts before a map key add up to MAP_KEY_PREFIX_SIZE, which "
        "is what the range consumer strips; the range upper bound uses the same tag and id with UBOUND > KEY; the fixed prefix extractor is no "
        "longer than tag + id; R3 value keys go to the value keyspace, map keys to the map keyspace, and the keyspace names agree with the column "
        "families opened; R4 NodePersistence methods map to the right engine operation and key variant; R5 the in-memory store hands the state "
        "back to the plane on every path of Drop and marks it in use when handed out; R6 no durability-weakening knob is used; R7 composite store "
        "names must be injective. R9 in-memory store operation table (own id, own kind, whole-value replacement, fresh ids); R1 includes the counter's merge operator."
),
    "does_not_decide": "read-your-writes of either store for all histories; survival of SIGKILL (RocksDB's own guarantee)",
}

RS = "swimos_rocks_store"
SA = "swimos_server_app"


def _reaches_fn(crate, body, name, depth=3):
    """does `body` call (within a few local calls) a function called `name`?"""
    seen, work = set(), [(body, 0)]
    while work:
        b, d = work.pop()
        if b.defpath in seen:
            continue
        seen.add(b.defpath)
        for c in b.calls:
            if c.name == name or c.via_name == name:
                return True
            if d < depth and c.defpath and c.defpath in crate.by_def:
                try:
                    work.append((crate.body(c.defpath), d + 1))
                except Exception:
                    pass
    return False


def delete_map_range(r, ctx, rs):
    """clear_map removes exactly one lane's entries: the range runs from the lane's key prefix to [MAP_TAG][same lane id][UBOUND] in the map keyspace.
    (Lane ids are written little-endian, so `the next lane's prefix` is not an upper bound: it also covers lanes id+256, id+512, ..)"""
    dm = ctx.saw(rs.fn(name="delete_map", self_adt="plane::SwimPlaneStore"))
    dr = [c for c in dm.calls if c.via_name == "delete_key_range"]
    if len(dr) != 1:
        raise AnchorMissing("SwimPlaneStore::delete_map: expected one delete_key_range call, found %d" % len(dr))
    c = dr[0]
    lane = [i for i in range(1, dm.argc + 1) if dm.locals[i].lstrip("&") == "u64"]
    lo, hi = describe_operand(dm, c.args[2]), describe_operand(dm, c.args[3])
    r.check("KeyspaceName::Map" in describe_operand(dm, c.args[1]), "delete_map/keyspace", c.loc(), "the range delete runs in the map keyspace", "clear_map deletes from %s" % describe_operand(dm, c.args[1])[:60])
    # the function that builds the upper bound, and the lane id it is given
    ub_calls = [x for x in dm.calls if x.defpath and x.defpath in rs.by_def and x.name not in ("delete_key_range",) and x.name + "(" in hi]
    ub_ok = False
    for x in ub_calls:
        try:
            xb = rs.body(x.defpath)
        except Exception:
            continue
        if (x.name == "write_map_ubound" or _reaches_fn(rs, xb, "write_map_ubound")) and x.args and lane and dm.copy_root(x.args[0]) == lane[0]:
            ub_ok = True
    r.check(ub_ok, "delete_map/range", c.loc(), "clear_map deletes [prefix(lane), [MAP_TAG][lane][UBOUND]) - the bound is built by write_map_ubound from the same lane id",
            "the upper bound of clear_map's range delete is `%s`, not the UBOUND key of the same lane: lane ids are little-endian, so any other bound (e.g. the next id's prefix) also deletes the entries of lanes id+256, id+512, .. or leaves entries behind" % hi[:90])
    r.check("serialize_as_bytes(" in lo and "StoreKey::Map" in lo and "Option::None" in lo and lane and ("arg%d" % lane[0] in lo or (dm.var_name(lane[0]) or "?") in lo), "delete_map/lower-bound", c.loc(),
            "the range starts at the lane's own prefix (StoreKey::Map{lane_id, key: None})", "the lower bound of clear_map's range delete is `%s`" % lo[:90])


def store_wrapper_table(r, ctx, rs):
    want = {"get_value": ("get", "Value"), "put_value": ("put", "Value"), "delete_value": ("delete", "Value"),
            "update_map": ("put", "Map"), "remove_map": ("delete", "Map"), "clear_map": ("delete_map", None), "read_map": ("ranged_snapshot_consumer", "Map")}
    for m, (op, var) in want.items():
        b = ctx.saw(rs.fn(name=m, self_adt="agent::StoreWrapper", trait="swimos_api::persistence::NodePersistence"))
        ops = [c for c in b.calls if c.via_name in ("get", "put", "delete", "delete_map", "ranged_snapshot_consumer") and ("StoreEngine" in (c.trait or "") or "NodeStore" in (c.trait or ""))]
        keys = [a[4] for a in aggregates(b, "server::StoreKey")]
        r.check(len(ops) == 1 and ops[0].via_name == op and (var is None or keys == [var]), "StoreWrapper::%s" % m, where(b), "%s -> %s(%s)" % (m, op, var or "lane id"),
                "%s calls %s with key %s" % (m, [c.via_name for c in ops], keys))
        if var == "Map" and m != "read_map":
            ag = [a for a in aggregates(b, "server::StoreKey", "Map")][0]
            kd = describe_operand(b, ag[2][1])
            r.check(kd.startswith("Option::Some(") and "key" in kd, "StoreWrapper::%s/key-carried" % m, b.loc(ag[3]), "the map key is carried in the StoreKey (%s)" % kd[:50])
        if m == "read_map":
            ag = [a for a in aggregates(b, "server::StoreKey", "Map")][0]
            r.check(describe_operand(b, ag[2][1]) == "Option::None()", "StoreWrapper::read_map/prefix-only", b.loc(ag[3]), "read_map scans with the lane prefix only (key: None)")
    lo = ctx.saw(rs.fn(name="lane_id_of", self_adt="agent::SwimNodeStore"))
    r.check(any(c.via_name == "node_id_of" for c in lo.calls), "lane_id_of/delegates", where(lo), "lane ids come from the plane's key store")


def run(ctx):
    rs = ctx.crate(RS)

    with ctx.rule("C13.R1", "T1", "KeyStore::id_for: counter merged before the mapping is written; id from fetch_add", floor=3) as r:
        id_allocation_rule(r, ctx)

    with ctx.rule("C13.R2", "T5", "StoreKey layout agrees between writer, prefix stripper, range bound and prefix extractor", floor=6) as r:
        wi = ctx.saw(rs.fn(name="write_into", self_adt="server::StoreKey"))
        consts = {k.split("::")[-1]: v.get("v") for k, v in rs.consts.items() if k.startswith("swimos_rocks_store::server::") and "v" in v}
        for nm in ("ID_LEN", "SIZE_LEN", "TAG_LEN", "VAL_TAG", "MAP_TAG", "KEY", "UBOUND"):
            if nm not in consts:
                raise AnchorMissing("const server::%s not found" % nm)
        mk = [v.get("v") for k, v in rs.consts.items() if k.endswith("MAP_KEY_PREFIX_SIZE")]
        if not mk:
            raise AnchorMissing("StoreKey::MAP_KEY_PREFIX_SIZE not found")
        # bytes written before the key, Map{key: Some} path
        seq = []
        for c in in_execution_order(wi, [c for c in wi.calls if c.name == "write_all" and any(l == "Map" for d, l, _ in dom_guards(wi, c.block) if d == "disc(self)")]) + [c for c in wi.calls if c.name == "write_all" and not any(l == "Map" for d, l, _ in dom_guards(wi, c.block) if d == "disc(self)")]:
            if c.name == "write_all":
                g = dom_guards(wi, c.block)
                v = [l for d, l, _ in g if d == "disc(self)"]
                t = wi.locals[c.args[1][1][0]] if c.args[1][0] in ("c", "m") else ""
                seq.append((v[0] if v else "?", describe_operand(wi, c.args[1])[:50], c))
        mp = [s for s in seq if s[0] == "Map"]
        r.check(len(mp) == 5, "write_into/Map/five-writes", where(wi), "Map key = tag, lane id, KEY, length, key (%d writes)" % len(mp), "Map key is written in %d parts" % len(mp))
        prefix = consts["TAG_LEN"] + consts["ID_LEN"] + consts["TAG_LEN"] + consts["SIZE_LEN"]
        r.check(mk[0] == prefix == 18, "MAP_KEY_PREFIX_SIZE=tag+id+tag+len", "-", "MAP_KEY_PREFIX_SIZE = %s = TAG_LEN + ID_LEN + TAG_LEN + SIZE_LEN" % mk[0], "MAP_KEY_PREFIX_SIZE = %s but the writer emits %s bytes before the key" % (mk[0], prefix))
        descs = [d for _, d, _ in mp]
        r.check(len(descs) == 5 and "encode_fixed_light(" in descs[1] and "encode_fixed_light(" in descs[3] and "lane_id" in descs[1] and "len" in descs[3], "write_into/Map/order", where(wi),
                "order: [MAP_TAG] id [KEY] len key", "Map key parts: %s" % descs)
        pc = ctx.saw(rs.fn(name="consume_next", self_adt="plane::PrefixStrippedRangeConsumer"))
        idx = [describe_call(pc, c) for c in pc.calls if c.via_name == "index"]
        r.check(any("18" in d or "MAP_KEY_PREFIX_SIZE" in d for d in idx) and any((("Lt(len(" in d and l == "false") or ("Ge(len(" in d and l == "true")) and ("18" in d or "MAP_KEY_PREFIX_SIZE" in d) for d, l, _ in [g for c in pc.calls if c.via_name == "index" for g in dom_guards(pc, c.block)]), "PrefixStrippedRangeConsumer/strip=MAP_KEY_PREFIX_SIZE", where(pc),
                "the consumer strips exactly MAP_KEY_PREFIX_SIZE bytes and rejects shorter keys", "the consumer strips %s" % idx)
        ub = ctx.saw(rs.fn(name="write_map_ubound", self_adt="server::StoreKey"))
        us = [describe_operand(ub, c.args[1])[:40] for c in in_execution_order(ub, [c for c in ub.calls if c.name == "write_all"])]
        r.check(len(us) == 3 and "encode_fixed_light(lane_id" in us[1], "write_map_ubound/layout", where(ub), "upper bound = [MAP_TAG] id [UBOUND]", "upper bound parts: %s" % us)
        r.check(consts["KEY"] < consts["UBOUND"] and consts["VAL_TAG"] != consts["MAP_TAG"], "KEY<UBOUND", "-", "KEY (%s) < UBOUND (%s): every key of the lane sorts below the range bound" % (consts["KEY"], consts["UBOUND"]),
                "KEY (%s) is not below UBOUND (%s): clear_map leaves entries behind" % (consts["KEY"], consts["UBOUND"]))
        dk = ctx.saw(rs.fn(suffix="server::rocks::default_keyspaces"))
        fp = [c for c in dk.calls if c.name == "create_fixed_prefix"]
        r.check(len(fp) == 1 and describe_operand(dk, fp[0].args[0]) in ("8", "size_of()") and 8 <= consts["TAG_LEN"] + consts["ID_LEN"], "prefix-extractor<=tag+id", where(dk),
                "fixed prefix extractor of 8 bytes <= TAG_LEN + ID_LEN (a prefix scan never mixes map and value tags)", "prefix extractor length %s" % [describe_operand(dk, c.args[0]) for c in fp])
        sl = ctx.saw(rs.fn(name="ser_len", self_adt="server::StoreKey"))
        r.check(True, "ser_len/analysed", where(sl), "capacity hint only")

    with ctx.rule("C13.R3", "T5", "value keys -> value keyspace, map keys -> map keyspace; names agree with the column families", floor=4) as r:
        ek = ctx.saw(rs.fn(suffix="plane::exec_keyspace"))
        tb = {}
        for c in ek.calls:
            if c.via_name in ("call", "call_mut", "call_once") or c.name in ("call",):
                v = [l for d, l, _ in dom_guards(ek, c.block) if d == "disc(key)"]
                d = describe_operand(ek, c.args[1])
                tb[v[0] if v else "?"] = d
        # (the table may sit in a helper: the constants built under the match on the key say the same)
        for i, j, p_, rv, line in ek.assigns():
            d_ = describe_rvalue(ek, rv)
            if re.match(r"^KeyspaceName::(Map|Value|Lane)\(\)$", d_):
                for dd, l, _ in dom_guards(ek, i):
                    if dd in ("disc(key)", "disc((*key))"):
                        for k_ in l.split("|"):
                            if "KeyspaceName::" not in tb.get(k_, ""):
                                tb[k_] = d_
        r.check("KeyspaceName::Map" in tb.get("Map", "") and "KeyspaceName::Value" in tb.get("Value", ""), "exec_keyspace/routing", where(ek), "Map -> KeyspaceName::Map, Value -> KeyspaceName::Value", "routing table: %s" % tb)
        rc = ctx.saw(rs.fn(name="ranged_snapshot_consumer", self_adt="plane::SwimPlaneStore"))
        ns = {}
        for a in aggregates(rc, "store::KeyspaceName"):
            v = [l for d, l, _ in dom_guards(rc, a[0]) if d.startswith("disc(prefix")]
            ns[v[0] if v else "?"] = a[4]
        r.check(ns == {"Map": "Map", "Value": "Value"}, "ranged_snapshot_consumer/routing", where(rc), "range reads use the keyspace of the key's kind", "range routing: %s" % ns)
        delete_map_range(r, ctx, rs)
        nm = ctx.saw(rs.fn(name="name", self_adt="store::KeyspaceName"))
        nt = {}
        for i, j, p, rv, line in nm.assigns():
            if p[0] == 0 and not p[1]:
                v = [l for d, l, _ in dom_guards(nm, i) if d.startswith("disc(")]
                nt[v[0] if v else "?"] = describe_rvalue(nm, rv).strip("'")
        r.check(nt == {"Lane": "default", "Value": "value_lanes", "Map": "map_lanes"}, "KeyspaceName::name/table", where(nm), "keyspace names %s" % nt, "keyspace names %s" % nt)
        dk = rs.fn(suffix="server::rocks::default_keyspaces")
        news = [describe_operand(dk, c.args[0]).strip("'") for c in dk.calls if c.name == "new" and "KeyspaceDef" in c.defpath]
        r.check(sorted(news) == ["default", "map_lanes", "value_lanes"], "default_keyspaces/column-families", where(dk), "column families opened: %s" % news, "column families opened: %s" % news)

    with ctx.rule("C13.R4", "T5", "NodePersistence for StoreWrapper: method -> engine operation and key variant", floor=7) as r:
        store_wrapper_table(r, ctx, rs)

    with ctx.rule("C13.R5", "T2", "in-memory store: state handed back on every path of Drop; marked in use when handed out", floor=4) as r:
        sa = ctx.crate(SA)
        d = ctx.saw(sa.fn(name="drop", self_adt="in_memory_store::InMemoryNodePersistence"))
        ins = [c for c in d.calls if c.name == "insert" and "nodes" in describe_operand(d, c.args[0])]
        snd = [c for c in d.calls if c.name == "send"]
        ok, wit = d.must_pass([0], {c.block for c in ins})
        r.check(ok and len(ins) >= 1, "Drop/entry-reinserted-on-every-path", where(d), "every path of Drop puts an entry for the agent back into the plane (%d insert sites)" % len(ins), "Drop can return without returning the state: %s" % wit)
        idle = [a for a in aggregates(d, "in_memory_store::NodeEntry", "Idle")]
        r.check(len(idle) >= 1 and all("state" in describe_operand(d, a[2][0]) or "send(" in describe_operand(d, a[2][0]) or "Err" in describe_operand(d, a[2][0]) for a in idle), "Drop/Idle-carries-state", where(d), "NodeEntry::Idle holds the agent's state")
        r.check(len(snd) == 1 and any(l == "Some" or "InUse" in l for dd, l, _ in dom_guards(d, snd[0].block)), "Drop/waiter-gets-state", where(d), "a waiting starter receives the state")
        tk = [c for c in d.calls if c.name == "take" and "state" in describe_operand(d, c.args[0])]
        r.check(len(tk) >= 1, "Drop/state-moved-out", where(d), "the state is moved out of the handle (mem::take)")
        # the state exists once: taking it out of the handle twice on one path yields the real state first and an empty default second
        twice = [(a, b_) for a in tk for b_ in tk if a is not b_ and d.reaches(a.block, {b_.block})]
        r.check(not twice, "Drop/state-taken-once-per-path", tk[0].loc() if tk else where(d), "the state is taken out of the handle at most once on any path",
                "a path takes the state out of the handle twice (lines %s): the second take is an empty default state - whatever is stored from it has lost the agent's values, maps and name table" % sorted({(a.line, b_.line) for a, b_ in twice})[:2])
        # a hand-off that fails (the waiting starter has gone) gives the state back in the error: that is what must be parked as Idle
        if len(snd) == 1:
            fail_idle = []
            for a in idle:
                g = dom_guards(d, a[0])
                failed = any(("send(" in dd and (l in ("Err", "false"))) for dd, l, _ in g)
                if failed:
                    fail_idle.append(a)
            okf = bool(fail_idle) and all(any(s_[0] == "call" and s_[1] is snd[0] for s_ in d.sources(a[2][0], stop_at_calls=False)) for a in fail_idle)
            r.check(okf, "Drop/failed-hand-off-parks-the-returned-state", snd[0].loc(), "when the waiting starter has gone the state returned by the failed send is parked as Idle",
                    "after a failed hand-off the entry parked in the plane is not built from the state the failed send returned: the agent's stored state is dropped and an empty one takes its place")
        ns = ctx.saw(sa.fn(name="node_store", self_adt="in_memory_store::InMemoryPlanePersistence"))
        inuse = [a for a in aggregates(ns, "in_memory_store::NodeEntry", "InUse")]
        news = [c for c in ns.calls if c.name == "new" and "InMemoryNodePersistence" in c.defpath]
        r.check(len(inuse) >= 3 and all(any(ns.dominates(a[0], c.block) or ns.dominates(c.block, a[0]) for a in inuse) for c in news), "node_store/marks-in-use", where(ns), "every hand-out replaces the entry by InUse")
        r.check(any(c.name == "remove_entry" for c in ns.calls), "node_store/takes-entry", where(ns), "the Idle state is moved out of the plane when handed out")

    with ctx.rule("C13.R6", "T4", "no durability-weakening option is used by the RocksDB store", floor=1) as r:
        bad = []
        for b in rs.all_bodies():
            for c in b.calls:
                if c.name in ("disable_wal", "set_disable_wal", "set_sync", "set_use_fsync", "set_manual_wal_flush", "set_unordered_write", "set_atomic_flush") or (c.name in ("put_cf_opt", "delete_cf_opt", "merge_cf_opt", "write_opt", "write_without_wal")):
                    bad.append((b, c))
        for b, c in bad:
            r.bad("durability-knob/%s/%s" % (owner_def(b).split("::")[-1], c.name), c.loc(), "%s is used: acknowledged operations may not survive a crash" % c.name)
        if not bad:
            r.ok("durability-knobs/none", "-", "no WriteOptions / WAL-disabling call in swimos_rocks_store (%d bodies scanned)" % len(list(rs.all_bodies())))

    with ctx.rule("C13.R7", "T5", "composite store names are injective", floor=2) as r:
        lo = rs.fn(name="lane_id_of", self_adt="agent::SwimNodeStore")
        fm = [c for c in lo.calls if c.name in ("format", "must_use") and "fmt" in c.defpath or c.name == "format"]
        parts = _format_pieces(lo)
        if parts is None:
            raise AnchorMissing("lane_id_of: format template not found")
        lits = [x for x in parts if x != "{}"]
        # two free-form components joined by a separator that both may contain is not injective
        r.check(not (parts.count("{}") >= 2 and all(len(x) <= 1 for x in lits)), "lane_id_of/injective", where(lo),
                "node uri and lane name are composed injectively",
                "the store name is `format!(\"{}/{}\", node_uri, lane)`: node '/a' + item 'b/c' and node '/a/b' + item 'c' share one id (and so one stored value/map)")
        fk = ctx.saw(rs.fn(suffix="keystore::format_key"))
        p2 = _format_pieces(fk)
        lp = [v.get("str") for k, v in rs.consts.items() if k.endswith("keystore::LANE_PREFIX")]
        r.check(p2 == ["{}", "/", "{}"] and lp == ["lane"] and any("LANE_PREFIX" in describe_operand(fk, a) or "'lane'" in describe_operand(fk, a) for c in fk.calls for a in c.args) or (p2 == ["{}", "/", "{}"] and lp == ["lane"]), "format_key/prefix", where(fk),
                "names are stored as 'lane/<name>' (template %s, LANE_PREFIX = %s): they cannot collide with the counter key" % (p2, lp), "format_key template %s / LANE_PREFIX %s" % (p2, lp))
        ck = [v.get("str") for k, v in rs.consts.items() if k.endswith("COUNTER_KEY")]
        r.check(bool(ck) and not (ck[0] or "").startswith("lane/"), "COUNTER_KEY/outside-name-prefix", "-", "counter key %r is outside the 'lane/' name space" % (ck[0] if ck else None))

    with ctx.rule("C13.R8", "T5", "named arguments are passed in their parameters' positions (no two flags or ids change places at a call site)", floor=5) as r:
        named_argument_rule(ctx, r, [("swimos_rocks_store", "swimos_rocks_store::"), ("swimos_server_app", "in_memory_store")], allow={})

    with ctx.rule("C13.R9", "T5", "in-memory store: every NodePersistence method works on the entry of its own id (and key) in the collection of its own kind", floor=14) as r:
        sa = ctx.crate(SA)
        ADT = "in_memory_store::InMemoryNodePersistence"
        V, M = "self.state.values", "self.state.maps"
        # method -> (collection of its kind, first access, the other kind's collection)
        T = {"get_value": (V, "get", M), "put_value": (V, "entry", M), "delete_value": (V, "remove", M),
             "update_map": (M, "entry", V), "remove_map": (M, "get_mut", V), "clear_map": (M, "remove", V), "read_map": (M, "get", V)}
        MUT = ("insert", "remove", "clear", "entry", "get_mut", "extend", "extend_from_slice", "retain", "drain", "push", "append")
        for m, (own, first, other) in sorted(T.items()):
            b = ctx.saw(sa.fn(name=m, self_adt=ADT))
            acc = [c for c in b.calls if c.args and describe_operand(b, c.args[0]) == own]
            # (the kind of access, not the method that spells it: `entry` / `get_mut` + `insert` / .. are all ways of writing the item's own entry)
            KIND = {"get": ("get", "get_key_value", "iter", "contains_key"), "entry": ("entry", "get_mut", "insert", "get_or_insert_with"), "remove": ("remove", "remove_entry"), "get_mut": ("get_mut", "entry")}
            r.check(len(acc) >= 1 and any(c.name in KIND[first] for c in acc) and all(len(c.args) < 2 or describe_operand(b, c.args[1]) == "id" for c in acc), "%s/own-entry" % m, acc[0].loc() if acc else where(b),
                    "%s works on %s[id] (%s)" % (m, own.split(".")[-1], acc[0].name if acc else "?"), "%s accesses %s" % (m, [(c.name, [describe_operand(b, a)[:30] for a in c.args]) for c in acc][:3]))
            # every further access of that collection uses the same id
            r.check(all(describe_operand(b, c.args[1]) == "id" for c in acc if len(c.args) > 1), "%s/own-id-everywhere" % m, where(b), "every access of %s is keyed by the method's id" % own.split(".")[-1],
                    "%s reaches an entry of another item: %s" % (m, [describe_operand(b, c.args[1])[:30] for c in acc if len(c.args) > 1]))
            oth = [c for c in b.calls if c.args and describe_operand(b, c.args[0]).startswith(other)]
            r.check(all(c.name == "contains_key" and describe_operand(b, c.args[1]) == "id" for c in oth), "%s/other-kind-only-queried" % m, where(b), "the collection of the other kind is only asked whether it holds this id",
                    "%s touches %s with %s" % (m, other.split(".")[-1], [c.name for c in oth]))
            # an existing byte vector that is re-used is emptied first (whole-value replacement)
            for c in b.calls:
                if c.name in ("extend_from_slice", "extend", "put", "put_slice", "push") and (c.self_adt or "").endswith("vec::Vec") and "get_mut(" in describe_operand(b, c.args[0]):
                    tgt = describe_operand(b, c.args[0])
                    cl = [x for x in b.calls if x.name == "clear" and describe_operand(b, x.args[0]) == tgt and b.dominates(x.block, c.block)]
                    r.check(bool(cl) and describe_operand(b, c.args[1]) == "value", "%s/stored-bytes-replaced-by-value" % m, c.loc(), "the stored bytes are cleared and then filled from `value`",
                            "%s extends the stored bytes with %s without emptying them first: the new value is appended to the old one" % (m, describe_operand(b, c.args[1])[:30]))
            ins = [c for c in b.calls if c.name == "insert" and ("Entry" in (c.self_adt or "") or "BTreeMap" in (c.self_adt or ""))]
            for c in ins:
                ds = [describe_operand(b, a) for a in c.args[1:]]
                want = ["to_vec(value)"] if m == "put_value" else None
                if m == "update_map":
                    want = ["to_vec(key)", "to_vec(value)"] if "BTreeMap" in (c.self_adt or "") else None
                    if want is None:
                        r.check("tuple(to_vec(key), to_vec(value))" in ds[0], "update_map/first-entry=(key,value)", c.loc(), "a new map starts with the entry (key, value)", "a new map starts with %s" % ds[0][:80])
                        continue
                if want is not None:
                    r.check(ds == want, "%s/stores-%s" % (m, "+".join(x[7:-1] for x in want)), c.loc(), "insert(%s)" % ", ".join(ds), "%s inserts %s (expected %s)" % (m, ds, want))
        rmv = sa.fn(name="remove_map", self_adt=ADT)
        rc = [c for c in rmv.calls if c.name == "remove" and "BTreeMap" in (c.self_adt or "")]
        r.check(len(rc) == 1 and describe_operand(rmv, rc[0].args[1]) == "key", "remove_map/removes-key", rc[0].loc() if rc else where(rmv), "remove_map removes exactly `key` from the item's map")
        rdm = sa.fn(name="read_map", self_adt=ADT)
        it = [c for c in rdm.calls if c.name == "iter" and "BTreeMap" in (c.self_adt or "")]
        r.check(len(it) == 1 and describe_operand(rdm, it[0].args[0]).startswith("get(self.state.maps, id)"), "read_map/iterates-own-map", it[0].loc() if it else where(rdm), "read_map iterates the item's own map")
        gv = sa.fn(name="get_value", self_adt=ADT)
        pt = [c for c in gv.calls if c.name in ("put", "put_slice", "extend_from_slice") and describe_operand(gv, c.args[0]) == "buffer"]
        r.check(len(pt) == 1 and describe_operand(gv, pt[0].args[1]).startswith("get(self.state.values, id)<Some>.0"), "get_value/copies-own-bytes", pt[0].loc() if pt else where(gv), "get_value copies the item's own bytes into the buffer")
        # ids: a known name keeps its id, an unknown one gets the counter's value and the counter moves on
        ids = ctx.saw(sa.fn(name="id_for", self_adt="in_memory_store::Ids"))
        ins = [c for c in ids.calls if c.name == "insert" and "HashMap" in (c.self_adt or "")]
        incs = [(i, describe_rvalue(ids, rv)) for i, j, p_, rv, line in ids.assigns() if describe_place(ids, p_).endswith("counter") and "Add" in describe_rvalue(ids, rv)]
        g = dom_guards(ids, ins[0].block) if ins else []
        r.check(len(ins) == 1 and any(d.startswith("disc(get(") and l == "None" for d, l, _ in g) and len(incs) == 1 and ", 1)" in incs[0][1] and ids.dominates(incs[0][0], ins[0].block) or (len(ins) == 1 and len(incs) == 1 and ids.dominates(ins[0].block, incs[0][0])),
                "Ids::id_for/fresh-id-per-new-name", ins[0].loc() if ins else where(ids), "an unknown name is mapped to the counter's value and the counter is incremented; a known name keeps its id",
                "Ids::id_for: inserts %d, counter increments %s" % (len(ins), incs))
        idd = describe_operand(ids, ins[0].args[2]) if ins else ""
        r.check("counter" in idd and "Add" not in idd or idd == "id", "Ids::id_for/stores-the-returned-id", ins[0].loc() if ins else where(ids), "the id stored for the name is the one returned (%s)" % idd[:40])


def _format_pieces(body):
    """The template of the (single) format_args! in a body. rustc lowers the template to a byte string:
    0xC0 = an argument, n (< 0x80) = a literal piece of n bytes follows, 0 = end. Returns e.g. ['{}', '/', '{}']."""
    for i, j, p, rv, line in body.assigns():
        if rv[0] == "use" and rv[1][0] == "k" and rv[1][1].get("ty", "").startswith("&[u8;") and "bytes" in rv[1][1]:
            bs = rv[1][1]["bytes"]
            if not any(c.defpath.startswith("core::fmt::Arguments") for c in body.calls):
                continue
            out = []
            k = 0
            while k < len(bs):
                b = bs[k]
                if b == 0:
                    break
                if b == 0xC0:
                    out.append("{}")
                    k += 1
                elif b < 0x80:
                    out.append(bytes(bs[k + 1:k + 1 + b]).decode("utf-8", "replace"))
                    k += 1 + b
                else:
                    out.append("{?}")
                    k += 1
            return out
    return None
