"""C02 Map lanes: every subscriber's replica converges to the lane's map."""
import re
from mirlib import AnchorMissing, describe_call, describe_operand, describe_place, describe_rvalue, dom_guards, guards, decision_paths, switch_desc, _suffix_match
from rules import uplinks
from rules.common import answers_only_with, guards_with_sources, success_edge, aggregates, callers_by_name, crate_aggregates, owner_def, where

META = {
    "explanation": (
        "C02: two independent coalescing layers (agent EventQueue keyed by the typed key, runtime MapOperationQueue keyed by ReconKey) with "
        "epoch bookkeeping. R1 the three structures events/epoch_map/head_epoch move together on every path of push and pop in both queues "
        "(the recorded epoch is head_epoch + len read before the push; a clear resets all three before the single Clear entry); R2 a queued "
        "key is replaced in place, by an operation on the same key, without touching the index; R3 removes and clears are never dropped when "
        "events are resolved against the map; R4 every mutation of the lane's map records `previous` and queues the matching operation; "
        "R5 ReconKey equality/hash are wired to the Recon comparator/hasher and its bytes are validated UTF-8; R6 take/drop order keys by "
        "Recon order for unordered backings and map Drop->first n, Take->all but first n; R7 map mutating handlers report Modification::of; "
        "R8 a map uplink re-queues itself while it has data. R11 the map lane's queues are drained: pop answers None only when nothing is queued."
        ' R14 (= C03.R4) after a finished sync queue is removed the cursor stays inside the vector: every sync queue keeps being served.'
),
    "does_not_decide": "convergence itself under all interleavings; that K: Ord of an ordered backing agrees with Recon order (documented obligation on the user type); C15's comparator law",
}

AG = "swimos_agent"
RT = "swimos_runtime"


def _to_deque_loop_table(td):
    """to_deque written as a loop over `it.enumerate()`: which keys are kept, by (kind, position < number), read off the paths of one iteration.
    Drop keeps a key exactly when it is among the first n (= take), Take exactly when it is not (= skip)."""
    nx = [c for c in td.calls if c.via_name == "next" and "enumerate(" in describe_operand(td, c.args[0])]
    pbs = {c.block for c in td.calls if c.name in ("push_back", "push") and c.args and len(c.args) == 2}
    if len(nx) != 1 or not pbs:
        return {}
    start = success_edge(td, nx[0], "Some")
    if start is None:
        return {}
    kept = set()
    stack = [(start, None, None, (start,))]
    n = 0
    while stack and n < 5000:
        n += 1
        b, kind, lt, trail = stack.pop()
        if b in pbs:
            kept.add((kind, lt))
            continue
        if b == nx[0].block or not td.succ[b]:
            continue
        t = td.term(b)
        if t["k"] == "switch":
            d = switch_desc(td, b) or ""
            if d == "disc(kind)":
                for nm, tbk in (td.variant_edges(b) or {}).items():
                    if kind in (None, nm) and tbk not in trail:
                        stack.append((tbk, nm, lt, trail + (tbk,)))
                continue
            m = re.match(r"^(Lt|Ge)\(next\(.*\)<Some>\.0\.0, number\)$", d) or re.match(r"^(Gt|Le)\(number, next\(.*\)<Some>\.0\.0\)$", d)
            if m and len(t["arms"]) == 1 and int(t["arms"][0][0]) == 0:
                pos = m.group(1) in ("Lt", "Gt")
                for val, tbk in ((False, t["arms"][0][1]), (True, t["otherwise"])):
                    in_prefix = val if pos else not val
                    if lt in (None, in_prefix) and tbk not in trail:
                        stack.append((tbk, kind, in_prefix, trail + (tbk,)))
                continue
        for s_ in td.succ[b]:
            if s_ not in trail and not td.is_cleanup(s_):
                stack.append((s_, kind, lt, trail + (s_,)))
    if any(k is None or l is None for k, l in kept):
        return {"?": "kept whatever the kind / position (%s)" % sorted(map(str, kept))}
    tb = {}
    for k in ("Drop", "Take"):
        ls = {l for kk, l in kept if kk == k}
        tb[k] = "take" if ls == {True} else "skip" if ls == {False} else "keeps %s" % sorted(ls)
    return tb


def queue_rules(r, ctx, crate, adt, qfield, tag, regex):
    push = ctx.saw(crate.fn(name="push", self_adt=adt, regex=regex + r"::push$"))
    pop = ctx.saw(crate.fn(name="pop", self_adt=adt, regex=regex + r"::pop$"))
    opv = "disc(action)" if tag == "EventQueue" else "disc(operation)"

    def arm(g):
        v = [l for d, l, _ in g if d == opv]
        return v[0] if v else None

    # the edges on which the pushed operation is an Update / a Remove (the two may share everything after them: `(key, Some(value))` / `(key, None)`)
    arm_edge, vidx = {}, {}
    for sb in range(push.n):
        if push.term(sb)["k"] == "switch" and not push.is_cleanup(sb) and switch_desc(push, sb) == opv:
            for nm, tb in (push.variant_edges(sb) or {}).items():
                arm_edge.setdefault(nm, tb)
            vidx = {nm: k for k, nm in ((push.switch_info(sb) or {}).get("names") or {}).items()}
    reach = {v: (push.reachable_cp([arm_edge[v]]) if v in arm_edge else set()) for v in ("Update", "Remove")}

    def on_arm(c_block, v):
        a = arm(dom_guards(push, c_block))
        return a == v or (a is None and c_block in reach[v])

    def is_variant(v, block, operand, text):
        return ("::%s(" % v) in text or (v in arm_edge and v in vidx and push.variants_at([arm_edge[v]], block, operand) == {vidx[v]})
    # keyed variants
    for v in ("Update", "Remove"):
        pbs = [c for c in push.calls if c.name == "push_back" and describe_operand(push, c.args[0]).endswith("." + qfield) and on_arm(c.block, v)]
        inss = [c for c in push.calls if c.name == "insert" and describe_operand(push, c.args[0]).endswith(".epoch_map") and on_arm(c.block, v)]
        if len(pbs) != 1 or len(inss) != 1:
            r.bad("%s/push/%s/append-pair" % (tag, v), where(push), "expected one push_back and one epoch_map.insert on the %s arm, found %d and %d" % (v, len(pbs), len(inss)))
            continue
        pb, ins = pbs[0], inss[0]
        # both on the same (not queued) edge, each implies the other
        ok1, w1 = push.must_pass(push.succ[pb.block], {ins.block}) if not push.dominates(ins.block, pb.block) else (True, None)
        ok2, w2 = push.must_pass(push.succ[ins.block], {pb.block}) if not push.dominates(pb.block, ins.block) else (True, None)
        r.check(ok1 and ok2, "%s/push/%s/append<=>index" % (tag, v), pb.loc(), "a new %s entry is appended and indexed on the same path" % v,
                "%s: the queue and the epoch index can get out of step (%s %s)" % (v, w1, w2))
        g = guards_with_sources(push, pb.block)
        r.check(any(l == "None" for d, l, _, src in g if "epoch_map" in src or "and_then" in d or "slot" in d), "%s/push/%s/append-only-if-not-queued" % (tag, v), pb.loc(),
                "append only when the key has no queued entry", "append although the key is already queued: a key would have two entries and be reordered")
        ep = describe_operand(push, ins.args[2])
        lens = [s[1] for s in push.sources(ins.args[2], stop_at_calls=False) if s[0] == "call" and s[1].name == "len"]
        r.check(ep.startswith("wrapping_add(") and "head_epoch" in ep and ("len(" in ep and "." + qfield in ep) and bool(lens) and all(push.dominates(l.block, pb.block) for l in lens), "%s/push/%s/epoch=head+len-before-push" % (tag, v), ins.loc(),
                "epoch = head_epoch.wrapping_add(%s.len()) with len read before the push (%s)" % (qfield, ep[:60]), "recorded epoch is %s (len read after the push or not head_epoch + len): later replacements hit the wrong slot" % ep[:80])
        key = describe_operand(push, ins.args[1])
        ent = describe_operand(push, pb.args[1])
        r.check(is_variant(v, pb.block, pb.args[1], ent), "%s/push/%s/entry-variant" % (tag, v), pb.loc(), "appended entry is %s for the pushed key" % v, "appended entry %s / indexed key %s" % (ent[:60], key[:40]))
    # in-place replacement: `*slot = MapOperation::X {..}`, or `*slot = <an operation put together elsewhere>`
    def op_typed(rv):
        return rv[0] == "use" and rv[1][0] in ("c", "m") and not rv[1][1][1] and rv[1][1][0] < len(push.locals) and "MapOperation<" in push.locals[rv[1][1][0]]
    reps = [(i, j, p, rv, line, describe_rvalue(push, rv)) for i, j, p, rv, line in push.assigns() if p[1] == ["*"] and (describe_rvalue(push, rv).startswith("MapOperation::") or op_typed(rv))]
    n_rep = 0
    seen_rep = set()
    for i, j, p, rv, line, d in reps:
        if push.is_cleanup(i):
            continue
        a_ = arm(dom_guards(push, i))
        for v in ([a_] if a_ is not None else [x for x in ("Update", "Remove") if i in reach[x]]):
            if (v, line) in seen_rep:
                continue
            seen_rep.add((v, line))
            n_rep += 1
            if d.startswith("MapOperation::"):
                got = d.split("MapOperation::")[1].split("(")[0]
                kd = d.split("(", 1)[1] if "(" in d else ""
            else:
                # every way the value can have been put together on this arm
                got = v if is_variant(v, i, rv[1], "") else "another variant than %s" % v
                kd = " ".join(sorted({str(x[1]) for x in push.sources(rv[1], stop_at_calls=False) if x[0] in ("field", "param", "local")} | {describe_operand(push, rv[1])}))
            r.check(got == v, "%s/push/%s/replace-in-place-variant" % (tag, v), push.loc(line), "a queued entry is replaced by the new %s" % got, "%s arm overwrites the slot with %s" % (v, got))
            r.check(("<%s>" % v) in kd or "key" in kd or "try_from(" in kd, "%s/push/%s/replace-same-key" % (tag, v), push.loc(line), "the replacement carries the pushed key (%s)" % kd[:50], "the replacement carries %s" % kd[:60])
            # no append / no index change on the replace edge
            after = push.reachable_from([i])
            bad = [c for c in push.calls if c.block in after and c.name in ("push_back", "insert", "remove") and (describe_operand(push, c.args[0]).endswith("." + qfield) or describe_operand(push, c.args[0]).endswith(".epoch_map"))]
            r.check(not bad, "%s/push/%s/replace-keeps-index" % (tag, v), push.loc(line), "replacement in place leaves queue length and index untouched", "replacement path also changes the queue/index: %s" % [c.name for c in bad])
    if n_rep < 2:
        r.bad("%s/push/replace-in-place-sites" % tag, where(push), "expected in-place replacement for Update and Remove, found %d" % n_rep)
    # slot lookup closure: index = epoch - head_epoch
    cls = crate.closures_of(push.defpath)
    nidx = 0
    for cb in list(cls) + [push]:
        gm = [c for c in cb.calls if c.name == "get_mut" and "VecDeque" in ((c.defpath or "") + (c.self_adt or ""))]
        for c in gm:
            nidx += 1
            d = describe_operand(cb, c.args[1])
            r.check(d.startswith("wrapping_sub(") and "epoch" in d and "head_epoch" in d, "%s/push/slot-index" % tag, c.loc(), "slot = %s.get_mut(epoch - head_epoch)" % qfield, "slot index is %s" % d[:60])
    if nidx < 1:
        r.bad("%s/push/slot-index-sites" % tag, where(push), "no look-up of the slot of an already queued key")
    # clear
    clr_q = [c for c in push.calls if c.name == "clear" and describe_operand(push, c.args[0]).endswith("." + qfield)]
    clr_m = [c for c in push.calls if c.name == "clear" and describe_operand(push, c.args[0]).endswith(".epoch_map")]
    zero = [(i, line) for i, j, p, rv, line in push.assigns() if p[1] and describe_place(push, p).endswith("head_epoch") and describe_rvalue(push, rv) == "0"]
    pbc = [c for c in push.calls if c.name == "push_back" and arm(dom_guards(push, c.block)) == "Clear"]
    okc = len(clr_q) == 1 and len(clr_m) == 1 and len(zero) == 1 and len(pbc) == 1
    r.check(okc and push.dominates(clr_q[0].block, pbc[0].block) and push.dominates(clr_m[0].block, pbc[0].block) and push.dominates(zero[0][0], pbc[0].block), "%s/push/Clear/reset-all-then-single-entry" % tag, where(push),
            "Clear: %s.clear(), epoch_map.clear(), head_epoch = 0, then the single Clear entry" % qfield,
            "Clear does not reset all of queue / index / head_epoch before queuing the Clear entry: stale epochs point into the new queue")
    if okc:
        r.check("Clear" in describe_operand(push, pbc[0].args[1]), "%s/push/Clear/entry" % tag, pbc[0].loc(), "the entry queued is Clear")
    # pop
    pf = [c for c in pop.calls if c.name == "pop_front" and describe_operand(pop, c.args[0]).endswith("." + qfield)]
    if len(pf) != 1:
        raise AnchorMissing("%s::pop: pop_front" % tag)
    sw = pop.result_switches(pf[0])
    ve = pop.variant_edges(sw[0]["block"]) if sw else None
    some_edge = None
    if ve and "Some" in ve:
        some_edge = ve["Some"]
    else:
        te = pop.try_edges(pf[0])          # `events.pop_front()?`
        if te:
            some_edge = te[0]
    # effects may sit in pop itself or in a closure of pop that pop calls (`let mut release = |key| { .. }`): a closure call counts as the
    # effect when the closure performs it on every path
    def closure_sites(pred):
        out = set()
        for c in pop.calls:
            if c.via_name in ("call", "call_mut", "call_once") and c.defpath.startswith(pop.defpath + "::{closure"):
                for cb in crate.closures_of(pop.defpath):
                    if cb.defpath == c.defpath and pred(cb):
                        out.add(c.block)
        return out

    def incs(b):
        return [(i, line, describe_rvalue(b, rv)) for i, j, p, rv, line in b.assigns() if describe_place(b, p).endswith("head_epoch") and not describe_rvalue(b, rv).endswith("head_epoch")]

    def is_plus_one(d):
        return d.startswith("wrapping_add(") and d.endswith(", 1)")
    inc = incs(pop)
    inc_sites = {i for i, _, d in inc if is_plus_one(d)} | closure_sites(lambda cb: any(is_plus_one(d) and cb.must_pass([0], {i})[0] for i, _, d in incs(cb)) and all(is_plus_one(d) for _, _, d in incs(cb)))
    other = [d for _, _, d in inc if not is_plus_one(d)]
    once = not any(a != b_ and pop.reaches(a, {b_}) for a in inc_sites for b_ in inc_sites)
    okp = some_edge is not None and bool(inc_sites) and not other and all(pop.dominates(some_edge, x) for x in inc_sites)
    ok1, wit = pop.must_pass([some_edge], inc_sites) if okp else (False, None)
    r.check(okp and ok1 and once, "%s/pop/head_epoch+1" % tag, pf[0].loc(), "every popped entry advances head_epoch by one",
            "pop does not advance head_epoch exactly once per popped entry (%s): the epochs recorded for the entries still queued no longer point at their slots" % (
                "a popped entry can leave without the advance: path %s" % wit if okp and not ok1 else "advanced twice on a path" if okp and not once else "advance sites %s, other writes %s" % (sorted(inc_sites), other)))
    rms = [c for c in pop.calls if c.name == "remove" and describe_operand(pop, c.args[0]).endswith(".epoch_map")]
    for c in rms:
        from_popped = any(s_[0] == "call" and s_[1].name == "pop_front" for s_ in pop.sources(c.args[1], stop_at_calls=False))
        r.check(from_popped, "%s/pop/remove-by-key" % tag, c.loc(), "the key removed from the index is the popped entry's own key", "the key removed from the index does not come from the popped entry (%s)" % describe_operand(pop, c.args[1])[:60])
    rm_sites = {c.block for c in rms} | closure_sites(lambda cb: any(c.name == "remove" and describe_operand(cb, c.args[0]).endswith("epoch_map") and cb.must_pass([0], {c.block})[0] for c in cb.calls))
    vs = set()
    for si in pop.switches_on(lambda p, si: True):
        if si.get("kind") != "disc":
            continue
        ve = pop.variant_edges(si["block"])
        if not ve or not {"Update", "Remove"} <= set(ve):
            continue
        for v in ("Update", "Remove"):
            if rm_sites and pop.must_pass([ve[v]], rm_sites)[0]:
                vs.add(v)
    r.check(vs >= {"Update", "Remove"}, "%s/pop/keyed=>index-removed" % tag, pf[0].loc(), "popping an Update or Remove deletes its index entry", "index entry is only removed for %s" % sorted(vs))


def run(ctx):
    ag = ctx.crate(AG)
    rt = ctx.crate(RT)

    with ctx.rule("C02.R1", "T3+T7", "agent EventQueue: events / epoch_map / head_epoch move together", floor=12) as r:
        queue_rules(r, ctx, ag, "event_queue::EventQueue", "events", "EventQueue", r"EventQueue::<K, V>")
    with ctx.rule("C02.R1b", "T3+T7", "runtime MapOperationQueue: queue / epoch_map / head_epoch move together", floor=10) as r:
        queue_rules_rt(r, ctx, rt)

    with ctx.rule("C02.R3", "T10-lite", "to_operation never drops a Remove or Clear", floor=3) as r:
        to = ctx.saw(ag.fn(suffix="event_queue::to_operation"))
        rets = {}
        for i, j, p, rv, line in to.assigns():
            if p[0] == 0 and not p[1]:
                g = dom_guards(to, i)
                v = [l for d, l, _ in g if d == "disc(action)"]
                rets.setdefault(v[0] if v else "?", []).append(describe_rvalue(to, rv))
        for c in to.calls:
            if is_ret_call(to, c):
                g = dom_guards(to, c.block)
                v = [l for d, l, _ in g if d == "disc(action)"]
                rets.setdefault(v[0] if v else "?", []).append(c.name + "(..)")
        r.check(all(x.startswith("Option::Some(MapOperation::Remove(") for x in rets.get("Remove", ["?"])), "to_operation/Remove", where(to), "Remove -> Some(Remove{key}) unconditionally", "Remove resolves to %s" % rets.get("Remove"))
        r.check(all(x.startswith("Option::Some(MapOperation::Clear(") for x in rets.get("Clear", ["?"])), "to_operation/Clear", where(to), "Clear -> Some(Clear) unconditionally", "Clear resolves to %s" % rets.get("Clear"))
        upd = rets.get("Update", [])
        # the value is read from the content when the entry is popped: `content.get(&key).map(..)`, or `let v = content.get(&key)?; Some(Update{key, v})`
        def pop_time(x):
            return ("map" in x and "Option::Some(" not in x) or (x.startswith("Option::Some(MapOperation::Update(") and "get(content" in x) or x.startswith("from_residual(")
        r.check(bool(upd) and all(pop_time(x) for x in upd) and any("map" in x or "get(content" in x for x in upd), "to_operation/Update", where(to), "Update -> content.get(key).map(..): the value read at pop time (may be None if the key has gone)", "Update resolves to %s" % rets.get("Update"))

    with ctx.rule("C02.R4", "T3", "every mutation of the lane's map records previous and queues the matching operation", floor=6) as r:
        want = {"insert": "Update", "remove": "Remove", "take": "Clear"}
        MS = "map_storage::MapStoreInner"
        for nm in ("update", "transform_entry", "remove", "clear"):
            b = ctx.saw(ag.fn(name=nm, self_adt=MS))
            muts = [c for c in b.calls if c.via_name in want and describe_operand(b, c.args[0]).endswith(".content") and _suffix_match(c.trait, "map_storage::MapOps")]
            if not muts:
                raise AnchorMissing("MapStoreInner::%s: no content mutation" % nm)
            pushes = [c for c in b.calls if c.via_name == "push" and describe_operand(b, c.args[0]).endswith(".queue")]
            prevs = [(i, line, describe_rvalue(b, rv)) for i, j, p, rv, line in b.assigns() if p[1] and describe_place(b, p).endswith("previous")]
            ins_blocks = {c.block for c in muts if c.via_name == "insert"}
            for m in muts:
                op = want[m.via_name]
                start = b.succ[m.block]
                trig = "always"
                discharge = set()
                extra = set()
                if m.via_name == "remove":
                    # obligation only when an entry was really removed (nothing to report when the key was absent): a path is excused by taking
                    # the None edge of a match on the removed value - however that value reached the match - and in transform_entry a removed entry
                    # may be re-inserted (then the insert carries the obligation)
                    for sb, ve in b.option_edges_from(m):
                        if ve and "None" in ve:
                            discharge.add((sb, ve["None"]))
                    extra = {x for x in ins_blocks if b.reaches(m.block, {x})}
                    trig = "when an entry was removed"
                ok, wit = b.must_pass_edges(start, {c.block for c in pushes} | extra, discharge)
                r.check(ok and bool(pushes), "%s/%s=>queue.push" % (nm, m.via_name), m.loc(), "content.%s (%s) is followed by queue.push on every path" % (m.via_name, trig),
                        "content.%s can complete without queuing an operation: replicas never learn of the change (%s)" % (m.via_name, wit))
                ok2, wit2 = b.must_pass_edges(start, {i for i, _, _ in prevs} | extra, discharge)
                r.check(ok2 and bool(prevs), "%s/%s=>previous" % (nm, m.via_name), m.loc(), "previous := Some(event) on every path (%s)" % trig,
                        "content.%s without recording previous (%s): the lifecycle handler is not run for this change" % (m.via_name, wit2))
            # operation variant agrees with the event variant on each path
            for c in pushes:
                d = describe_operand(b, c.args[1])
                near = [pv for pv in prevs if b.dominates(pv[0], c.block) and not any(b.dominates(pv[0], q[0]) and b.dominates(q[0], c.block) and q is not pv for q in prevs)]
                v_op = d.split("MapOperation::")[1].split("(")[0] if "MapOperation::" in d else "?"
                v_ev = near[-1][2].split("MapLaneEvent::")[1].split("(")[0] if near and "MapLaneEvent::" in near[-1][2] else "?"
                r.check(v_op == v_ev and v_op in ("Update", "Remove", "Clear"), "%s/op-matches-event/%s" % (nm, v_op), c.loc(), "queued %s with previous = %s" % (v_op, v_ev), "queued MapOperation::%s but previous is MapLaneEvent::%s" % (v_op, v_ev))
        # who mutates content
        for b in ag.all_bodies():
            for c in b.calls:
                if c.args and c.via_name in ("insert", "remove", "take") and _suffix_match(c.trait, "map_storage::MapOps") and describe_operand(b, c.args[0]).endswith(".content"):
                    r.check(_suffix_match(b.meta.get("self_adt"), MS), "content-mutator/" + owner_def(b).split("::")[-1], c.loc(), "content mutated inside MapStoreInner", "MapStoreInner.content mutated in %s" % b.defpath)

    with ctx.rule("C02.R5", "T8+T7", "ReconKey: eq -> compare_recon_values, hash -> recon_hash, content validated UTF-8", floor=4) as r:
        RK = "backpressure::key::ReconKey"
        eq = ctx.saw(rt.fn(name="eq", self_adt=RK))
        aok, awhy = answers_only_with(eq, "compare_recon_values")
        r.check(aok and not eq.meta.get("derived"), "ReconKey/eq=>compare_recon_values", where(eq), "PartialEq::eq is swimos_recon::compare_recon_values of the two texts, on every path",
                "ReconKey equality is not (only) the Recon comparator (%s): keys that differ only in spelling (16 / 0x10, 1e3 / 1E3) are separate keys for the backpressure queue although they hash alike and denote one map key" % awhy)
        hs = ctx.saw(rt.fn(name="hash", self_adt=RK))
        r.check(any(c.name == "recon_hash" for c in hs.calls), "ReconKey/hash=>recon_hash", where(hs), "Hash::hash delegates to swimos_recon::recon_hash", "ReconKey hash no longer uses recon_hash: equal keys can hash differently")
        imp_eq = rt.implements(RK, "core::cmp::PartialEq")
        imp_h = rt.implements(RK, "core::hash::Hash")
        r.check(imp_eq is not None and not imp_eq["derived"] and imp_h is not None and not imp_h["derived"], "ReconKey/not-derived", "-", "neither PartialEq nor Hash is compiler-derived")
        n = 0
        for b, a in crate_aggregates(rt, RK):
            n += 1
            own = b.meta.get("self_adt") or ""
            r.check(_suffix_match(own, RK), "ReconKey/ctor/" + owner_def(b).split("::")[-1], b.loc(a[3]), "constructed inside impl ReconKey conversions", "ReconKey literal built in %s" % b.defpath)
            if "Bytes" in b.defpath and "TryFrom" in b.defpath:
                chk = [c for c in b.calls if c.name == "from_utf8"]
                se_ = success_edge(b, chk[0], "Ok") if chk else None
                r.check(se_ is not None and (b.dominates(se_, a[0]) or se_ == a[0]), "ReconKey/TryFrom<Bytes>/validated", b.loc(a[3]), "std::str::from_utf8(..)? dominates the construction (makes from_utf8_unchecked sound)",
                        "ReconKey built from bytes without UTF-8 validation")
        if n == 0:
            raise AnchorMissing("no ReconKey construction found")

    with ctx.rule("C02.R6", "T7", "drop_or_take: Recon order for unordered maps; Drop -> first n, Take -> all but first n", floor=4) as r:
        dt = ctx.saw(ag.fn(suffix="map_storage::drop_or_take"))
        sw = dt.switches_on(lambda p, si: True)
        srt = [c for c in dt.calls if c.name in ("sort_by", "sort_unstable_by", "sort_by_key", "sort")]
        g_ok = False
        for c in srt:
            g = dom_guards(dt, c.block)
            g_ok = g_ok or any("ORDERED_KEYS" in d and l == "false" for d, l, _ in g)
        r.check(len(srt) == 1 and g_ok, "drop_or_take/sort-iff-unordered", where(dt), "keys are sorted exactly when M::ORDERED_KEYS is false", "sorting is not conditional on !ORDERED_KEYS")
        cls = ag.closures_of(dt.defpath)
        # (in the comparator itself, or computed once per key before the sort - `sort_by_cached_key`, a vector of (structure, key) pairs)
        has_struct = any(c.via_name == "structure" for cb in list(cls) + [dt] for c in cb.calls)
        has_cmp = any(c.via_name == "cmp" and "Value" in (c.callee.get("self_ty") or c.callee.get("arg0_ty") or c.defpath) for cb in list(cls) + [dt] for c in cb.calls)
        r.check(has_struct and has_cmp, "drop_or_take/recon-order", where(dt), "the comparator compares StructuralWritable::structure() images with Value::cmp", "the sort no longer compares the Recon structure of the keys")
        td = ctx.saw(ag.fn(suffix="map_storage::to_deque"))
        tb = {}
        for c in td.calls:
            if c.via_name in ("take", "skip") and "Iterator" in (c.trait or ""):
                v = [l for d, l, _ in dom_guards(td, c.block) if d == "disc(kind)"]
                tb[v[0] if v else "?"] = c.via_name
        if not tb:
            tb = _to_deque_loop_table(td)
        r.check(tb == {"Drop": "take", "Take": "skip"}, "to_deque/table", where(td), "Drop -> it.take(n) (the first n go), Take -> it.skip(n) (all but the first n go)", "to_deque table is %s" % tb)
        for path, want in (("std::collections::hash::map::HashMap", 0), ("alloc::collections::btree::map::BTreeMap", 1)):
            cs = [c for p, c in ag.consts.items() if p.endswith("ORDERED_KEYS") and path.split("::")[-1] in p]
            if not cs:
                r.bad("ORDERED_KEYS/" + path.split("::")[-1], "-", "associated const ORDERED_KEYS for %s not found" % path)
            else:
                r.check(cs[0].get("v") == want, "ORDERED_KEYS/" + path.split("::")[-1], "-", "%s::ORDERED_KEYS = %s" % (path.split("::")[-1], bool(want)), "%s::ORDERED_KEYS = %s" % (path.split("::")[-1], cs[0].get("v")))

    with ctx.rule("C02.R7", "T2", "map lane / map store mutating handlers report Modification::of", floor=6) as r:
        n = 0
        for b in ag.all_bodies():
            if b.meta.get("name") != "step" or not _suffix_match(b.meta.get("trait"), "event_handler::HandlerAction"):
                continue
            if "join" in b.defpath or "demand" in b.defpath:
                continue
            muts = [c for c in b.calls if c.name in ("update", "remove", "clear", "transform_entry") and (_suffix_match(c.callee.get("self_adt"), "lanes::map::MapLane") or _suffix_match(c.callee.get("self_adt"), "stores::map::MapStore"))]
            if not muts:
                continue
            n += 1
            ctx.saw(b)
            tag = (b.meta.get("self_adt") or "?").split("::")[-1]
            mods = [x for x in b.calls if x.is_method("event_handler::Modification", "of")]
            for c in muts:
                ok, wit = b.must_pass(b.succ[c.block], {x.block for x in mods})
                if c.name == "transform_entry" and not ok:
                    # NoChange legitimately reports nothing: accept if every Update/Remove result edge reaches a modification
                    sws = b.result_switches(c)
                    ve = b.variant_edges(sws[0]["block"]) if sws else None
                    if ve:
                        ok = all(b.must_pass([ve[k]], {x.block for x in mods})[0] for k in ve if k in ("Update", "Remove"))
                r.check(ok and bool(mods), "%s/%s=>Modification::of" % (tag, c.name), c.loc(), "%s is followed by Modification::of" % c.name, "map mutation without reporting a modification (%s)" % wit)
        if n < 6:
            raise AnchorMissing("expected >= 6 map mutating handler steps, found %d" % n)

    with ctx.rule("C02.R8", "T2", "a map uplink re-queues itself while it has data", floor=1) as r:
        uplinks.requeue_while_data(r, ctx, kinds=("Map",))

    with ctx.rule("C02.R9", "T3", "per-remote queue: queued flag <=> queue entry (a map lane is never left unqueued with pending operations)", floor=20) as r:
        uplinks.queued_flag_discipline(r, ctx)

    with ctx.rule("C02.R10", "T1+T7", "every frame is addressed with the lane it belongs to (the sender's lane name is set per frame, for the lane of that frame)", floor=7) as r:
        uplinks.frame_lane_name(r, ctx)

    with ctx.rule("C02.R11", "T2", "the map lane's queues are drained: pop answers None only when nothing is queued", floor=1) as r:
        from rules.common import pop_until_exhausted_rule
        pop_until_exhausted_rule(r, ctx)

    with ctx.rule("C02.R12", "T2", "the sender lent out of Uplinks.writer always comes back: as a WriteTask or into the slot (shared with C01.R7)", floor=4) as r:
        # a sender that is dropped leaves the remote attached and linked while nothing is ever written to it again (F61)
        uplinks.writer_token(r, ctx)

    with ctx.rule("C02.R13", "T2", "a lane event is handed to every remote linked to the lane, whether or not an earlier remote's writer is busy", floor=2) as r:
        _rt = ctx.crate("swimos_runtime")
        _he = ctx.saw(_rt.fn(name="handle_event", self_adt="task::WriteTaskState"))
        uplinks.broadcast_visits_every_target(r, ctx, _rt, _he)

    # WriteQueues::pop schedules the lane's events and every remote's sync queue: a sync queue that is never visited again leaves that remote's
    # replica short of entries and without `synced` (seed C02-7: the cursor left past the end when the last queue finishes first)
    from rules import C03 as _C03
    ctx.borrow(_C03, {"C03.R4": ("C02.R14", "every sync queue keeps being served: after a finished queue is removed the cursor stays inside the vector (C03.R4)")})




def is_ret_call(body, c):
    return c.dest[0] == 0 and not c.dest[1]


def queue_rules_rt(r, ctx, rt):
    queue_rules(r, ctx, rt, "map_queue::MapOperationQueue", "queue", "MapOperationQueue", r"MapOperationQueue::<S>")
    push = ctx.saw(rt.fn(name="push", self_adt="map_queue::MapOperationQueue"))
    # replace-in-place of a queued Update: the body that is still waiting is replaced as a whole. A buffer that is reused must be emptied before the
    # new bytes go in; writing into a part of it (index / copy_from_slice / truncate to a length) leaves bytes of the superseded value behind.
    WHOLE = ("clear",)
    FILL = ("put", "put_slice", "extend_from_slice", "extend", "reserve", "put_u8")
    muts = []
    for c in push.calls:
        if not c.args:
            continue
        a0 = describe_operand(push, c.args[0])
        if "<Update>.value" not in a0 or "epoch_map" not in a0:
            continue
        if c.name in ("capacity", "len", "is_empty", "remaining", "as_ref", "deref", "chunk"):
            continue
        muts.append(c)
    if not muts:
        # no reuse of the old buffer at all (the entry is always rebuilt): nothing to check
        r.ok("MapOperationQueue/push/Update/replace-in-place-whole-value", where(push), "a queued Update is always replaced by a freshly built entry")
    else:
        clears = [c for c in muts if c.name in WHOLE or (c.name == "truncate" and describe_operand(push, c.args[1]) == "0")]
        partial = [c for c in muts if c not in clears and c.name not in FILL]
        unfenced = [c for c in muts if c.name in FILL and c.name != "reserve" and not any(push.dominates(x.block, c.block) for x in clears)]
        r.check(not partial and not unfenced, "MapOperationQueue/push/Update/replace-in-place-whole-value", muts[0].loc(), "the reused body buffer is emptied before the newer value is written into it (%s)" % [c.name for c in muts],
                "the queued body is overwritten in part (%s): when the newer value is shorter the tail of the superseded value is sent with it - the remote stores a value the key never held" % [c.name for c in (partial + unfenced)])

