"""C09 Recon text is a faithful and stable encoding, however it is chunked (structural clauses only)."""
import re

from mirlib import op_place, op_place, AnchorMissing, describe_call, describe_operand, describe_place, describe_rvalue, dom_guards, guards, switch_desc, _suffix_match
from rules.common import cast_chain, panic_sites, where

META = {
    "explanation": (
        "C09 (necessary structural clauses of the round-trip law, not the law): R1 every printer path that writes the characters of a text, tag or "
        "attribute name goes through swimos_model::literal::write_string_literal, and the tokenizer's identifier grammar is the very pair of predicates "
        "(is_identifier_start/is_identifier_char) that write_string_literal's quoting decision uses, with true/false excluded on both sides; "
        "R2 the escape table of the printer (escape_text) is the inverse of the tokenizer's (unescape/is_escape), everything needs_escape tests for is "
        "escaped, and \\uXXXX is written and read with the same digit order; R3 the incremental decoders only ever advance the input by the length the "
        "parser consumed and read_utf8 keeps an incomplete trailing character for the next chunk; R5 panic audit of the parser, decoder and literal modules. R7 (shared with C16.R5) typed readers convert every kind of number the tokenizer may deliver."
        " R1d a printer that a body was delegated to opens no second enclosure (F64); R11 nom's finish() is applied only where the parser cannot have answered Incomplete (F63); R12 / R13 (= C10.R17 / R18) the length-delimited and the incremental decoder book what was consumed and start afresh after every finished result."
),
    "does_not_decide": "print/parse round trip and fixed point over all values; equality of incremental and one-shot parsing for all chunkings; termination",
}

RC = "swimos_recon"
MD = "swimos_model"
TEXTY = ("str", "String", "Text", "Cow<", "T/#", "L/#")
NON_TEXT_T = ("i32", "i64", "u32", "u64", "bool", "num_bigint::bigint::BigInt", "num_bigint::biguint::BigUint", "f64", "usize")


def fn_consts(b):
    """Function items referenced as constants anywhere in the body (e.g. passed to `satisfy(is_identifier_start)`)."""
    out = set()

    def op(o):
        if isinstance(o, list) and o and o[0] == "k" and isinstance(o[1], dict) and "fn" in o[1]:
            out.add(o[1]["fn"].get("def", "?"))

    for c in b.calls:
        for a in c.args:
            op(a)
    for i, j, p, rv, line in b.assigns():
        if rv[0] == "use":
            op(rv[1])
        elif rv[0] == "agg":
            for o in rv[2]:
                op(o)
        elif rv[0] == "cast":
            op(rv[2])
    return out


def _component(b, op, hops=6):
    """the operand a format argument really is: `&(a, b).1` -> b (format_args! packs its arguments into a tuple and borrows the components)"""
    from mirlib import op_place
    while hops > 0:
        hops -= 1
        p = op_place(op)
        if p is None or p[1]:
            return op
        d = b.single_def(p[0])
        if d is None or d[0] != "assign":
            return op
        rv = d[3]
        if rv[0] == "use":
            op = rv[1]
            continue
        if rv[0] == "ref":
            rp = rv[2]
            flds = [x for x in rp[1] if isinstance(x, list) and x[0] == "f"]
            if len(flds) == 1 and len([x for x in rp[1] if x != "*"]) == 1:
                dd = b.single_def(rp[0])
                if dd is not None and dd[0] == "assign" and dd[3][0] == "agg" and dd[3][1].get("tuple") and flds[0][1] < len(dd[3][2]):
                    op = dd[3][2][flds[0][1]]
                    continue
            if not rp[1]:
                op = ["c", rp]
                continue
        return op
    return op


def in_flag(b, block, field, value):
    """is `block` entered only while the bool field `self.<field>` has `value` (a direct test, or a destructured reference to the field)"""
    want = "true" if value else "false"
    for d, l, _ in dom_guards(b, block):
        if (d == "self." + field or d.endswith("." + field) or d == field) and l == want:
            return True
        if d in ("Not(self.%s)" % field,) and l == ("false" if value else "true"):
            return True
    return False


def run(ctx):
    rc = ctx.crate(RC)
    md = ctx.crate(MD)

    with ctx.rule("C09.R1", "T4+T5", "one writer for text and one identifier grammar", floor=10) as r:
        # (a) raw text writes inside the printers
        wsl = []
        nraw = 0
        for b in rc.all_bodies():
            if "swimos_recon::printer" not in b.defpath or "::tests" in b.defpath or b.meta.get("trait", "") == "core::fmt::Debug":
                continue
            fn = b.meta.get("name") or b.defpath.split("::")[-1]
            owner = (b.meta.get("self_adt") or "").split("::")[-1]
            for c in b.calls:
                if c.name == "write_string_literal":
                    wsl.append((b, c))
                ta = c.callee.get("targs", "")
                if c.name in ("new_display", "new_debug") and any(t in ta for t in TEXTY):
                    nraw += 1
                    arg = describe_operand(b, c.args[-1])
                    why = None
                    from rules.common import ty_of as _ty_of
                    origin = _ty_of(b, _component(b, c.args[-1]))
                    if fn == "write_f64" and "format(" in arg:
                        why = "digits produced by the float formatter"
                    elif origin and not any(t in origin for t in TEXTY) and any(origin.startswith(nt) for nt in NON_TEXT_T + ("core::fmt::Arguments", "swimos_recon::printer::Padding", "swimos_recon::printer::Indent")):
                        # a generic helper analysed inside its caller: the value that reaches it has a concrete, non-text type there
                        why = "generic Display value that is a %s here" % origin[:40]
                    elif "T/#" in ta or "impl " in ta:
                        callers = [x.callee.get("targs", "") for bb in rc.all_bodies() for x in bb.calls if x.name == fn and (x.defpath or "").startswith("swimos_recon::printer")]
                        if callers and all(any(t.strip("[ ").startswith(nt) for nt in NON_TEXT_T + ("core::fmt::Arguments", "&core::fmt::Arguments")) or "fmt::Arguments" in t for t in callers):
                            why = "generic Display value, instantiated only with numeric/bool types or format_args! (%d callers)" % len(callers)
                    r.check(why is not None, "printer/%s::%s/display-of-text" % (owner, fn), c.loc(), "text-like Display argument is not a user string: %s" % why,
                            "`%s` is written with Display directly (type %s): the characters of a string reach the output without write_string_literal, so a name that is not an identifier is printed unquoted and parses back as something else" % (arg[:50], ta[-40:]))
                if c.name == "write_str" and c.args:
                    arg = describe_operand(b, c.args[-1])
                    if not arg.startswith("'"):
                        nraw += 1
                        own2 = owner
                        if not own2 and "::{closure" in b.defpath:
                            pd = b.defpath.split("::{closure")[0]
                            own2 = ((rc.by_def.get(pd) or {}).get("self_adt") or "").split("::")[-1]
                        r.check(own2 == "Padding", "printer/%s::%s/write_str(%s)" % (own2, fn if own2 == owner else "fmt", arg[:20]), c.loc(), "non-constant write_str only in Padding::fmt (whitespace chosen by the print strategy)",
                                "write_str(%s) writes a non-constant string in the printer without write_string_literal" % arg[:50])
        if nraw < 4:
            raise AnchorMissing("printer: expected >= 4 text-like Display/write_str sites to audit, found %d" % nraw)
        want = {("StructurePrinter", "write_text"), ("StructurePrinter", "write_attr"), ("AttributePrinter", "write_text"), ("AttributePrinter", "write_attr")}
        have = {((b.meta.get("self_adt") or "").split("::")[-1], b.meta.get("name")) for b, c in wsl}
        for w in sorted(want):
            r.check(w in have, "printer/%s::%s/uses-write_string_literal" % w, "-", "%s::%s writes its label through write_string_literal" % w, "%s::%s no longer writes its label through write_string_literal" % w)
        for b, c in wsl:
            ctx.saw(b)
            a = describe_operand(b, c.args[0])
            r.check(a.startswith("as_ref(") or a in ("value", "name") or "name" in a or "value" in a, "printer/%s::%s/label-argument" % ((b.meta.get("self_adt") or "").split("::")[-1], b.meta.get("name")), c.loc(), "write_string_literal receives the label (%s)" % a[:30])
        # (b) the tokenizer's identifier parser is built from the model crate's predicates
        START = "swimos_model::identifier::is_identifier_start"
        CHAR = "swimos_model::identifier::is_identifier_char"
        ids = [b for b in rc.all_bodies() if b.defpath.endswith("::identifier") and "recon_parser::tokens" in b.defpath]
        if len(ids) < 2:
            raise AnchorMissing("tokens::{complete,streaming}::identifier (found %d)" % len(ids))
        for b in ids:
            ctx.saw(b)
            fc = fn_consts(b)
            r.check(START in fc and CHAR in fc, "tokens/%s/identifier-grammar" % b.defpath.split("::")[-2], where(b), "identifier = satisfy(is_identifier_start) many0(satisfy(is_identifier_char)) from swimos_model",
                    "the tokenizer's identifier parser no longer uses swimos_model's predicates (uses %s): printer and parser can disagree on what needs quotes" % sorted(x.split("::")[-1] for x in fc)[:6])
        ii = ctx.saw(md.fn(suffix="identifier::is_identifier"))
        st = [c for c in ii.calls if c.defpath == START]
        rest = [c for c in ii.calls if c.name == "all" and CHAR in fn_consts(ii)]
        first_ok = len(st) == 1 and "next(" in describe_operand(ii, st[0].args[0])
        if not st:
            # `chars.next().is_some_and(is_identifier_start)`: the predicate handed to an adapter of the first character
            for c in ii.calls:
                if any(a[0] == "k" and isinstance(a[1], dict) and (a[1].get("fn") or {}).get("def") == START for a in c.args) and c.args and "next(" in describe_operand(ii, c.args[0]) \
                        and c.name in ("is_some_and", "map_or", "filter", "map", "and_then"):
                    first_ok = True
        r.check(first_ok and len(rest) == 1, "is_identifier/same-grammar", where(ii), "is_identifier = is_identifier_start(first) && rest.all(is_identifier_char)")
        excl = sorted(describe_operand(ii, c.args[1]).strip("'") for c in ii.calls if c.name == "eq" and describe_operand(ii, c.args[0]) == "name")
        bools = set()
        for b in rc.all_bodies():
            if "identifier_or_bool" in b.defpath and "recon_parser::tokens" in b.defpath:
                for sb in range(b.n):
                    if b.term(sb)["k"] == "call" and not b.is_cleanup(sb):
                        c = b.call_at(sb)
                        if c is not None and c.name in ("eq", "memcmp", "bcmp") and len(c.args) > 1:
                            for a in c.args:
                                d = describe_operand(b, a)
                                if d in ("'true'", "'false'"):
                                    bools.add(d.strip("'"))
                for i, j, p, rv, line in b.assigns():
                    d = describe_rvalue(b, rv)
                    for w in ("true", "false"):
                        if "'%s'" % w in d:
                            bools.add(w)
        r.check(excl == ["false", "true"], "is_identifier/excludes-keywords", where(ii), "is_identifier rejects exactly true and false (they would be read back as booleans)", "is_identifier excludes %s" % excl)
        r.check(bools == {"true", "false"} or not bools, "tokens/identifier_or_bool/keywords", "-", "identifier_or_bool maps %s to booleans" % (sorted(bools) or "true/false (compared by pattern)"), "identifier_or_bool maps %s to booleans but is_identifier excludes %s" % (sorted(bools), excl))
        wl = ctx.saw(md.fn(suffix="literal::write_string_literal"))
        ic = [c for c in wl.calls if c.defpath == "swimos_model::identifier::is_identifier"]
        ws = [c for c in wl.calls if c.name == "write_str" and describe_operand(wl, c.args[-1]) == "literal"]
        r.check(len(ic) == 1 and len(ws) == 1 and any(d.startswith("is_identifier(") and l == "true" for d, l, _ in dom_guards(wl, ws[0].block)), "write_string_literal/bare-iff-identifier", where(wl), "the literal is written without quotes exactly when is_identifier(literal)",
                "write_string_literal writes the bare text under %s" % ([(d, l) for d, l, _ in dom_guards(wl, ws[0].block)] if ws else "no write_str"))
        # ... directly, or through escape_if_needed (which makes the same test)
        holders = [wl]
        if any(c.name == "escape_if_needed" for c in wl.calls):
            holders.append(ctx.saw(md.fn(suffix="literal::escape_if_needed")))
        esc = [(hb, c) for hb in holders for c in hb.calls if c.name == "escape_text"]
        r.check(len(esc) == 1 and any(d.startswith("needs_escape(") and l == "true" for d, l, _ in dom_guards(esc[0][0], esc[0][1].block)), "write_string_literal/escaped-iff-needs_escape", where(wl), "quoted text is escaped exactly when needs_escape(literal)")

    with ctx.rule("C09.R1b", "T1", "a record written without the outer record's braces brings its own", floor=4) as r:
        # `@a 5`: the only item of a record with attributes is written without braces. If that item is a record, its own body would be
        # read back as the outer record's body (`@a {1,2}`), so the printer handed to it must add braces around a record.
        SP = "printer::StructurePrinter"
        def sp_fn(name, trait=None):
            bs = [b for b in rc.all_bodies() if SP in b.defpath.split(" as ")[0] and b.meta.get("name") == name and "{closure" not in b.defpath and (trait is None or trait in b.defpath)]
            if len(bs) != 1:
                raise AnchorMissing("StructurePrinter::%s (%d found)" % (name, len(bs)))
            return ctx.saw(bs[0])
        wv = sp_fn("write_value", "BodyWriter")
        rec = sp_fn("record", "StructuralWriter")
        dn = sp_fn("done", "BodyWriter")

        def braces(b, ch):
            return [c for c in b.calls if c.name == "write_str" and len(c.args) == 2 and describe_operand(b, c.args[1]) == "'%s'" % ch]

        def field_guard(b, c):
            return [(d.split(".")[-1], l) for d, l, _ in dom_guards(b, c.block) if d.startswith("self.")]
        # record(): an opening brace under a flag of the printer
        opens = [(c, field_guard(rec, c)) for c in braces(rec, "{")]
        flags = sorted({f for c, g in opens for f, l in g if l == "true"})
        r.check(len(opens) == 1 and len(flags) == 1, "record/opens-a-brace-when-flagged", opens[0][0].loc() if opens else where(rec), "record() writes '{' when the printer is marked as writing an unbraced single item (flag `%s`)" % (flags[0] if flags else "?"),
                "StructurePrinter::record never writes an opening brace of its own: `@a {{1,2}}` is printed as `@a {1,2}`, `@a {@b}` as `@a @b`, and the derived form of a tuple struct around a struct cannot be read back")
        flag = flags[0] if flags else None
        # who sets the flag
        setters = set()
        if flag:
            for b in rc.all_bodies():
                if SP in b.defpath and "{closure" not in b.defpath:
                    for i, j, p_, rv, line in b.assigns():
                        if describe_place(b, p_).endswith("." + flag) and rv[0] == "use" and rv[1][0] == "k" and rv[1][1].get("b") is True:
                            setters.add(b.meta.get("name"))
        # write_value: every nested write either happens inside the outer record's braces / without attributes, or goes to a flagged printer
        wws = [c for c in wv.calls if c.name == "write_with"]
        if not wws:
            raise AnchorMissing("write_value: no nested write_with")
        open_blocks = {c.block for c in braces(wv, "{")}
        discharge = []
        for sb in range(wv.n):
            if wv.is_cleanup(sb) or wv.term(sb)["k"] != "switch":
                continue
            d = switch_desc(wv, sb)
            t = wv.term(sb)
            arms = {int(v) if isinstance(v, str) else v: tb for v, tb in t["arms"]}
            if set(arms) == {0}:
                tr, fa = t["otherwise"], arms[0]
            elif set(arms) == {1}:
                tr, fa = arms[1], t["otherwise"]
            else:
                continue
            if d == "self.has_attr":
                discharge.append((sb, fa))
            elif d == "self.brace_written":
                discharge.append((sb, tr))
        r.check(len(discharge) >= 2, "write_value/anchors", where(wv), "has_attr and brace_written are tested before a nested value is written")
        mark_blocks = {c.block for c in wv.calls if c.name in setters and SP in (c.defpath or "")}
        for k, c in enumerate(wws):
            ok, wit = wv.must_pass_edges([0], open_blocks | mark_blocks, discharge_edges=discharge, targets={c.block})
            r.check(ok, "write_value/nested#%d/inside-braces-or-marked" % k, c.loc(), "the nested value is written inside the outer braces, or without attributes, or by a printer marked through %s()" % ("/".join(sorted(setters)) or "?"),
                    "write_value hands an ordinary printer to the only item of a record with attributes: if the item is a record its body is printed in the outer record's place (`@a {{1,2}}` -> `@a {1,2}`)")
        # the brace opened by record() is closed by done(), and only then
        if flag:
            closeflag = sorted({describe_place(rec, p_).split(".")[-1] for i, j, p_, rv, line in rec.assigns() if rv[0] == "use" and rv[1][0] == "k" and rv[1][1].get("b") is True and describe_place(rec, p_).startswith("self.")} - {flag})
            closes = [c for c in braces(dn, "}") if any(f in closeflag and l == "true" for f, l in field_guard(dn, c))]
            r.check(len(closeflag) == 1 and len(closes) == 1 and opens and rec.dominates(opens[0][0].block, [i for i, j, p_, rv, line in rec.assigns() if describe_place(rec, p_).endswith("." + closeflag[0])][0]) if closeflag else False,
                    "done/closes-what-record-opened", closes[0].loc() if closes else where(dn), "record() remembers the brace in `%s` and done() writes the matching '}'" % (closeflag[0] if closeflag else "?"), "the brace opened by record() is not closed by done()")

    with ctx.rule("C09.R1c", "T1", "both record printers: after attributes, a single item is either inside braces or written by a printer that braces records; a slot is always inside braces", floor=5) as r:
        # the same discipline as R1b for the printer of attribute values, and for slots in both printers: `@a(@b k: 1)` reads the attribute as part of
        # the key, `@a(@b {1})` is a different value from `@a(@b {{1}})`
        def pr_fn(adt, name, trait):
            bs = [b for b in rc.all_bodies() if adt in b.defpath.split(" as ")[0] and b.meta.get("name") == name and "{closure" not in b.defpath and trait in b.defpath]
            if len(bs) != 1:
                raise AnchorMissing("%s::%s (%d found)" % (adt, name, len(bs)))
            return ctx.saw(bs[0])

        def flag_edges(b, extra=()):
            out = []
            for sb in range(b.n):
                if b.is_cleanup(sb) or b.term(sb)["k"] != "switch":
                    continue
                d = switch_desc(b, sb)
                t = b.term(sb)
                arms = {int(v) if isinstance(v, str) else v: tb for v, tb in t["arms"]}
                if set(arms) == {0}:
                    tr, fa = t["otherwise"], arms[0]
                elif set(arms) == {1}:
                    tr, fa = arms[1], t["otherwise"]
                else:
                    continue
                if d == "self.has_attr":
                    out.append((sb, fa))
                elif d == "self.brace_written":
                    out.append((sb, tr))
                elif d in extra:
                    out.append((sb, fa))
            # a local flag computed as `.. && !self.brace_written`: on its false edge either the braces are open, or the flag was set to the
            # constant false on a path that is itself excused
            for sb in range(b.n):
                if b.is_cleanup(sb) or b.term(sb)["k"] != "switch":
                    continue
                t = b.term(sb)
                pl = op_place(t["discr"])
                if pl is None or pl[1]:
                    continue
                loc_ = pl[0]
                for _hop in range(6):
                    ds_ = b.defs.get(loc_, ())
                    if len(ds_) == 1 and ds_[0][0] == "assign" and ds_[0][3][0] == "use" and op_place(ds_[0][3][1]) is not None and not op_place(ds_[0][3][1])[1]:
                        loc_ = op_place(ds_[0][3][1])[0]
                    else:
                        break
                defs = [d_ for d_ in b.defs.get(loc_, ()) if d_[0] == "assign"]
                if not defs or len(defs) != len(b.defs.get(loc_, ())):
                    continue
                okd = True
                for d_ in defs:
                    rvd = describe_rvalue(b, d_[3])
                    if rvd in ("Not(self.brace_written)",):
                        continue
                    if rvd == "False" and b.must_pass_edges([0], set(), discharge_edges=out, targets={d_[1]})[0]:
                        continue
                    okd = False
                arms = {int(v) if isinstance(v, str) else v: tb for v, tb in t["arms"]}
                if okd and set(arms) == {0}:
                    out.append((sb, arms[0]))
            return out

        def braces_open(b):
            return {c.block for c in b.calls if c.name == "write_str" and len(c.args) == 2 and describe_operand(b, c.args[1]) == "'{'"}
        markers = {"single_item"}
        for adt in ("printer::StructurePrinter", "printer::AttributePrinter"):
            short_ = adt.split("::")[-1]
            wv = pr_fn(adt, "write_value", "BodyWriter")
            ws = pr_fn(adt, "write_slot", "BodyWriter")
            if adt.endswith("AttributePrinter"):
                wws = [c for c in wv.calls if c.name == "write_with"]
                marks = {c.block for c in wv.calls if c.name in markers}
                # AttributePrinter records "exactly one item" in `single_item` when the header is completed; with attributes and more than one item
                # complete_header has already opened the braces (checked here), so `single_item == false` also means "inside braces or no attributes"
                ch0 = pr_fn(adt, "complete_header", "HeaderWriter")
                many = [c for c in ch0.calls if c.name == "write_str" and len(c.args) == 2 and describe_operand(ch0, c.args[1]) == "'{'" and any(d == "self.has_attr" and l == "true" for d, l, _ in dom_guards(ch0, c.block))]
                bw = [i for i, j, p_, rv, line in ch0.assigns() if describe_place(ch0, p_) == "self.brace_written" and rv[0] == "use" and rv[1][0] == "k" and rv[1][1].get("b") is True]
                inv = bool(many) and any(ch0.dominates(c.block, i) for c in many for i in bw) and any(describe_rvalue(ch0, rv).startswith("Eq(num_items, 1)") or "num_items" in describe_rvalue(ch0, rv) for i, j, p_, rv, line in ch0.assigns() if describe_place(ch0, p_) == "self.single_item")
                if not inv:
                    # the decision may be a value of its own (`let braces_required = match (*has_attr, num_items) { .. }`): what matters is that with
                    # attributes written and two items announced no way out of complete_header skips the opening brace
                    hidx = [p2[1][-1][1] for i2, j2, p2_, rv2, l2 in ch0.assigns() for p2 in [rv2[2] if rv2[0] == "ref" else None]
                            if p2 is not None and ch0.copy_root(["c", [p2[0], []]]) == 1 and p2[1] and isinstance(p2[1][-1], list) and p2[1][-1][0] == "f" and len(p2[1][-1]) > 2 and p2[1][-1][2] == "has_attr"]
                    nloc = [i2 for i2 in range(1, ch0.argc + 1) if ch0.var_name(i2) == "num_items"]
                    opens = braces_open(ch0)
                    if hidx and nloc and opens:
                        reach_ = ch0.reachable_cp([0], avoid=opens, assume={("field", 1, (hidx[0],)): True, nloc[0]: 2})
                        oks_ = {i2 for i2, j2, p2_, rv2, l2 in ch0.assigns() if describe_rvalue(ch0, rv2).startswith("Result::Ok(")}
                        inv = not (reach_ & oks_) and any(describe_rvalue(ch0, rv).startswith("Eq(num_items, 1)") or "num_items" in describe_rvalue(ch0, rv) for i, j, p_, rv, line in ch0.assigns() if describe_place(ch0, p_) == "self.single_item")
                r.check(inv, "AttributePrinter/complete_header/many-items-after-attributes=>braces-open", where(ch0), "with attributes and more than one item the braces are opened when the header is completed, and single_item := (num_items == 1)",
                        "complete_header no longer opens the braces for several items after attributes (or single_item is not num_items == 1)")
                dis = flag_edges(wv, ("self.single_item",) if inv else ())
                for k, c in enumerate(wws):
                    ok, wit = wv.must_pass_edges([0], braces_open(wv) | marks, discharge_edges=dis, targets={c.block})
                    r.check(ok, "%s/write_value/nested#%d/inside-braces-or-marked" % (short_, k), c.loc(), "the nested value is written inside braces, or without attributes before it, or by a printer that braces a record",
                            "AttributePrinter::write_value hands an ordinary printer to the only item of an attribute value that has attributes: `@a(@b {{1}})` is printed `@a(@b { 1 })`, a different value")
            wws = sorted([c for c in ws.calls if c.name == "write_with"], key=lambda c: sum(1 for y in ws.calls if y.name == "write_with" and y is not c and ws.dominates(y.block, c.block)))
            if len(wws) < 2:
                raise AnchorMissing("%s::write_slot: key and value writes" % short_)
            ok, wit = ws.must_pass_edges([0], braces_open(ws), discharge_edges=flag_edges(ws), targets={wws[0].block})
            r.check(ok, "%s/write_slot/key-inside-braces" % short_, wws[0].loc(), "a slot that follows attributes is written inside braces (opened here if they are not open yet)",
                    "%s::write_slot can write a slot straight after the attributes: `@b k: 1` is read as a slot whose key is `@b k`" % short_)
            ch = pr_fn(adt, "complete_header", "HeaderWriter")
            # complete_header must not commit to the brace-less form (a separator) before it is known whether the single item is a slot
            sp = [c for c in ch.calls if c.name == "write_str" and len(c.args) == 2 and describe_operand(ch, c.args[1]) == "' '"]
            r.check(not sp, "%s/complete_header/does-not-commit-to-braceless-single-item" % short_, sp[0].loc() if sp else where(ch), "complete_header leaves the form of a single item to the item writers",
                    "complete_header writes the separator of the brace-less single-item form before the kind of the item is known: a slot then follows the attributes without braces")

    with ctx.rule("C09.R1d", "T1", "a printer that a body was delegated to writes inside the enclosure that is already open", floor=1) as r:
        # `#[form(body)]` hands the *same* printer on (`delegate()` sets `delegated`): the value of the body field is written where the struct's own
        # body would be. For the attribute printer that place is inside the `(` opened when the struct began; a second `(` from the delegated
        # record() is never closed - `@inner(@Inner( { 1, 2 })` (F64)
        rec_ = [b for b in rc.all_bodies() if b.meta.get("name") == "record" and (b.meta.get("self_adt") or "").endswith("printer::AttributePrinter") and _suffix_match(b.meta.get("trait"), "write::StructuralWriter")]
        if len(rec_) != 1:
            raise AnchorMissing("AttributePrinter::record (found %d)" % len(rec_))
        rec_ = ctx.saw(rec_[0])
        opens_ = [c for c in rec_.calls if c.name in ("write_fmt", "write_str", "write_char") and len(c.args) >= 2 and re.search(r"b'[^']*\(|^'\('$|^\"\(", describe_operand(rec_, c.args[1]))]
        if not opens_:
            raise AnchorMissing("AttributePrinter::record: the write of the opening parenthesis")
        for c in opens_:
            r.check(in_flag(rec_, c.block, "delegated", False), "AttributePrinter/record/paren-only-when-not-delegated", c.loc(), "`(` is written only by a printer that was not delegated to",
                    "AttributePrinter::record writes `(` also when the printer was delegated to: a struct with a #[form(body)] collection used as an attribute of another struct is printed with a second, "
                    "never closed `(` (`@inner(@Inner( { 1, 2 })`), which does not parse")

    with ctx.rule("C09.R2", "T5", "escape tables of printer and tokenizer are mutually inverse", floor=12) as r:
        et = ctx.saw(md.fn(suffix="literal::escape_text"))
        # every write to the output, by the arm of the match on the current character that it belongs to
        def lit(a):
            return a[1:-1].encode().decode("unicode_escape") if a.startswith("'") and a.endswith("'") and len(a) > 2 else None
        emis = [c for c in et.calls if c.name in ("push", "push_str", "extend_from_slice", "write_char", "write_str") and len(c.args) == 2]
        emis.sort(key=lambda c: sum(1 for y in emis if y is not c and et.dominates(y.block, c.block)))
        enc, ubranch, passthru = {}, [], []
        ub_calls = []

        def keyed_constants(op, hops=6):
            """`code` in `if let Some(code) = short_escape(c)`: the character constants a value is chosen from, each with the character (the arm of
            the match on the current character) it is chosen for - [(character code, literal)]"""
            out = []
            work, seen_ = [op_place(op)], set()
            while work and hops > 0:
                hops -= 1
                pl = work.pop()
                if pl is None or pl[0] in seen_:
                    continue
                seen_.add(pl[0])
                for df in et.defs.get(pl[0], ()):
                    if df[0] != "assign":
                        continue
                    rv = df[3]
                    ops = [rv[1]] if rv[0] == "use" else (list(rv[2]) if rv[0] == "agg" and rv[1].get("variant") == "Some" else [])
                    for o in ops:
                        if o[0] == "k":
                            ks = [l for d, l, _ in dom_guards(et, df[1]) if d.endswith("<Some>.0") and l.isdigit()]
                            v = lit(describe_operand(et, o))
                            if ks and v is not None:
                                out.append((int(ks[0]), v))
                        elif op_place(o) is not None:
                            work.append(op_place(o))
            return out
        keyless = []
        for c in emis:
            a = describe_operand(et, c.args[1])
            g = dom_guards(et, c.block)
            key = [l for d, l, _ in g if d.endswith("<Some>.0") and l.isdigit()]
            kc = keyed_constants(c.args[1]) if not key and lit(a) is None and c.args[1][0] in ("c", "m") else []
            if kc and len({k_ for k_, _ in kc}) >= 3:
                # a table in a helper: what was written just before on the same edge (the backslash) belongs to every entry
                prefix = [lit(describe_operand(et, y.args[1])) for y in keyless if dom_guards(et, y.block)[-1:] == g[-1:] and et.dominates(y.block, c.block) and lit(describe_operand(et, y.args[1])) is not None]
                for k_, v_ in kc:
                    enc.setdefault(k_, []).extend(prefix + [v_])
                for y in list(passthru):
                    if dom_guards(et, y.block)[-1:] == g[-1:] and et.dominates(y.block, c.block):
                        passthru.remove(y)
                continue
            if key:
                enc.setdefault(int(key[0]), []).append(lit(a) if lit(a) is not None else a)
            elif any(d.startswith("Lt(") and l == "true" for d, l, _ in g):
                ubranch.append(lit(a) if lit(a) is not None else None)
                ub_calls.append(c)
            else:
                passthru.append(c)
                keyless.append(c)
        table = {}
        for ch, seq in enc.items():
            txt = "".join(seq)
            r.check(len(txt) == 2 and txt[0] == "\\", "escape_text/%r/backslash-then-letter" % chr(ch), where(et), "%r is written as backslash + %r" % (chr(ch), txt[-1]), "%r is written as %s" % (chr(ch), seq))
            if len(txt) == 2:
                table[chr(ch)] = txt[1]
        if len(table) < 7:
            raise AnchorMissing("escape_text: expected 7 single-letter escapes, found %d (%s)" % (len(table), table))
        # every other character is copied unchanged: the value written is the iterated item itself (a byte widened to a
        # `char` is a different character unless the byte is ASCII)
        r.check(len(passthru) == 1, "escape_text/one-pass-through-arm", passthru[0].loc() if passthru else where(et), "one write copies a character that needs no escape", "%d writes outside the escape arms" % len(passthru))
        for c in passthru[:1]:
            chain = cast_chain(et, c.args[1])
            a = describe_operand(et, c.args[1])
            item = [d for d, l, _ in dom_guards(et, c.block) if d.endswith("<Some>.0")]
            bytes_iter = any(x in a for x in ("bytes(", "as_bytes(", "into_bytes("))
            widened = [t for k, t in chain if t == "char"]
            r.check(item and a == item[0] and not (bytes_iter and widened), "escape_text/pass-through=the-same-character", c.loc(), "a character that needs no escape is written as itself (`%s`)" % a[:50],
                    "escape_text iterates the UTF-8 bytes of the text and writes each byte `as char`: every non-ASCII character is replaced by two to four Latin-1 characters (the printed string parses as a different text)" if bytes_iter and widened else "the pass-through arm writes `%s`, which is not the current character" % a[:60])
        un = [b for b in rc.all_bodies() if b.defpath.endswith("tokens::unescape::{closure#0}")]
        if len(un) != 1:
            # the state machine written as a loop in the function itself
            un = [rc.fn(suffix="tokens::unescape")]
        un = ctx.saw(un[0])
        dec = {}
        # the decoding table as a function of its own (`fn simple_escape(c: char) -> Option<char>`): evaluated letter by letter
        table_fns = []
        for d_ in sorted(set(getattr(un, "inlined_helpers", None) or [])):
            hb = rc.body(d_)
            if "{closure" not in d_ and hb.argc == 1 and len(hb.locals) > 1 and hb.locals[1] == "char" and hb.locals[0].replace(" ", "") == "core::option::Option<char>":
                table_fns.append(hb)
        helper_table = None
        if not [b for b in rc.all_bodies() if b.defpath.endswith("tokens::is_escape")] and len(table_fns) == 1:
            helper_table = ctx.saw(table_fns[0])
        for i, j, p, rv, line in un.assigns():
            if rv[0] == "use" and rv[1][0] == "k" and "char" in str(rv[1][1].get("ty")):
                g = guards(un, i)
                if any(d.startswith("is_escape(") and l == "true" for d, l, _ in g):
                    ks = [l for d, l, _ in g if d == "c" and l.isdigit()]
                    if ks:
                        v = describe_rvalue(un, rv)
                        dec[chr(int(ks[0]))] = v.strip("'").encode().decode("unicode_escape") if v not in ("'\\\\'",) else "\\"
        # a fall-through arm that hands back the code itself (`literal => literal`) decodes every remaining accepted letter as itself
        ident = False
        for i, j, p, rv, line in un.assigns():
            if rv[0] == "use" and rv[1][0] in ("c", "m") and any(d.startswith("is_escape(") and l == "true" for d, l, _ in guards(un, i)):
                g_ = guards(un, i)
                scr = [d for d, l, _ in g_ if l == "otherwise" or l.isdigit()]
                if describe_operand(un, rv[1]) in [d for d, l, _ in g_ if l == "otherwise"]:
                    ident = True
        if helper_table is not None:
            ie = helper_table
            accepted = set()
            for ch_ in sorted(set(table.values()) | set("bfnrt\"\\/u0x ")):
                res = ie.eval_const({1: ord(ch_)}, want_option=True)
                if len(res) == 1 and list(res)[0] is not None and list(res)[0][0] == "Some":
                    accepted.add(ch_)
                    pay = list(res)[0][1]
                    if isinstance(pay, int):
                        dec[ch_] = chr(pay)
        else:
            ie = ctx.saw(rc.fn(suffix="tokens::is_escape"))
            if ident:
                for letter_ in set(table.values()):
                    dec.setdefault(letter_, letter_)
            # what is_escape answers for each letter the printer uses (and a few it does not), whatever form the predicate is written in
            accepted = {ch_ for ch_ in set(table.values()) | set("bfnrt\"\\/u0x ") if ie.eval_const({1: ord(ch_)}) == {True}}
        for ch, letter in sorted(table.items()):
            r.check(dec.get(letter) == ch, "escape/%r<->%r/inverse" % (ch, letter), where(un), "printer writes %r as \\%s and the tokenizer reads \\%s as %r" % (ch, letter, letter, dec.get(letter)),
                    "printer writes %r as \\%s but the tokenizer reads \\%s as %r" % (ch, letter, letter, dec.get(letter)))
            r.check(letter in accepted, "escape/%r/letter-accepted-by-is_escape" % letter, where(ie), "\\%s is a recognised escape" % letter, "the printer emits \\%s, which is_escape rejects: the printed string fails to parse" % letter)
        # \uXXXX: same digit order on both sides
        masks = []
        for i, j, p, rv, line in et.assigns():
            if rv[0] == "bin" and rv[1] == "BitAnd" and describe_operand(et, rv[3]) == "15":
                d = describe_operand(et, rv[2])
                m_ = re.match(r"^Shr(?:Unchecked)?\(.*, (\d+)\)$", d)
                if m_:
                    masks.append((i, int(m_.group(1))))
                else:
                    # the digits may be produced by a loop over the shift amounts (`for shift in [12, 8, 4, 0]`): one write per element, in that order
                    arr = None
                    for i2, j2, p2, rv2, line2 in et.assigns():
                        if rv2[0] == "agg" and rv2[1].get("array") and all(o[0] == "k" for o in rv2[2]) and len(rv2[2]) >= 2:
                            vals_ = [o[1].get("v") for o in rv2[2]]
                            if all(isinstance(v_, int) or (isinstance(v_, str) and v_.isdigit()) for v_ in vals_):
                                arr = [int(v_) for v_ in vals_]
                    if arr and "Shr" in d:
                        for k_, sh in enumerate(arr):
                            masks.append((i + k_ * 0.001, sh))
                        ubranch.extend([None] * (len(arr) - 1))
                    else:
                        masks.append((i, 0))
        if not masks:
            # the digits written in one go: `output.extend(SHIFTS.iter().map(|shift| DIGITS[(n >> shift) & 0xf]))` over a constant array of shifts
            for c in et.calls:
                if c.name != "extend" or len(c.args) < 2 or not any(d.startswith("Lt(") and l == "true" for d, l, _ in dom_guards(et, c.block)):
                    continue
                m_ = re.match(r"^map\((?:iter|into_iter)\((\w+)\), ", describe_operand(et, c.args[1]))
                cst = [v for k, v in md.consts.items() if m_ and k.endswith("::" + m_.group(1)) and isinstance(v.get("elems"), list)]
                masked = [cb for cb in md.closures_of(et.defpath) for i2, j2, p2, rv2, l2 in cb.assigns()
                          if rv2[0] == "bin" and rv2[1] == "BitAnd" and describe_operand(cb, rv2[3]) == "15" and re.match(r"^(shr|Shr(Unchecked)?)\(", describe_operand(cb, rv2[2]))]
                if cst and masked and all(isinstance(x, int) for x in cst[0]["elems"]):
                    for k_, sh in enumerate(cst[0]["elems"]):
                        masks.append((c.block + k_ * 0.001, sh))
                        ubranch.append(None)
                        ub_calls.append(c)
        # order of emission = dominance order of the four index computations
        masks.sort(key=lambda x: (sum(1 for y in masks if int(y[0]) != int(x[0]) and et.dominates(int(y[0]), int(x[0]))), x[0]))
        shifts = [k for _, k in masks]
        prefix = "".join(x for x in ubranch if x is not None)
        ndig = sum(1 for x in ubranch if x is None)
        consts_first = all(x is not None for x in ubranch[:len(ubranch) - ndig])
        if not consts_first and len(ub_calls) >= 2:
            # order by reachability rather than by position in the list (the constant part may sit in a helper that was spliced in)
            cw = [c for c, x in zip(ub_calls, ubranch) if x is not None]
            dw_ = [c for c, x in zip(ub_calls, ubranch) if x is None]
            if cw and dw_ and all(et.dominates(c1.block, c2.block) for c1 in cw for c2 in dw_):
                consts_first = True
                ubranch = [x for x in ubranch if x is not None] + [None] * ndig
        # leading digits may be written as the constant "0" only as far as the guard (< 0x20) makes them zero
        r.check(consts_first and prefix == "\\u" + "0" * (4 - ndig) and 2 <= ndig <= 4 and shifts[-ndig:] == [12, 8, 4, 0][-ndig:] and len(shifts) == ndig, "escape_text/control=>\\uXXXX", where(et), "other control characters are written as \\u + 4 hex digits, most significant first",
                "control characters are written as %r followed by %d digits with shifts in emission order %s (writes in the control arm: %s)" % (prefix, ndig, shifts, ubranch))
        ush = []
        for i, j, p, rv, line in un.assigns():
            if rv[0] == "bin" and rv[1] in ("Shl", "ShlUnchecked") and rv[3][0] == "k":
                ush.append((int(describe_operand(un, rv[3])), describe_operand(un, rv[2])))
        ushs = sorted(ush, reverse=True)
        digits_ok = [s for s, _ in ushs] == [12, 8, 4] and [d.split(".")[-1] for _, d in ushs] == ["0", "1", "2"]
        n_digits = None
        if not digits_ok and ushs and all(s_ == 4 for s_, _ in ushs):
            # the accumulating form: value = value << 4 | digit, with a counter of the digits read. The escape has four digits when the first digit
            # starts the count at c0 and the loop goes on while `count (+1) < K`: digits = 1 (first) + steps + 1 (last)
            c0 = None
            for i, j, p, rv, line in un.assigns():
                m_ = re.match(r"^EscapeState::\w+\((\d+), unwrap\(to_digit\(", describe_rvalue(un, rv))
                if m_:
                    c0 = int(m_.group(1))
            for sb in range(un.n):
                if un.is_cleanup(sb) or un.term(sb)["k"] != "switch":
                    continue
                d_ = switch_desc(un, sb) or ""
                m1 = re.match(r"^Lt\(state<\w+>\.0, (\d+)\)$", d_)
                m2 = re.match(r"^Lt\(Add(?:WithOverflow)?\(state<\w+>\.0, (\d+)\)(?:\.0)?, (\d+)\)$", d_)
                if c0 is not None and (m1 or m2):
                    # continuing steps: counts c0, c0+1, .. for which the test holds
                    k_ = int(m1.group(1)) if m1 else int(m2.group(2))
                    off = 0 if m1 else int(m2.group(1))
                    steps = len([c_ for c_ in range(c0, c0 + 16) if c_ + off < k_ and all(x + off < k_ for x in range(c0, c_ + 1))])
                    n_digits = 1 + steps + 1
            digits_ok = n_digits == 4
        r.check(digits_ok, "unescape/\\uXXXX-digit-order", where(un), "first digit << 12, second << 8, third << 4, fourth | (same order as the printer)",
                ("the tokenizer reads %d hex digits for a \\u escape (the printer writes 4): the character after the escape is swallowed - a name ending in a control character is read as a shorter name" % n_digits) if n_digits is not None else "the tokenizer combines the hex digits as %s" % ushs)
        cv = [c for c in un.calls if c.name == "try_from" and "char" in (c.callee.get("targs", "") + str(c.callee.get("self_ty", "")))]
        uw = [c for c in un.calls if c.name in ("unwrap", "expect") and cv and any(s_[0] == "call" and s_[1] is cv[0] for s_ in un.sources(c.args[0]))]
        r.check(len(cv) == 1 and not uw, "unescape/invalid-code-point-is-an-error", cv[0].loc() if cv else where(un), "char::try_from of the escaped code point is matched, not unwrapped (a surrogate escape is a parse error)",
                "char::try_from(..).unwrap(): \\ud800 panics")
        # needs_escape <=> escape_text
        # the predicate handed to `any`: a closure of needs_escape, or a function passed by name - evaluated on every ASCII character, whatever its form
        nb = ctx.saw(md.fn(suffix="literal::needs_escape"))
        ne, argi = None, 2
        cl_ne = [b for b in md.all_bodies() if b.defpath.endswith("literal::needs_escape::{closure#0}")]
        if len(cl_ne) == 1:
            ne = cl_ne[0]
        else:
            for c in nb.calls:
                for a in c.args:
                    if a[0] == "k" and isinstance(a[1], dict) and isinstance(a[1].get("fn"), dict) and a[1]["fn"].get("def") in md.by_def:
                        ne, argi = md.body(a[1]["fn"]["def"]), 1
        if ne is None:
            raise AnchorMissing("needs_escape: the predicate over characters (closure or named function)")
        ne = ctx.saw(ne)
        lt_et = set()
        for sb in range(et.n):
            if et.term(sb)["k"] == "switch" and not et.is_cleanup(sb):
                d = switch_desc(et, sb)
                if d.startswith("Lt("):
                    v = d.split(", ", 1)[1][:-1]
                    lt_et.add(chr(int(v)) if v.isdigit() else v.strip("'").encode().decode("unicode_escape"))
        flagged, undecided = set(), set()
        for code in list(range(0, 128)) + [0x7f, 0x80, 0xe9, 0x3b1]:
            res = ne.eval_const({argi: code})
            if res == {True}:
                flagged.add(chr(code))
            elif res != {False}:
                undecided.add(chr(code))
        if undecided:
            raise AnchorMissing("needs_escape: the predicate could not be evaluated for %s" % sorted(undecided)[:5])
        specials = {c for c in flagged if ord(c) >= 0x20}
        controls = {c for c in flagged if ord(c) < 0x20}
        bound = max(lt_et) if lt_et else None
        r.check(specials <= set(table) and specials == {'"', "\\"}, "needs_escape/specials-are-escaped", where(ne), "needs_escape answers true for %s; escape_text escapes each of them" % sorted(specials),
                "needs_escape answers true for %s but escape_text handles %s" % (sorted(specials), sorted(table)))
        r.check(len(lt_et) == 1 and controls == {chr(x) for x in range(0, ord(bound))}, "needs_escape/control-bound-agrees", where(ne), "both treat exactly the characters below %r as control characters" % bound,
                "needs_escape flags the control characters %s.., escape_text uses the bound %s" % (sorted(controls)[:3], sorted(lt_et)))
        r.check(all(ord(ch) < 0x20 or ch in ('"', "\\") for ch in table), "escape_text/only-escapes-what-needs_escape-detects", where(et), "every specially escaped character is one needs_escape detects (< 0x20, quote, backslash)")

    with ctx.rule("C09.R3", "T7", "incremental decoding consumes exactly what the parser consumed and keeps a cut multi-byte character", floor=6) as r:
        ru = ctx.saw(rc.fn(suffix="async_parser::read_utf8"))
        fu = [c for c in ru.calls if c.name == "from_utf8_unchecked"]
        ok = False
        if len(fu) == 1:
            a = describe_operand(ru, fu[0].args[0])
            g = dom_guards(ru, fu[0].block)
            ok = "valid_up_to(" in a and "RangeTo" in a and any(d.startswith("is_some(error_len(") and l == "false" for d, l, _ in g)
        r.check(ok, "read_utf8/incomplete-tail-kept", where(ru), "an incomplete trailing character is not an error: the valid prefix [..valid_up_to] is parsed and the tail stays in the buffer",
                "read_utf8 no longer returns the valid prefix for an incomplete trailing character")
        bad = [c for c in ru.calls if c.name == "BadUtf8" or "BadUtf8" in describe_call(ru, c)]
        errs = [(i, line) for i, j, p, rv, line in ru.assigns() if "BadUtf8" in describe_rvalue(ru, rv)]
        r.check(bool(errs) and all(any(d.startswith("is_some(error_len(") and l == "true" for d, l, _ in dom_guards(ru, i)) for i, _ in errs), "read_utf8/invalid-bytes-are-an-error", where(ru), "BadUtf8 exactly when the error has a length (really invalid bytes)")
        # every utf8 interpretation of the input in the async parser goes through read_utf8
        direct = [(b, c) for b in rc.all_bodies() if "async_parser" in b.defpath and "::tests" not in b.defpath and not b.defpath.endswith("read_utf8") for c in b.calls if c.name in ("from_utf8", "from_utf8_unchecked", "from_utf8_lossy")]
        users = [(b, c) for b in rc.all_bodies() if "async_parser" in b.defpath and "::tests" not in b.defpath for c in b.calls if c.is_fn("async_parser::read_utf8")]
        r.check(not direct and len(users) >= 4, "async_parser/utf8-only-through-read_utf8", "-", "%d users of read_utf8, no direct from_utf8 on the input" % len(users), "direct utf8 decoding of the input in %s" % [b.defpath for b, c in direct][:3])
        # advance sites
        sites = []
        for b in rc.all_bodies():
            if ("async_parser" in b.defpath) and "::tests" not in b.defpath:
                for c in b.calls:
                    if c.name == "advance" and "bytes" in c.defpath:
                        sites.append((b, c))
        if len(sites) < 3:
            raise AnchorMissing("async_parser: expected 3 advance sites (run_parser, decode_bytes, decode_eof), found %d" % len(sites))
        for b, c in sites:
            ctx.saw(b)
            fn = (b.meta.get("owner") or b.meta).get("name") or b.defpath.split("::{")[0].split("::")[-1]
            a = describe_operand(b, c.args[1])
            a2 = a.replace("SubWithOverflow(", "Sub(", 1)
            # both measures are taken on the string that was handed to the parser (the valid UTF-8 prefix returned by read_utf8),
            # never on the raw buffer, which may end with the first bytes of a character that was held back
            len_form = a2.startswith("Sub(len(") and "len(" in a2[8:] and (a2.startswith("Sub(len(branch(read_utf8(") or a2.startswith("Sub(len(read_utf8(")) or (a2.startswith("Sub(len(") and "read_utf8(" in a2.split(", len(")[0])
            off_form = a2.startswith("Sub(location_offset(") and "location_offset(" in a2[20:]
            good = len_form or off_form
            r.check(good, "%s/advance=parser-consumption" % fn, c.loc(), "advance(%s): the difference between input and remainder" % a[:70], "advance(%s) is not (length of the string given to the parser) - (length of its remainder): measured on the raw buffer it also skips the bytes of a multi-byte character that read_utf8 held back" % a[:80])
        rp = [b for b in rc.all_bodies() if b.defpath.endswith("async_parser::run_parser::{closure#0}")]
        if len(rp) != 1:
            raise AnchorMissing("run_parser")
        rp = ctx.saw(rp[0])
        adv = [c for b, c in sites if b is rp]
        rds = [c for c in rp.calls if c.is_fn("async_parser::read_to_buffer")]
        r.check(len(adv) == 1 and len(rds) == 1, "run_parser/one-advance-per-read", where(rp), "one read and one advance per iteration")
        others = [c for c in rp.calls if c.name in ("clear", "split_to", "split_off", "truncate", "split") and describe_operand(rp, c.args[0]) == "buffer"]
        r.check(not others, "run_parser/no-other-consumption", where(rp), "the buffer is consumed only by that advance", "run_parser also calls buffer.%s" % [c.name for c in others])

    with ctx.rule("C09.R3b", "T6", "the incremental parser never decides a token before its end is in sight; the final-segment parser never asks for more", floor=5) as r:
        # reference graph over swimos_recon: direct callees and function items passed to combinators
        def refs(b):
            out = []

            def walk(x, in_complete):
                if isinstance(x, dict):
                    f = x.get("fn")
                    if isinstance(f, dict) and f.get("def"):
                        out.append((f["def"], in_complete))
                    for v in x.values():
                        walk(v, in_complete)
                elif isinstance(x, list):
                    for v in x:
                        walk(v, in_complete)
            for c in b.calls:
                if c.defpath:
                    out.append((c.defpath, False))
                wrapped = (c.defpath or "").endswith("nom::combinator::complete")
                for a in c.args:
                    walk(a, wrapped)
            for i, j, p_, rv, line in b.assigns():
                walk(rv, False)
            return out
        bodies = {}
        for b in rc.all_bodies():
            bodies.setdefault(b.defpath, b)

        def reach(root_pred):
            roots = [b for d, b in bodies.items() if root_pred(d)]
            if not roots:
                raise AnchorMissing("no parse root")
            seen, edges, work = {}, [], list(roots)
            for b in roots:
                seen[b.defpath] = None
            while work:
                b = work.pop()
                targets = refs(b) + [(d, False) for d in bodies if d.startswith(b.defpath + "::{closure")]
                for d, wrapped in targets:
                    edges.append((b.defpath, d, wrapped))
                    if d in bodies and d not in seen:
                        seen[d] = b.defpath
                        work.append(bodies[d])
            return roots, seen, edges

        def chain(seen, d):
            out = [d]
            while seen.get(out[-1]) is not None:
                out.append(seen[out[-1]])
            return " <- ".join("::".join(x.split("::")[-2:]) for x in out)
        roots, seen, edges = reach(lambda d: "IncrementalReconParser" in d and d.endswith("::parse") and " as " in d and "Parser" in d)
        for b in roots:
            ctx.saw(b)
        bad = sorted({(a, d) for a, d, w in edges if a in seen and "tokens::complete::" in d})
        r.check(len(seen) >= 15, "incremental/scope", where(roots[0]), "%d functions reachable from IncrementalReconParser::parse" % len(seen))
        r.check(not bad, "incremental/only-streaming-token-forms", where(bodies[bad[0][0]]) if bad else where(roots[0]),
                "no function reachable from IncrementalReconParser::parse uses a complete-input token parser: a token that reaches the end of the chunk is Incomplete, not finished",
                "%s uses %s, which treats the end of the chunk as the end of the token: a top-level identifier, number or blob cut in the middle is decoded from its prefix ('abcd' in two reads gives 'ab'); path: %s" % (
                    bad[0][0].split("recon_parser::")[-1], bad[0][1].split("tokens::")[-1], chain(seen, bad[0][0])) if bad else "")
        # nom's own complete-input combinators are the same hazard as the complete token parsers: `opt(complete::char('('))` answers "no" at the end of
        # a chunk where the streaming form says Incomplete. Allowed only where the end of the chunk cannot change the answer (reason per entry).
        NOM_COMPLETE_OK = {
            # (function suffix, combinator): reason
        }
        nbad = sorted({(a, d) for a, d, w in edges if a in seen and d.startswith("nom::") and "::complete::" in d and not d.startswith("nom::combinator::complete")
                       and (a.split("recon_parser::")[-1], d.split("::")[-1]) not in NOM_COMPLETE_OK})
        r.check(not nbad, "incremental/only-streaming-nom-forms", where(bodies[nbad[0][0]]) if nbad else where(roots[0]),
                "no function reachable from IncrementalReconParser::parse uses one of nom's complete-input character/bytes/number parsers",
                "%s uses %s, which takes the end of the chunk for the end of the input: when a read boundary falls exactly there the incremental parser decides differently from the one-shot parser (e.g. `@\"my attr\"` | `(1)` : 'no body'); path: %s" % (
                    nbad[0][0].split("recon_parser::")[-1], nbad[0][1], chain(seen, nbad[0][0])) if nbad else "")
        froots, fseen, fedges = reach(lambda d: "FinalSegmentParser" in d and d.endswith("::parse") and " as " in d and "Parser" in d)
        for b in froots:
            ctx.saw(b)

        def streaming(d):
            return "::streaming::" in d or d.endswith("tokens::string_literal") or d.endswith("tokens::separator")
        fbad = sorted({(a, d) for a, d, w in fedges if a in fseen and streaming(d) and not w and "record::" in a})
        r.check(len(fseen) >= 5, "final/scope", where(froots[0]), "%d functions reachable from FinalSegmentParser::parse" % len(fseen))
        r.check(not fbad, "final/no-unwrapped-streaming-parser", where(bodies[fbad[0][0]]) if fbad else where(froots[0]),
                "every streaming parser used at the end of the input is wrapped in nom::combinator::complete (Incomplete would make `finish()` panic)",
                "%s uses the streaming parser %s at the end of the input: an unterminated token makes it return Incomplete, on which `finish()` panics" % (fbad[0][0].split("recon_parser::")[-1], fbad[0][1].split("::")[-1]) if fbad else "")
        # which states can end the input: the final parser must accept, for each, everything the printers can put there
        an = bodies.get("swimos_recon::recon_parser::record::attr_name")
        anf = bodies.get("swimos_recon::recon_parser::record::attr_name_final")
        if an is None or anf is None:
            raise AnchorMissing("record::attr_name / attr_name_final")
        ctx.saw(an), ctx.saw(anf)
        kinds = lambda b: sorted({"string" if d.endswith("string_literal") else "identifier" for d, w in refs(b) if d.endswith("string_literal") or d.endswith("::identifier")})
        r.check(kinds(an) == kinds(anf), "attr_name_final/accepts-what-attr_name-accepts", where(anf), "an attribute name at the end of the input may be %s, as anywhere else" % " or ".join(kinds(anf)),
                "attr_name accepts %s but attr_name_final only %s: `@\"two words\"` (what the printers write for a record ending in such an attribute) does not parse" % (kinds(an), kinds(anf)))

    with ctx.rule("C09.R3d", "T5", "an attribute-only record ends wherever a value may end", floor=4) as r:
        # after `@k` with nothing behind it the parser must recognise every token that can follow a value inside a body as the end of
        # the (empty) record: the followers accepted by parse_after_value (a key may be followed by ':') and by parse_after_slot
        def lits(b, names=("char", "one_of")):
            out = set()
            for x in [b] + rc.closures_of(b.meta.get("def") or b.defpath):
                for c in x.calls:
                    if c.name in names and c.args:
                        d = describe_operand(x, c.args[0])
                        if d.startswith("'") and d.endswith("'"):
                            out |= set(d[1:-1].encode().decode("unicode_escape"))
                        elif "end_delim" in d:
                            out.add("<end_delim>")
            return out

        def named(b, nm):
            return any(d.endswith("::" + nm) for x in [b] + rc.closures_of(b.meta.get("def") or b.defpath) for d, w in refs(x))
        paa = ctx.saw(rc.fn(suffix="record::parse_after_attr"))
        pav = ctx.saw(rc.fn(suffix="record::parse_after_value"))
        pas = ctx.saw(rc.fn(suffix="record::parse_after_slot"))
        delims = set()
        for b in rc.all_bodies():
            if b.meta.get("name") == "end_delim" and " as " in b.defpath:
                for i, j, p_, rv, line in b.assigns():
                    if p_[0] == 0 and not p_[1]:
                        d = describe_rvalue(b, rv)
                        if d.startswith("'"):
                            delims.add(d[1:-1])
        if delims != {")", "}"}:
            raise AnchorMissing("ItemsKind::end_delim values: %s" % sorted(delims))
        followers = set()
        for b in (pav, pas):
            for ch in lits(b):
                followers |= delims if ch == "<end_delim>" else {ch}
        enders = lits(paa, names=("one_of",))
        r.check({":"} <= followers and delims <= followers, "followers/anchors", where(pav), "a value in a body may be followed by %s, a separator or a new line" % sorted(followers))
        for ch in sorted(followers):
            r.check(ch in enders, "parse_after_attr/ends-before-%r" % ch, where(paa), "`@k%s` ends the attribute-only record" % ch,
                    "parse_after_value accepts %r after a value but parse_after_attr does not take it as the end of an attribute-only record: `{@k%s1}` (printed for a slot whose key is `@k`) does not parse" % (ch, ch))
        for nm in ("separator", "line_ending"):
            r.check(named(paa, nm) or not named(pav, nm), "parse_after_attr/ends-before-%s" % nm, where(paa), "a %s ends the attribute-only record" % nm.replace("_", " "))

    with ctx.rule("C09.R3c", "T5", "a decoder that wraps RecognizerDecoder tells it when the input has ended", floor=3) as r:
        # RecognizerDecoder::decode cannot finish a value that is only complete at the end of the input (a top-level scalar, a record that
        # ends in an attribute): that is decode_eof's job. A wrapper that forwards only decode inherits tokio's default decode_eof
        # (= decode, then "bytes remaining on stream").
        eofs, decs = {}, {}
        for cn in ctx.facts.crates():
            cr = ctx.crate(cn)
            for b in cr.all_bodies():
                d = b.defpath
                if "{closure" in d:
                    continue
                if d.endswith("Decoder>::decode_eof"):
                    eofs[d[1:].split(" as ")[0].split("<")[0]] = b
                elif d.endswith("Decoder>::decode"):
                    decs[d[1:].split(" as ")[0].split("<")[0]] = b
        if not any(k.endswith("RecognizerDecoder") for k in eofs):
            raise AnchorMissing("RecognizerDecoder::decode_eof")
        n = 0
        for ty, b in sorted(decs.items()):
            inner = set()
            for c in b.calls:
                if c.name in ("decode", "decode_eof") and c.defpath and c.defpath.startswith("<") and "Decoder>::" in c.defpath:
                    it = c.defpath[1:].split(" as ")[0].split("<")[0]
                    if it in eofs and it != ty:
                        inner.add(it)
            for it in sorted(inner):
                n += 1
                ctx.saw(b)
                own = eofs.get(ty)
                calls_eof_here = any(c.name == "decode_eof" and (c.defpath or "").startswith("<" + it) for c in b.calls)
                calls_eof_own = own is not None and any(c.name == "decode_eof" and (c.defpath or "").startswith("<" + it) for c in own.calls)
                if own is not None:
                    ctx.saw(own)
                r.check(calls_eof_here or calls_eof_own, "%s/ends-%s" % (ty.split("::")[-1], it.split("::")[-1]), where(own or b),
                        "%s::%s calls %s::decode_eof" % (ty.split("::")[-1], "decode_eof" if calls_eof_own else "decode", it.split("::")[-1]),
                        "%s forwards decode to %s but never decode_eof: a body that is only complete at its end (`@unit`, `@a b`, a bare number once the parser is strictly incremental) is rejected with 'bytes remaining on stream'" % (ty, it.split("::")[-1]))
        r.check(n >= 2, "scope/wrappers", "-", "%d decoders delegate to a decoder with its own decode_eof" % n)

    with ctx.rule("C09.R6", "T1", "the tokenizer never yields a float that the printers cannot write back", floor=2) as r:
        # Recon has no text for an infinity or NaN: `inf` reads back as a text and `-inf` does not parse at all, so a literal that overflows
        # (`1e400`) must be an error, not Float64Value(inf)
        n = 0
        for b in rc.all_bodies():
            if "recon_parser::tokens::" not in b.defpath:
                continue
            ctor_refs = [d for d, w in refs(b) if d.endswith("NumericValue::Float")]
            built = [(i, line) for i, j, p_, rv, line in b.assigns() if rv[0] == "agg" and describe_rvalue(b, rv).startswith("NumericValue::Float(")]
            if not ctor_refs and not built:
                continue
            ctx.saw(b)
            n += 1
            fn = "::".join(b.defpath.split("tokens::")[-1].split("::")[:2])
            r.check(not ctor_refs, "%s/float-constructed-under-a-test" % fn, where(b), "NumericValue::Float is not used as a bare constructor function",
                    "%s maps the parsed double straight into NumericValue::Float: `1e400` becomes Float64Value(inf), which prints as `inf` (read back as a text) and `-1e400` as `-inf` (does not parse)" % fn)
            for i, line in built:
                g = dom_guards(b, i)
                fin = any(d.startswith("is_finite(") and l == "true" for d, l, _ in g) or (any(d.startswith("is_nan(") and l == "false" for d, l, _ in g) and any(d.startswith("is_infinite(") and l == "false" for d, l, _ in g))
                r.check(fin, "%s/only-finite-floats" % fn, b.loc(line), "the float is built only when is_finite() holds", "a float is built without testing that it is finite (guards: %s)" % [(d[:30], l) for d, l, _ in g])
        r.check(n >= 2, "scope/float-sites", "-", "%d tokenizer functions build floats (streaming and complete forms)" % n)

    with ctx.rule("C09.R7", "T5", "typed readers convert every kind of number the tokenizer may deliver (shared with C16.R5)", floor=9) as r:
        # a printed integer comes back as Int, UInt, BigInt or BigUint depending on its magnitude and sign (i64::MIN is tokenised as BigInt): a typed
        # reader that rejects - or ignores the value of - one of these kinds cannot read back what the printers wrote for some value of its own type
        from rules.C16 import numeric_kind_rules
        numeric_kind_rules(r, ctx, ctx.crate("swimos_form"))

    with ctx.rule("C09.R5", "T9", "panic audit: parser, decoder, literal and recognizer modules", floor=10) as r:
        ALLOW = {
            ("unescape", "unwrap", "to_digit"): "to_digit(16) after is_ascii_hexdigit(c)",
            ("read_utf8", "index", "valid_up_to"): "slice up to Utf8Error::valid_up_to (always a char boundary <= len)",
            ("escape_text", "assert", "BoundsCheck"): "DIGITS[(n >> k) & 0xf]: index masked to 0..15 of a 16 element table",
            ("after_item", "panic", ""): "ASSUMED parser invariant (not decided): frames are pushed only from states that expect an item",
            ("new_record_frame", "index", "index_mut"): "index of the element that was pushed on the line before (the old length)",
            ("write_recon_with_len", "index", "RangeFrom"): "encoder side: dst[start..] with start = dst.remaining() sampled before the placeholder was written",
        }
        scopes = ((rc, ("swimos_recon::recon_parser", "swimos_recon::encoding", "swimos_recon::parser")), (md, ("swimos_model::literal", "swimos_model::identifier")),
                  (ctx.crate("swimos_form"), ("swimos_form::structural::read",)))
        nb = 0
        for cr, prefs in scopes:
            for b in cr.all_bodies():
                if not any(p in b.defpath for p in prefs) or "::tests" in b.defpath:
                    continue
                nb += 1
                fn = b.defpath.split("::{")[0].split("::")[-1]
                for k_, (kind, desc, line, blk) in enumerate(panic_sites(b, include_index=True)):
                    why = None
                    for (f_, k2, frag), reason in ALLOW.items():
                        if f_ == fn and kind.startswith(k2) and frag in (desc + kind):
                            why = reason
                    g = dom_guards(b, blk)
                    if fn == "unescape" and kind == "unwrap":
                        why = why if any(d.startswith("is_ascii_hexdigit(") and l == "true" for d, l, _ in g) else None
                    if why is None and kind in ("assert:DivisionByZero", "assert:RemainderByZero"):
                        # `x / C` with a non-zero constant C: the assert condition is Eq(C, 0)
                        for s_ in b.stmts(blk):
                            if s_[0] == "A" and s_[2][0] == "bin" and s_[2][1] == "Eq" and s_[2][2][0] == "k" and describe_operand(b, s_[2][2]) not in ("0", "") and describe_operand(b, s_[2][3]) == "0":
                                why = "constant non-zero divisor %s" % describe_operand(b, s_[2][2])
                    if why is None and fn == "hash" and kind == "panic" and any(d.startswith("disc(to_bigint(") and l == "None" for d, l, _ in g):
                        why = "BigUint::to_bigint is always Some"
                    if why is None and kind == "index" and desc.endswith(", 0)") and any(d.startswith("Eq(len(") and d.endswith(", 1)") and l == "true" for d, l, _ in g):
                        why = "stack[0] under stack.len() == 1"
                    own = ((b.meta.get("owner") or b.meta).get("self_adt") or "").split("::")[-1]
                    r.check(why is not None, "%s%s/%s#%d/%s" % (own + "::" if own else "", fn, kind.split(":")[0], k_, desc.split("(")[0][:20]), b.loc(line), "%s: %s" % (kind, why), "potential panic on parser input: %s %s" % (kind, desc[:80]))
        r.check(nb >= 150, "scope/bodies", "-", "%d function bodies audited" % nb, "only %d bodies in scope: the module paths no longer match" % nb)

    with ctx.rule("C09.R11", "T9+T6", "nom's finish() is applied only where the parser cannot have answered Incomplete", floor=3) as r:
        # `Finish::finish` panics on Err(Incomplete). A streaming parser answers Incomplete whenever the input ends inside (or right at the start of) a
        # token - an unterminated string, an empty text - so a result that goes into finish() must come from complete-input parsers only, from a parser
        # wrapped in nom::combinator::complete, or from a branch that has already set Incomplete aside.
        nfin = 0
        for b in rc.all_bodies():
            if "::tests" in b.defpath or "swimos_recon::recon_parser" not in b.defpath:
                continue
            for c in b.calls:
                if c.name != "finish" or "nom" not in ((c.trait or "") + (c.defpath or "")):
                    continue
                nfin += 1
                ctx.saw(b)
                key = "%s/finish" % b.defpath.split("recon_parser::")[-1].split("::{")[0]
                # set aside before: the result was matched and this is not the Incomplete branch / or it is the handling of Incomplete by a second parser
                g = dom_guards(b, c.block)
                # the parser that produced the value
                prod = [x[1] for x in b.sources(c.args[0], stop_at_calls=True) if x[0] == "call"]
                parsers = []
                for pc in prod:
                    if pc.name in ("call", "call_mut", "call_once", "parse") and pc.args:
                        parsers.extend(x[1] for x in b.sources(pc.args[0], stop_at_calls=True) if x[0] == "call")
                if any((pc.defpath or "").endswith("nom::combinator::complete") for pc in parsers):
                    r.ok(key, c.loc(), "the parser is wrapped in nom::combinator::complete")
                    continue
                # everything the producing function can run: itself, its closures, and what they reference inside the crate
                # (what is handed to `complete(..)` cannot let an Incomplete out, whatever it is built from: such references are not followed)
                seen_, edges_, work_ = {b.defpath: None}, [], [b]
                while work_:
                    x_ = work_.pop()
                    for d_, w_ in refs(x_) + [(d2, False) for d2 in bodies if d2.startswith(x_.defpath + "::{closure")]:
                        edges_.append((x_.defpath, d_, w_))
                        if not w_ and d_ in bodies and d_ not in seen_:
                            seen_[d_] = x_.defpath
                            work_.append(bodies[d_])
                # a parser called through a trait object / generic parameter (`p.parse(..)`): the implementations in this crate
                impls = [d for d in bodies if d.endswith("::parse") and " as " in d and "Parser" in d and any(pc.name == "parse" for pc in prod)]
                if impls:
                    fin_impl = [d for d in impls if "Final" in d]
                    guarded = any(d.startswith("disc(") and l == "Incomplete" for d, l, _ in g)
                    if guarded and fin_impl:
                        # `Err(Incomplete) => final_parser.parse(..).finish()`: the final-segment parser is audited by C09.R3b (never asks for more)
                        r.ok(key, c.loc(), "the end-of-input parser (audited by C09.R3b) answers for the Incomplete of the incremental one")
                        continue
                sbad = sorted({(a, d) for a, d, w in edges_ if a in seen_ and streaming(d) and not w})
                r.check(not sbad, key, c.loc(), "no streaming parser can feed this finish()",
                        "%s applies finish() to the result of a parser built from the streaming parser %s (in %s): on an input that ends inside or before the token - an empty text, an unterminated string - "
                        "the parser answers Incomplete and finish() panics" % (b.defpath.split("recon_parser::")[-1], sbad[0][1].split("::")[-1] if sbad else "", sbad[0][0].split("recon_parser::")[-1] if sbad else ""))
        if nfin < 3:
            raise AnchorMissing("expected the finish() sites of the Recon parser (found %d)" % nfin)

    with ctx.rule("C09.R8", "T4", "the printers write a float in a form the tokenizer reads back as a float", floor=2) as r:
        # `{}` (Display) prints 2.0 as `2`, which the tokenizer reads as an integer: a float must reach the output through the exponent form ({:e})
        # or ryu's shortest representation (always with `.` or `e`), never through a writer that only knows Display
        n = 0
        for b in rc.all_bodies():
            if b.meta.get("name") != "write_f64" or "::printer::" not in b.defpath or "::tests" in b.defpath:
                continue
            vals = [i for i in range(1, b.argc + 1) if b.locals[i] == "f64"]
            if len(vals) != 1:
                continue
            n += 1
            ctx.saw(b)
            v = vals[0]
            sinks = []
            for c in b.calls:
                for a in c.args:
                    srcs = b.sources(_component(b, a), stop_at_calls=True)
                    if any(s_[0] == "arg" and s_[1] == v for s_ in srcs):
                        sinks.append(c)
                        break
            ok_names = ("format", "format_finite", "new_lower_exp", "new_upper_exp", "is_nan", "is_finite", "is_infinite", "is_sign_negative", "fract", "abs")
            bad = [c for c in sinks if c.name not in ok_names]
            nm = (b.meta.get("self_adt") or b.defpath).split("::")[-1].split("<")[0]
            r.check(bool(sinks) and not bad, "%s::write_f64/float-form" % nm, where(b), "the value reaches the output through %s" % sorted({c.name for c in sinks}),
                    "%s::write_f64 hands the float to %s, which formats it with Display: an integral value (2.0, -0.0, 1e21) is printed without `.` or exponent and read back as an integer "
                    "(an attribute `@weight(2.0)` comes back as Int32Value(2))" % (nm, sorted({c.name or "?" for c in bad})))
        if n < 2:
            raise AnchorMissing("expected the write_f64 of StructurePrinter and AttributePrinter (found %d)" % n)

    with ctx.rule("C09.R9", "T7", "escape_text copies what it does not escape unchanged, character by character (shared with C11.R8)", floor=1) as r:
        from rules.common import escape_text_rule
        escape_text_rule(r, ctx)

    # what the printers emit for a collection with absent items ({1,,3}) is read back only if the collection recognisers start every element afresh (C16.R12)
    from rules import C16 as _C16
    ctx.borrow(_C16, {"C16.R12": ("C09.R10", "printed collections are read back: the collection recognisers reset the element recogniser after every element (C16.R12)")})
    # the length-delimited and incremental decoders of encoding.rs / async_parser are this property's "however it is chunked" clause
    from rules import C10 as _C10
    ctx.borrow(_C10, {"C10.R17": ("C09.R12", "WithLenRecognizerDecoder books what the inner decoder took on every way out (C10.R17)"),
                      "C10.R18": ("C09.R13", "RecognizerDecoder starts afresh after every finished result, value or error (C10.R18)")})

